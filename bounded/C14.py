"""C14 bounded tier: multipatch gluing on the real code against a reference union-find."""
import itertools

import numpy as np

from . import common

COVERS = ['*']
DOMAIN = {'quick': 'all orders of the interface joins (with one repeated join) for 2x1, 2x2 and ring-of-k (k=3..5) complexes, 24 sampled orders for 3x2 '
                   'and 2x2x2; exhaustive single-pair joins on every well-formed state of 3 patches x 2 dofs; random join_dofs histories; '
                   'conforming splits of a single-patch domain (mass matrix); automatch with patch-list permutations and flipped patches',
          'thorough': 'all orders for 3x2 (720) and ring k=6, 200 sampled orders for 2x2x2, 2000 random histories'}
RULE = 'case = (check, complex, join order / history); distinct by input'


class UF:
    def __init__(self):
        self.p = {}

    def find(self, x):
        self.p.setdefault(x, x)
        while self.p[x] != x:
            self.p[x] = self.p[self.p[x]]
            x = self.p[x]
        return x

    def union(self, a, b):
        ra, rb = self.find(a), self.find(b)
        if ra != rb:
            self.p[ra] = rb


def _kvs(dim, p=2, n=2):
    from pyiga import bspline
    return tuple(bspline.make_knots(p, 0.0, 1.0, n) for _ in range(dim))


def _check_structure(mp, uf, Ns):
    """numbering vs reference classes: same global index iff same class; gap-free bijection; 0/1 matrices"""
    mp.finalize()
    g = [np.asarray(mp.patch_to_global_idx(p)) for p in range(len(Ns))]
    n = mp.numdofs
    allg = np.concatenate(g)
    assert allg.min() == 0 and sorted(set(allg.tolist())) == list(range(n)), \
        'global numbering is not a gap-free bijection onto classes: numdofs=%d, used=%d' % (n, len(set(allg.tolist())))
    cls = {}
    for p in range(len(Ns)):
        assert len(g[p]) == Ns[p]
        for i in range(Ns[p]):
            cls.setdefault(uf.find((p, i)), set()).add(int(g[p][i]))
    assert all(len(v) == 1 for v in cls.values()), 'identified dofs received different global indices'
    assert len(cls) == n, 'distinct classes share a global index (numdofs=%d, classes=%d)' % (n, len(cls))
    for p in range(len(Ns)):
        X = mp.patch_to_global(p)
        assert X.shape == (n, Ns[p])
        D = X.toarray()
        assert set(np.unique(D).tolist()) <= {0.0, 1.0} and np.all(D.sum(axis=0) == 1), 'patch_to_global is not 0/1 with one entry per local dof'
        # (declared identifications may glue two dofs of one patch, e.g. inconsistent flips: then X is not injective)
        if len(set(uf.find((p, i)) for i in range(Ns[p]))) == Ns[p]:
            assert np.array_equal((X.T @ X).toarray(), np.eye(Ns[p])), 'transpose is not a left inverse'
        assert np.array_equal(mp.global_to_patch(p).toarray(), D.T)
        # j_global=True: the same matrix placed in the column block of patch p within the concatenation of all local numberings
        XG = mp.patch_to_global(p, j_global=True).toarray()
        ofs = int(np.sum(Ns[:p]))
        assert XG.shape == (n, int(np.sum(Ns))), 'patch_to_global(j_global=True) has shape %r' % (XG.shape,)
        assert np.array_equal(XG[:, ofs:ofs + Ns[p]], D), 'column block of patch %d in the j_global matrix differs from patch_to_global(%d)' % (p, p)
        XG[:, ofs:ofs + Ns[p]] = 0
        assert not XG.any(), 'j_global matrix of patch %d has entries outside its own column block' % p
    # representation invariant
    for s, members in enumerate(mp.shared_dofs):
        assert members, 'empty shared dof %d after finalize' % s
        for (p, i) in members:
            assert mp.shared_per_patch[p][i] == s
    for p, d in enumerate(mp.shared_per_patch):
        for i, s in d.items():
            assert (p, i) in mp.shared_dofs[s]


def _complex(name):
    """(dim, number of patches, list of joins (p1, bd1, p2, bd2, flip))"""
    if name.startswith('grid'):
        dims = [int(x) for x in name[4:].split('x')]
        dim = len(dims)
        cells = list(itertools.product(*[range(d) for d in dims]))      # (x, y[, z])
        idx = {c: k for k, c in enumerate(cells)}
        joins = []
        for c in cells:
            for ax in range(dim):                                          # ax 0 = x
                c2 = list(c)
                c2[ax] += 1
                c2 = tuple(c2)
                if c2 in idx:
                    kax = dim - 1 - ax                                     # knot-vector axis of coordinate ax
                    joins.append((idx[c], (kax, 1), idx[c2], (kax, 0), None))
        return dim, len(cells), joins
    if name.startswith('ring'):
        k = int(name[4:])
        # k patches around a vertex: patch i's (0,1) side [top] glued to patch i+1's (1,0) side [left]
        joins = [(i, (0, 1), (i + 1) % k, (1, 0), None) for i in range(k)]
        return 2, k, joins
    raise ValueError(name)


def chk_order(c):
    from pyiga import assemble
    dim, npatch, joins = _complex(c['complex'])
    kvs = _kvs(dim, c.get('p', 2), c.get('n', 2))
    pk = [kvs] * npatch
    if c.get('hetero') and c['complex'].startswith('grid'):
        # conforming, but not identical, patches: the knot vector along coordinate axis a depends on the patch's position along a
        # (patches glued across a face share the knot vectors ALONG that face and differ ACROSS it)
        from pyiga import bspline
        dims = [int(x) for x in c['complex'][4:].split('x')]
        cells = list(itertools.product(*[range(d) for d in dims]))
        pk = [tuple(bspline.make_knots(c.get('p', 2), 0.0, 1.0, 1 + (cell[dim - 1 - k] + k) % 3) for k in range(dim)) for cell in cells]
    mp = assemble.Multipatch([(kv_, None) for kv_ in pk])
    Ns = [int(np.prod([kv.numdofs for kv in kv_])) for kv_ in pk]
    uf = UF()
    for j in c['order']:
        p1, b1, p2, b2, flip = joins[j]
        fl = c.get('flips', {}).get(str(j), flip)
        mp.join_boundaries(p1, b1, p2, b2, flip=fl)
        d1 = assemble.boundary_dofs(pk[p1], b1, ravel=True)
        d2 = assemble.boundary_dofs(pk[p2], b2, ravel=True, flip=fl)
        assert len(d1) == len(d2)
        for a, b in zip(d1.tolist(), d2.tolist()):
            uf.union((p1, a), (p2, b))
    _check_structure(mp, uf, Ns)


def chk_history(c):
    from pyiga import assemble
    Ns = c['N']
    kv_dummy = None
    mp = assemble.Multipatch.__new__(assemble.Multipatch)
    # build the object through its constructor semantics without knot vectors (join_dofs works on indices only)
    mp.patches = [None] * len(Ns)
    mp.N = list(Ns)
    mp.N_ofs = np.concatenate(([0], np.cumsum(mp.N)))
    mp.shared_per_patch = [dict() for _ in Ns]
    mp.shared_dofs = []
    uf = UF()
    for (p1, I1, p2, I2) in c['joins']:
        mp.join_dofs(p1, np.array(I1, dtype=int), p2, np.array(I2, dtype=int))
        for a, b in zip(I1, I2):
            uf.union((p1, a), (p2, b))
    _check_structure(mp, uf, Ns)


def chk_split(c):
    """conforming decomposition of [0,1]^2 along a C^0 line: glued mass matrix == single-patch mass matrix up to renumbering"""
    from pyiga import assemble, bspline, geometry
    p, n = c['p'], c['n']
    kvx = bspline.make_knots(p, 0.0, 1.0, n)
    # single patch with a C^0 line at x = 0.5 (multiplicity p)
    kv_full = bspline.KnotVector(np.concatenate((np.repeat(0.0, p + 1), np.repeat(0.5, p), np.repeat(1.0, p + 1))), p)
    kv_half = kv_half_r = bspline.make_knots(p, 0.0, 1.0, 1)
    if c.get('hetero'):
        # the two patches have different numbers of dofs across the interface (right patch: 3 spans): face indices of a patch
        # depend on that patch's own sizes
        kv_half_r = bspline.make_knots(p, 0.0, 1.0, 3)
        kv_full = bspline.KnotVector(np.concatenate((np.repeat(0.0, p + 1), np.repeat(0.5, p), [0.5 + 1 / 6, 0.5 + 2 / 6], np.repeat(1.0, p + 1))), p)
    A_full = assemble.mass((kvx, kv_full)).toarray()
    gl = geometry.unit_square().scale((0.5, 1.0))
    gr = geometry.unit_square().scale((0.5, 1.0)).translate((0.5, 0.0))
    patches = [((kvx, kv_half), gl), ((kvx, kv_half_r), gr)]
    if c.get('swap'):
        patches = patches[::-1]
    mp = assemble.Multipatch(patches, automatch=c['auto'])
    if not c['auto']:
        if c.get('swap'):
            mp.join_boundaries(1, 'right', 0, 'left')
        else:
            mp.join_boundaries(0, 'right', 1, 'left')
        mp.finalize()
    n_glob = mp.numdofs
    assert n_glob == A_full.shape[0], 'glued space has %d dofs, undivided space %d' % (n_glob, A_full.shape[0])
    # geometric gluing criterion: local dofs with the same global index sit at the same physical Greville point
    where = {}
    for k, (kvs, geo) in enumerate(patches):
        G = np.asarray(geo.grid_eval([kv.greville() for kv in kvs])).reshape(-1, 2)
        for i, gi in enumerate(np.asarray(mp.patch_to_global_idx(k))):
            where.setdefault(int(gi), []).append(G[i])
    for gi, pts in where.items():
        assert all(np.allclose(q, pts[0], atol=1e-12) for q in pts), 'global dof %d glues dofs at different physical points %r' % (gi, [q.tolist() for q in pts])
    A = np.zeros((n_glob, n_glob))
    for k, (kvs, geo) in enumerate(patches):
        X = mp.patch_to_global(k)
        A += (X @ assemble.mass(kvs, geo) @ X.T).toarray()
    assert abs(A.sum() - 1.0) <= 1e-12 and abs(A_full.sum() - 1.0) <= 1e-12
    ev1, ev2 = np.sort(np.linalg.eigvalsh(A)), np.sort(np.linalg.eigvalsh(A_full))
    assert np.max(np.abs(ev1 - ev2)) <= 1e-12, 'glued system differs from the undivided one (spectrum)'
    assert np.allclose(np.sort(A.sum(axis=1)), np.sort(A_full.sum(axis=1)), atol=1e-13)
    # the library's own multipatch assembly: matrix = sum_p X_p A_p X_p^T, load vector = sum_p X_p b_p (right-hand side f = 1 + x + 2y)
    from pyiga import vform
    args = {'f': lambda x, y: 1.0 + x + 2.0 * y}
    A_sys, b_sys = mp.assemble_system(vform.mass_vf(2), vform.L2functional_vf(2, physical=True), args=dict(args))
    assert np.max(np.abs(A_sys.toarray() - A)) <= 1e-13, 'assemble_system: matrix differs from sum_p X_p A_p X_p^T'
    b_ref = np.zeros(n_glob)
    for k, (kvs, geo) in enumerate(patches):
        b_ref += mp.patch_to_global(k) @ assemble.inner_products(kvs, args['f'], f_physical=True, geo=geo).ravel()
    assert np.max(np.abs(b_sys - b_ref)) <= 1e-12, 'assemble_system: load vector differs from sum_p X_p b_p (max %g)' % np.max(np.abs(b_sys - b_ref))
    assert abs(b_sys.sum() - (1.0 + 0.5 + 1.0)) <= 1e-12, 'assemble_system: integral of f over the unit square'
    # multipatch boundary data address glued dofs
    idx, vals = mp.compute_dirichlet_bcs([(0, 'left' if not c.get('swap') else 'right', lambda x, y: 1.0 + 0 * x),
                                          (1, 'right' if not c.get('swap') else 'left', lambda x, y: 1.0 + 0 * x)])
    assert len(set(idx.tolist())) == len(idx) and np.all((0 <= idx) & (idx < n_glob)) and np.allclose(vals, 1.0)


def chk_ring2(c):
    """two patches that touch along TWO faces (an annulus made of two half annuli): automatic detection finds both interfaces and the glued
    numbering identifies two local dofs iff their control points coincide"""
    from pyiga import assemble, bspline, geometry
    arc = geometry.circular_arc(np.pi)
    A = geometry.outer_product(arc, geometry.line_segment(1.0, 2.0))
    B = A.rotate_2d(np.pi)
    kvs = (bspline.make_knots(c['p'], 0.0, 1.0, c['n'][0]), bspline.make_knots(c['p'], 0.0, 1.0, c['n'][1]))
    patches = [(kvs, A), (kvs, B)] if not c.get('swap') else [(kvs, B), (kvs, A)]
    ok, ifaces = assemble.detect_interfaces(patches)
    assert ok and len(ifaces) == 2, 'two half annuli share two faces; detected interfaces: %r' % (ifaces,)
    mp = assemble.Multipatch(patches, automatch=True)
    pts = {}
    N = int(np.prod([kv.numdofs for kv in kvs]))
    for k, (kv_, geo) in enumerate(patches):
        G = np.asarray(geo.grid_eval([kv.greville() for kv in kv_])).reshape(-1, 2)
        gi = np.asarray(mp.patch_to_global_idx(k))
        for i in range(N):
            pts.setdefault(int(gi[i]), []).append((k, i, G[i]))
    for g, members in pts.items():
        assert all(np.allclose(m_[2], members[0][2], atol=1e-10) for m_ in members), 'global dof %d glues dofs at different points' % g
    # conversely: coinciding Greville points of different patches share their global index
    allpts = [(k, i, q) for members in pts.values() for (k, i, q) in members]
    gidx = {(k, i): g for g, members in pts.items() for (k, i, _) in members}
    for a_ in range(len(allpts)):
        for b_ in range(a_ + 1, len(allpts)):
            (k1, i1, q1), (k2, i2, q2) = allpts[a_], allpts[b_]
            if k1 != k2 and np.allclose(q1, q2, atol=1e-10):
                assert gidx[(k1, i1)] == gidx[(k2, i2)], 'dofs %r and %r sit at the same point %r but have different global indices' % ((k1, i1), (k2, i2), q1.tolist())
    n_iface = 2 * kvs[1].numdofs
    assert mp.numdofs == 2 * N - n_iface, 'glued annulus has %d dofs, expected %d' % (mp.numdofs, 2 * N - n_iface)


def chk_automatch(c):
    from pyiga import assemble, geometry, bspline
    nx, ny = c['grid']
    kvs = _kvs(2, c['p'], 2)
    geos = []
    for j in range(ny):
        for i in range(nx):
            geos.append(geometry.unit_square().translate((float(i), float(j))))
    order = c['perm']
    patches = [(kvs, geos[k]) for k in order]
    connected, interfaces = assemble.detect_interfaces(patches)
    assert connected
    # expected: exactly the geometrically coinciding faces
    exp = set()
    for a in range(len(order)):
        for b in range(a + 1, len(order)):
            ia, ja = order[a] % nx, order[a] // nx
            ib, jb = order[b] % nx, order[b] // nx
            if ja == jb and ib == ia + 1:
                exp.add((a, (1, 1), b, (1, 0)))
            if ja == jb and ia == ib + 1:
                exp.add((a, (1, 0), b, (1, 1)))
            if ia == ib and jb == ja + 1:
                exp.add((a, (0, 1), b, (0, 0)))
            if ia == ib and ja == jb + 1:
                exp.add((a, (0, 0), b, (0, 1)))
    got = set((p1, tuple(b1), p2, tuple(b2)) for (p1, b1, p2, b2, fl) in interfaces)
    assert got == exp, 'detected interfaces %r, expected %r' % (sorted(got), sorted(exp))
    assert all(not any(fl) for (_, _, _, _, fl) in interfaces), 'unexpected flip on an aligned grid'
    mp = assemble.Multipatch(patches, automatch=True)
    n1 = kvs[0].numdofs
    assert mp.numdofs == (nx * (n1 - 1) + 1) * (ny * (n1 - 1) + 1), 'numdofs %d' % mp.numdofs
    if c.get('flip'):
        # mirror one patch's parametrisation: the interface must be found with a flip
        g2 = geometry.unit_square().translate((1.0, 0.0))
        import copy
        k = bspline.make_knots(c['p'], 0.0, 1.0, 2)
        # y -> 1-y reparametrisation of patch 1 by reversing its coefficient array along the y axis
        gf = bspline.BSplineFunc(g2.kvs, np.ascontiguousarray(g2.coeffs[::-1]))
        conn, intf = assemble.detect_interfaces([(kvs, geometry.unit_square()), (kvs, gf)])
        assert conn and len(intf) == 1 and tuple(intf[0][4]) == (True,), 'flipped interface not detected: %r' % (intf,)
        mp2 = assemble.Multipatch([(kvs, geometry.unit_square()), (kvs, gf)], automatch=True)
        n = mp2.numdofs
        assert n == (2 * (n1 - 1) + 1) * n1
        # glued dofs coincide geometrically
        X = [mp2.patch_to_global_idx(q) for q in range(2)]
        grev = [np.array([[g[0].eval(gy, gx), g[1].eval(gy, gx)] if False else g.eval(gx, gy) for gy in kvs[0].greville() for gx in kvs[1].greville()])
                for g in (geometry.unit_square(), gf)]
        pos = {}
        for q in range(2):
            for loc, gi in enumerate(X[q]):
                pt = tuple(np.round(grev[q][loc], 12))
                if gi in pos:
                    assert pos[gi] == pt, 'glued dofs at different physical points'
                pos[gi] = pt


def chk_automatch_geo(c):
    """automatch on reflected patches (2D and 3D): two local dofs get the same global index iff their Greville points coincide physically;
    the numbering is a gap-free bijection onto these classes"""
    from pyiga import assemble, geometry, bspline
    dim = c['dim']
    kvs = tuple(bspline.make_knots(c['p'], 0.0, 1.0, n) for n in c['n'])
    base = geometry.unit_cube(dim=dim)
    shift = [0.0] * dim
    shift[c.get('dir', 0)] = 1.0          # stack along x, y or z: the interface is normal to a different parameter axis each time
    second = geometry.unit_cube(dim=dim).translate(tuple(shift))
    # reflect the parametrisation of the second patch along the chosen parameter axes (the image stays the same cube)
    C = np.asarray(second.coeffs)
    for ax, fl in enumerate(c['reflect']):
        if fl:
            C = np.flip(C, axis=ax)
    second = bspline.BSplineFunc(second.kvs, np.ascontiguousarray(C))
    patches = [(kvs, base), (kvs, second)]
    if c.get('swap'):
        patches = patches[::-1]
    mp = assemble.Multipatch(patches, automatch=True)
    pts = []
    for (k, g) in patches:
        grev = [kv.greville() for kv in k]
        X = g.grid_eval(grev).reshape(-1, dim)
        pts.append(np.round(X, 9))
    glob = [np.asarray(mp.patch_to_global_idx(p)).ravel() for p in range(2)]
    # classes by physical position
    key = {}
    for p in range(2):
        for i, x in enumerate(pts[p]):
            key.setdefault(tuple(x.tolist()), []).append((p, i))
    nclass = len(key)
    assert mp.numdofs == nclass, 'numdofs = %d, expected %d (coinciding Greville points identified)' % (mp.numdofs, nclass)
    bad = 0
    for members in key.values():
        ids = {int(glob[p][i]) for (p, i) in members}
        if len(ids) != 1:
            bad += 1
    assert bad == 0, '%d groups of physically coinciding local dofs are not glued together' % bad
    allids = np.concatenate(glob)
    assert sorted(set(allids.tolist())) == list(range(mp.numdofs)), 'global numbering is not a gap-free bijection'
    # no two physically different dofs share an index
    owner = {}
    for p in range(2):
        for i, x in enumerate(pts[p]):
            gid = int(glob[p][i])
            if gid in owner:
                assert owner[gid] == tuple(x.tolist()), 'dofs at different positions share global index %d' % gid
            owner[gid] = tuple(x.tolist())


def chk_bc(c):
    """multipatch boundary data address the glued dofs: the check shared with C10 (conditions listed in any order, patches revisited,
    every patch numbering; oracle: one global dof per distinct dof position, prescribed values = boundary data on every listed face)"""
    from . import C10 as _c10
    return _c10.chk_mp_bc(c)


CHECKS = {'bc': chk_bc, 'ring2': chk_ring2, 'automatch_geo': chk_automatch_geo, 'order': chk_order, 'history': chk_history, 'split': chk_split, 'automatch': chk_automatch}


def generate(tier, rng):
    import itertools as _it
    for refl in _it.product((False, True), repeat=2):
        for swap in (False, True):
            yield 'automatch_geo', {'dim': 2, 'p': 2, 'n': [2, 3], 'reflect': list(refl), 'swap': swap}
    for refl in _it.product((False, True), repeat=3):
        for swap in (False, True):
            for d in (0, 1, 2):
                yield 'automatch_geo', {'dim': 3, 'p': 1 + int(refl[0]), 'n': [2, 2, 3], 'reflect': list(refl), 'swap': swap, 'dir': d}
    for refl in _it.product((False, True), repeat=2):
        yield 'automatch_geo', {'dim': 2, 'p': 1, 'n': [3, 2], 'reflect': list(refl), 'swap': False, 'dir': 1}
    for p in (1, 2, 3):
        for n in ([2, 2], [3, 2], [1, 4]):
            for swap in (False, True):
                yield 'ring2', {'p': p, 'n': n, 'swap': swap}
    quick = tier == 'quick'
    for name in ('grid2x1', 'grid2x2', 'ring3', 'ring4', 'ring5') + (() if quick else ('ring6',)):
        dim, npatch, joins = _complex(name)
        m = len(joins)
        for perm in itertools.permutations(range(m)):
            yield 'order', {'complex': name, 'order': list(perm)}
        for perm in list(itertools.permutations(range(m)))[:24]:
            rep = list(perm) + [perm[0]]
            rng.shuffle(rep)
            yield 'order', {'complex': name, 'order': rep}
    for name, cnt in (('grid3x2', 24 if quick else 720), ('grid2x2x2', 24 if quick else 200), ('grid3x3', 6 if quick else 60)):
        dim, npatch, joins = _complex(name)
        m = len(joins)
        perms = list(itertools.permutations(range(m))) if (name == 'grid3x2' and not quick) else None
        for k in range(cnt):
            if perms is not None:
                perm = list(perms[k])
            else:
                perm = list(range(m))
                rng.shuffle(perm)
            yield 'order', {'complex': name, 'order': perm, 'n': 1 if dim == 3 else 2}
            if k % 3 == 0:
                yield 'order', {'complex': name, 'order': perm, 'hetero': True, 'p': 1 + k % 2}
    for name in ('grid2x1', 'grid2x2'):
        dim, npatch, joins = _complex(name)
        for perm in itertools.permutations(range(len(joins))):
            yield 'order', {'complex': name, 'order': list(perm), 'hetero': True}
    # flips on a 2x1 / 2x2 complex (consistent flips on both orders)
    for perm in itertools.permutations(range(4)):
        yield 'order', {'complex': 'grid2x2', 'order': list(perm), 'flips': {'0': [True], '3': [True]}}
    # exhaustive single-pair joins on small states: 3 patches x 2 dofs, all sequences of <= 4 single-pair joins
    Ns = [2, 2, 2]
    pairs = [(p1, i1, p2, i2) for p1 in range(3) for p2 in range(3) if p1 != p2 for i1 in range(2) for i2 in range(2)]
    seqs = list(itertools.product(pairs, repeat=2))
    for s in seqs:
        yield 'history', {'N': Ns, 'joins': [(p1, [i1], p2, [i2]) for (p1, i1, p2, i2) in s]}
    for _ in range(300 if quick else 3000):
        L = rng.randint(3, 6)
        s = [rng.choice(pairs) for _ in range(L)]
        yield 'history', {'N': Ns, 'joins': [(p1, [i1], p2, [i2]) for (p1, i1, p2, i2) in s]}
    for _ in range(150 if quick else 2000):
        npat = rng.randint(2, 5)
        Ns2 = [rng.randint(1, 5) for _ in range(npat)]
        joins = []
        for _ in range(rng.randint(1, 7)):
            p1, p2 = rng.sample(range(npat), 2)
            m = rng.randint(1, min(Ns2[p1], Ns2[p2]))
            joins.append((p1, rng.sample(range(Ns2[p1]), m), p2, rng.sample(range(Ns2[p2]), m)))
        yield 'history', {'N': Ns2, 'joins': joins}
    yield 'history', {'N': [3], 'joins': []}
    yield 'history', {'N': [2, 3], 'joins': []}
    for p in (1, 2, 3):
        for n in (1, 2, 3):
            for auto in (False, True):
                for swap in (False, True):
                    yield 'split', {'p': p, 'n': n, 'auto': auto, 'swap': swap}
                    yield 'split', {'p': p, 'n': n, 'auto': auto, 'swap': swap, 'hetero': True}
    for grid in ((2, 1), (2, 2), (3, 2)):
        k = grid[0] * grid[1]
        perms = list(itertools.permutations(range(k)))
        rng.shuffle(perms)
        for perm in perms[:(4 if quick else 30)]:
            yield 'automatch', {'grid': list(grid), 'perm': list(perm), 'p': 2, 'flip': grid == (2, 1)}

    import itertools as _it
    for k, perm in enumerate(list(_it.permutations(range(3)))[::2] + list(_it.permutations(range(4)))[::5]):
        yield 'bc', {'seed': 20 + k, 'p': 1 + k % 3, 'n': [3 + k % 2, 4], 'shape': 'L' if len(perm) == 3 else 'square', 'ncond': 8, 'hetero': bool(k % 2), 'perm': list(perm)}

if __name__ == '__main__':
    import sys
    common.main(sys.modules[__name__])
