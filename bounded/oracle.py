"""Exact rational Cox-de Boor oracle (fractions.Fraction; doubles are converted exactly)."""
from fractions import Fraction


def fr(x):
    return Fraction(x)


def findspan(kv, p, u):
    """right-continuous; the last non-empty span at the right end"""
    n = len(kv)
    if u >= kv[n - p - 1]:
        r = n - p - 2
        while kv[r] == kv[r + 1]:
            r -= 1
        return r
    r = p
    while not (kv[r] <= u < kv[r + 1]):
        r += 1
    return r


def basis_poly(kv, p, span):
    """for each function i in span-p..span: coefficient list (ascending powers of u) of N_{i,p} on the span"""
    # polynomials as lists of Fractions
    def padd(a, b):
        n = max(len(a), len(b))
        return [(a[k] if k < len(a) else 0) + (b[k] if k < len(b) else 0) for k in range(n)]

    def pmul_lin(a, c0, c1):
        # a(u) * (c0 + c1 u)
        out = [Fraction(0)] * (len(a) + 1)
        for k, v in enumerate(a):
            out[k] += v * c0
            out[k + 1] += v * c1
        return out
    N = {span: [Fraction(1)]}
    for q in range(1, p + 1):
        new = {}
        for i in range(span - q, span + 1):
            val = [Fraction(0)]
            if i in N:
                d = kv[i + q] - kv[i]
                val = padd(val, pmul_lin(N[i], -kv[i] / d, Fraction(1) / d))
            if i + 1 in N:
                d = kv[i + q + 1] - kv[i + 1]
                val = padd(val, pmul_lin(N[i + 1], kv[i + q + 1] / d, Fraction(-1) / d))
            new[i] = val
        N = new
    return N


def pderiv(a, k):
    for _ in range(k):
        a = [v * j for j, v in enumerate(a)][1:] or [Fraction(0)]
    return a


def peval(a, u):
    r = Fraction(0)
    for v in reversed(a):
        r = r * u + v
    return r


def active_derivs(kv_float, p, u_float, numderiv):
    """(first active index, [[d^k N_{first+r}(u) for r in 0..p] for k in 0..numderiv]) exactly"""
    kv = [fr(x) for x in kv_float]
    u = fr(u_float)
    span = findspan(kv, p, u)
    N = basis_poly(kv, p, span)
    rows = []
    for k in range(numderiv + 1):
        rows.append([peval(pderiv(N[i], k), u) for i in range(span - p, span + 1)])
    return span - p, rows


def all_derivs(kv_float, p, u_float, numderiv):
    """dense rows over all basis functions"""
    first, rows = active_derivs(kv_float, p, u_float, numderiv)
    n = len(kv_float) - p - 1
    out = []
    for row in rows:
        full = [Fraction(0)] * n
        for r, v in enumerate(row):
            full[first + r] = v
        out.append(full)
    return out


# ------------------------------------------------------------------------------------------------
# exact Galerkin integrals of B-splines

def pmul(a, b):
    out = [Fraction(0)] * (len(a) + len(b) - 1)
    for i, x in enumerate(a):
        for j, y in enumerate(b):
            out[i + j] += x * y
    return out


def pint(a, lo, hi):
    """exact integral of the polynomial a over [lo, hi]"""
    r = Fraction(0)
    for k, v in enumerate(a):
        r += v * (hi ** (k + 1) - lo ** (k + 1)) / (k + 1)
    return r


def biform_1d(kv1_float, p1, kv2_float, p2, du, dv, weight=None, spans=None):
    """exact matrix  A[i][j] = int w * N2_i^(dv) * N1_j^(du)   (rows: kv2 test functions, columns: kv1 trial functions);
    both knot vectors must have the same break points; weight: polynomial coefficient list or None"""
    kv1 = [fr(x) for x in kv1_float]
    kv2 = [fr(x) for x in kv2_float]
    n1, n2 = len(kv1) - p1 - 1, len(kv2) - p2 - 1
    A = [[Fraction(0)] * n1 for _ in range(n2)]
    mesh = sorted(set(kv1))
    for ks, (lo, hi) in enumerate(zip(mesh[:-1], mesh[1:])):
        if spans is not None and not (spans[0] <= ks < spans[1]):
            continue            # integral over a sub-range of the mesh spans only
        s1 = max(k for k in range(len(kv1) - 1) if kv1[k] <= lo and kv1[k] < kv1[k + 1] and kv1[k + 1] >= hi)
        s2 = max(k for k in range(len(kv2) - 1) if kv2[k] <= lo and kv2[k] < kv2[k + 1] and kv2[k + 1] >= hi)
        N1 = basis_poly(kv1, p1, s1)
        N2 = basis_poly(kv2, p2, s2)
        for i, a in N2.items():
            da = pderiv(a, dv)
            for j, b in N1.items():
                prod = pmul(da, pderiv(b, du))
                if weight is not None:
                    prod = pmul(prod, weight)
                A[i][j] += pint(prod, lo, hi)
    return A
