"""Exact rational Cox-de Boor oracle (fractions.Fraction; doubles are converted exactly)."""
from fractions import Fraction


def fr(x):
    return Fraction(x)


def findspan(kv, p, u):
    """right-continuous; the last non-empty span at the right end"""
    n = len(kv)
    if u >= kv[n - p - 1]:
        r = n - p - 2
        while kv[r] == kv[r + 1]:
            r -= 1
        return r
    r = p
    while not (kv[r] <= u < kv[r + 1]):
        r += 1
    return r


def basis_poly(kv, p, span):
    """for each function i in span-p..span: coefficient list (ascending powers of u) of N_{i,p} on the span"""
    # polynomials as lists of Fractions
    def padd(a, b):
        n = max(len(a), len(b))
        return [(a[k] if k < len(a) else 0) + (b[k] if k < len(b) else 0) for k in range(n)]

    def pmul_lin(a, c0, c1):
        # a(u) * (c0 + c1 u)
        out = [Fraction(0)] * (len(a) + 1)
        for k, v in enumerate(a):
            out[k] += v * c0
            out[k + 1] += v * c1
        return out
    N = {span: [Fraction(1)]}
    for q in range(1, p + 1):
        new = {}
        for i in range(span - q, span + 1):
            val = [Fraction(0)]
            if i in N:
                d = kv[i + q] - kv[i]
                val = padd(val, pmul_lin(N[i], -kv[i] / d, Fraction(1) / d))
            if i + 1 in N:
                d = kv[i + q + 1] - kv[i + 1]
                val = padd(val, pmul_lin(N[i + 1], kv[i + q + 1] / d, Fraction(-1) / d))
            new[i] = val
        N = new
    return N


def pderiv(a, k):
    for _ in range(k):
        a = [v * j for j, v in enumerate(a)][1:] or [Fraction(0)]
    return a


def peval(a, u):
    r = Fraction(0)
    for v in reversed(a):
        r = r * u + v
    return r


def active_derivs(kv_float, p, u_float, numderiv):
    """(first active index, [[d^k N_{first+r}(u) for r in 0..p] for k in 0..numderiv]) exactly"""
    kv = [fr(x) for x in kv_float]
    u = fr(u_float)
    span = findspan(kv, p, u)
    N = basis_poly(kv, p, span)
    rows = []
    for k in range(numderiv + 1):
        rows.append([peval(pderiv(N[i], k), u) for i in range(span - p, span + 1)])
    return span - p, rows


def all_derivs(kv_float, p, u_float, numderiv):
    """dense rows over all basis functions"""
    first, rows = active_derivs(kv_float, p, u_float, numderiv)
    n = len(kv_float) - p - 1
    out = []
    for row in rows:
        full = [Fraction(0)] * n
        for r, v in enumerate(row):
            full[first + r] = v
        out.append(full)
    return out
