"""Oracles that replay solver counter-models on the real (scratch-built) code: read {"oracle", "inputs"} from stdin, print one JSON line
{"reproduced": bool, "decisive": bool, "observed": str}."""
import json
import sys

import numpy as np


def _clean(x):
    """counter-model values that are too large / symbolic are not replayable"""
    if isinstance(x, dict) and x.get('too_large'):
        raise ValueError('model value too large to rebuild')
    return x


def o_chunk_tasks(inp):
    from pyiga import assemble_tools_cy as at
    tasks = np.array(_clean(inp['tasks']), dtype=float)
    k = int(inp['num_chunks'])
    if k < 1:
        return None
    try:
        parts = list(at.chunk_tasks(tasks, k))
    except Exception as e:
        return 'chunk_tasks(%d tasks, %d) raised %s: %s' % (len(tasks), k, type(e).__name__, e)
    cat = np.concatenate(parts) if parts else np.zeros(0)
    if len(cat) != len(tasks) or not np.array_equal(cat, tasks):
        return 'the chunks do not partition the tasks in order: lengths %r for %d tasks' % ([len(p) for p in parts], len(tasks))
    if any(len(p) == 0 for p in parts):
        return 'empty chunk: lengths %r' % ([len(p) for p in parts],)
    return ''


def _findspan_check(kv, p, u, r):
    n = len(kv)
    if not (p <= r <= n - p - 2):
        return 'span index %r outside [p, n-p-2] = [%d, %d]' % (r, p, n - p - 2)
    if not kv[r] <= u:
        return 'kv[%d] = %r > u = %r' % (r, kv[r], u)
    if not (u < kv[r + 1] or (u == kv[n - p - 1] and r == n - p - 2)):
        return 'u = %r is not below kv[%d] = %r' % (u, r + 1, kv[r + 1])
    if not kv[r] < kv[r + 1]:
        return 'span %d is empty (kv[r] = kv[r+1] = %r)' % (r, kv[r])
    return ''


def _valid_open_kv(kv, p, u):
    n = len(kv)
    return (p >= 0 and n >= 2 * p + 2 and all(kv[i] <= kv[i + 1] for i in range(n - 1)) and kv[p] < kv[n - p - 1]
            and all(kv[i] == kv[0] for i in range(p + 1)) and all(kv[n - 1 - i] == kv[n - 1] for i in range(p + 1)) and kv[p] <= u <= kv[n - p - 1])


def o_pyx_findspan(inp):
    from pyiga import bspline_cy
    kv = [float(x) for x in _clean(inp['kv'])]
    p, u = int(inp['p']), float(inp['u'])
    if not _valid_open_kv(kv, p, u):
        return None
    try:
        r = int(bspline_cy.pyx_findspan(np.array(kv), p, u))
    except Exception as e:
        return 'pyx_findspan raised %s: %s' % (type(e).__name__, e)
    return _findspan_check(kv, p, u, r)


def o_kv_findspan(inp):
    from pyiga import bspline
    me = inp['self']
    kv = [float(x) for x in _clean(me['kv'])]
    p, u = int(me['p']), float(inp['u'])
    if not _valid_open_kv(kv, p, u):
        return None
    try:
        r = int(bspline.KnotVector(np.array(kv), p).findspan(u))
    except Exception as e:
        return 'findspan raised %s: %s' % (type(e).__name__, e)
    return _findspan_check(kv, p, u, r)


def o_knot_insertion(inp):
    from pyiga import bspline
    me = inp['kv']
    kv = [float(x) for x in _clean(me['kv'])]
    p, u = int(me['p']), float(inp['u'])
    n = len(kv)
    if not _valid_open_kv(kv, p, u) or not u < kv[n - p - 1]:
        return None
    K = bspline.KnotVector(np.array(kv), p)
    try:
        P = bspline.knot_insertion(K, u).toarray()
    except Exception as e:
        return 'knot_insertion raised %s: %s' % (type(e).__name__, e)
    if P.shape != (K.numdofs + 1, K.numdofs):
        return 'shape %r' % (P.shape,)
    if P.min() < -1e-14 or abs(P.sum(axis=1) - 1).max() > 1e-12:
        return 'rows are not convex combinations'
    K2 = bspline.KnotVector(np.sort(np.append(kv, u)), p)
    m = np.unique(K2.kv)
    X = np.unique(np.concatenate([np.linspace(a, b, p + 3) for a, b in zip(m[:-1], m[1:])]))
    err = abs(bspline.collocation(K2, X) @ P - bspline.collocation(K, X).toarray()).max()
    if err > 1e-10:
        return 'the refined spline differs from the original by %g' % err
    return ''


def o_position_index(inp):
    from pyiga import hierarchical
    sup = [int(x) for x in _clean(inp['suplist'])]
    sub = [int(x) for x in _clean(inp['sublist'])]
    if sorted(set(sup)) != sup or sorted(set(sub)) != sub or not set(sub) <= set(sup):
        return None
    try:
        out = list(hierarchical._position_index(list(sup), list(sub)))
    except Exception as e:
        return '_position_index raised %s: %s' % (type(e).__name__, e)
    if len(out) != len(sub) or any(sup[int(k)] != s for k, s in zip(out, sub)):
        return 'positions %r do not address the sub-list %r in %r' % (out, sub, sup)
    return ''


def o_to_seq(inp):
    return None


ORACLES = {'chunk_tasks': o_chunk_tasks, 'pyx_findspan': o_pyx_findspan, 'kv_findspan': o_kv_findspan, 'knot_insertion': o_knot_insertion,
           'position_index': o_position_index, 'to_seq': o_to_seq}


def main():
    payload = json.loads(sys.stdin.read())
    try:
        msg = ORACLES[payload['oracle']](payload['inputs'])
    except ValueError as e:
        print(json.dumps({'reproduced': False, 'decisive': False, 'observed': 'not replayable: %s' % e}))
        return
    except Exception as e:
        print(json.dumps({'reproduced': False, 'decisive': False, 'observed': 'oracle error %s: %s' % (type(e).__name__, e)}))
        return
    if msg is None:
        print(json.dumps({'reproduced': False, 'decisive': False, 'observed': 'the counter-model is outside the inputs the oracle can rebuild'}))
    elif msg == '':
        # the real code behaves on this input; the failed obligation may concern an intermediate state (loop invariant), so this is not
        # taken as a refutation of the encoding
        print(json.dumps({'reproduced': False, 'decisive': False, 'observed': 'the real function meets its postcondition on the counter-model input'}))
    else:
        print(json.dumps({'reproduced': True, 'decisive': True, 'observed': msg}))


if __name__ == '__main__':
    main()
