"""C16 bounded tier: the linear-operator building blocks act like the dense matrices they denote (real code)."""
import itertools

import numpy as np

from . import common

COVERS = ['*']
DOMAIN = {'quick': 'Kronecker products of 1-4 factors with independent shapes (square and rectangular, sizes 1-4), each factor dense / sparse / LinearOperator, '
                   'applied to vectors, (n,1) and (n,k) arrays of dtype float64, integer and float32, plain / transposed / adjoint; block, block-diagonal (with None and NullOperator '
                   'blocks), diagonal, identity, null, subspace-correction operators and their transposes; apply_tprod with None placeholders and '
                   'trailing axes, apply_kronecker; make_solver (dense/sparse, general/symmetric/SPD), make_kronecker_solver, fastdiag_solver for '
                   'Kronecker-sum Laplacians in 1D-3D; CSRRowSlice / CSRRowSubset; seeded random matrices with entries in Z/2 (exact products, non-integer results)',
          'thorough': 'more seeds and shapes'}
RULE = 'case = (operator kind, shapes, storage kinds, argument kind, seed); distinct by input'
TOL = 1e-11
SKIP_H = False


def _close(A, B, what, tol=TOL):
    A, B = np.asarray(A), np.asarray(B)
    assert A.shape == B.shape, '%s: shape %r, expected %r' % (what, A.shape, B.shape)
    if A.size:
        err = np.abs(A - B).max()
        assert err <= tol * max(1.0, np.abs(B).max()), '%s: max difference %g' % (what, err)


def _mat(rng, m, n):
    # multiples of 1/2: all products stay exact in double precision, but are not integers (a result cast to an integer dtype shows)
    return rng.randint(-6, 7, size=(m, n)) / 2.0


def _as_kind(A, kind):
    import scipy.sparse
    import scipy.sparse.linalg
    if kind == 'dense':
        return A
    if kind == 'sparse':
        return scipy.sparse.csr_matrix(A)
    return scipy.sparse.linalg.aslinearoperator(A)


def _args(rng, n):
    return [('vector', rng.randint(-3, 4, size=n).astype(float)), ('column', rng.randint(-3, 4, size=(n, 1)).astype(float)),
            ('matrix', rng.randint(-3, 4, size=(n, 3)).astype(float)),
            # other real dtypes: the result is the exact product with the dense matrix, not a value cast back to the argument's dtype
            ('integer vector', rng.randint(-3, 4, size=n)), ('float32 matrix', rng.randint(-3, 4, size=(n, 2)).astype(np.float32)),
            # memory layout: strided view of a longer vector, Fortran-ordered columns
            ('strided vector', np.repeat(rng.randint(-3, 4, size=n).astype(float), 2)[::2]),
            ('Fortran-ordered matrix', np.asfortranarray(rng.randint(-3, 4, size=(n, 3)).astype(float)))]


def _apply_all(op, D, rng, what, transposes=True):
    import scipy.sparse.linalg
    assert tuple(op.shape) == D.shape, '%s: shape %r, dense definition has %r' % (what, tuple(op.shape), D.shape)
    for nm, x in _args(rng, D.shape[1]):
        x_before = np.array(x, copy=True)
        _close(op.dot(x), D.dot(x), '%s applied to a %s' % (what, nm))
        assert np.array_equal(x, x_before), '%s applied to a %s changed its argument' % (what, nm)
        if nm != 'column':
            _close(op @ x, D @ x, '%s @ %s' % (what, nm))
    if transposes:
        for nm, x in _args(rng, D.shape[0])[:1] + _args(rng, D.shape[0])[2:]:
            _close(op.T.dot(x), D.T.dot(x), 'transpose of %s applied to a %s' % (what, nm))
            if not SKIP_H: _close(op.H.dot(x), D.T.dot(x), 'adjoint of %s applied to a %s' % (what, nm))


def chk_kron(c):
    from pyiga import operators, kronecker
    rng = np.random.RandomState(c['seed'])
    mats = [_mat(rng, m, n) for (m, n) in c['shapes']]
    D = mats[0]
    for M in mats[1:]:
        D = np.kron(D, M)
    ops = [_as_kind(M, k) for M, k in zip(mats, c['kinds'])]
    K = operators.KroneckerOperator(*ops)
    _apply_all(K, D, rng, 'KroneckerOperator%r kinds %r' % (c['shapes'], c['kinds']))
    if all(m == n for (m, n) in c['shapes']):
        for nm, x in _args(rng, D.shape[1]):
            _close(kronecker.apply_kronecker(ops, x), D.dot(x), 'apply_kronecker on a %s' % nm)


def chk_modek(c):
    """modek_tprod(B, k, X): mode-k product with a dense / sparse / abstract operator B (rectangular), every mode of tensors with 1-4 axes:
    Y[i_1..m..i_N] = sum_j B[m, j] X[i_1..j..i_N] (explicit loops over the mode via einsum on the dense matrix)"""
    from pyiga import tensor
    rng = np.random.RandomState(c['seed'])
    shp = tuple(c['shape'])
    X = rng.randint(-3, 4, size=shp).astype(float)
    for k in range(len(shp)):
        M = _mat(rng, c['m'], shp[k])
        B = _as_kind(M, c['kind'])
        got = np.asarray(tensor.modek_tprod(B, k, X))
        want = np.moveaxis(np.tensordot(M, X, axes=(1, k)), 0, k)
        assert got.shape == want.shape, 'modek_tprod(%s %r, k=%d, X%r): shape %r, expected %r' % (c['kind'], M.shape, k, shp, got.shape, want.shape)
        _close(got, want, 'modek_tprod(%s %r, k=%d, X%r)' % (c['kind'], M.shape, k, shp))


def chk_tprod_struct(c):
    """apply_tprod on structured tensors (canonical, Tucker, sums and outer products of them): expanding the result gives the dense
    application of the Kronecker product to the expanded tensor; placeholders (None) act as the identity"""
    from pyiga import tensor
    rng = np.random.RandomState(c['seed'])
    shp = tuple(c['shape'])
    d = len(shp)

    def canon(R):
        return tensor.CanonicalTensor([rng.randint(-2, 3, size=(n, R)).astype(float) for n in shp])

    def tucker(ranks):
        return tensor.TuckerTensor([rng.randint(-2, 3, size=(n, r)).astype(float) for n, r in zip(shp, ranks)], rng.randint(-2, 3, size=tuple(ranks)).astype(float))
    kind = c['tensor']
    if kind == 'canonical':
        X = canon(c['rank'])
    elif kind == 'tucker':
        X = tucker([1 + (c['rank'] + k) % 3 for k in range(d)])
    elif kind == 'sum':
        X = tensor.TensorSum(canon(c['rank']), tucker([2] * d), canon(1))
    else:           # outer product of a vector (first axis) and a structured tensor over the remaining axes
        rest = tensor.CanonicalTensor([rng.randint(-2, 3, size=(n, c['rank'])).astype(float) for n in shp[1:]])
        X = tensor.TensorProd(rng.randint(-2, 3, size=shp[0]).astype(float), rest)
    Xd = np.asarray(tensor.asarray(X), dtype=float)
    assert Xd.shape == shp, 'expanded tensor has shape %r, declared %r' % (Xd.shape, shp)
    mats, ops = [], []
    for k, n in enumerate(shp):
        if k in c.get('ident', []):
            mats.append(np.eye(n)); ops.append(None)
        else:
            M = _mat(rng, c['rows'][k], n)
            mats.append(M); ops.append(_as_kind(M, c['kinds'][k]))
    if c.get('short') and kind in ('canonical', 'tucker', 'sum'):
        # fewer operators than axes: the trailing axes are left alone
        ops = ops[:-1]
        mats[-1] = np.eye(shp[-1])
    Y = tensor.apply_tprod(ops, X)
    Yd = np.asarray(tensor.asarray(Y), dtype=float)
    want = Xd
    for k, M in enumerate(mats):
        want = np.moveaxis(np.tensordot(M, want, axes=(1, k)), 0, k)
    assert Yd.shape == want.shape, 'apply_tprod on a %s tensor: shape %r, expected %r' % (kind, Yd.shape, want.shape)
    _close(Yd, want, 'apply_tprod(%r operators, %s tensor of shape %r)' % (c['kinds'], kind, shp))


def chk_tprod(c):
    from pyiga import tensor
    import scipy.sparse
    rng = np.random.RandomState(c['seed'])
    mats = [None if s is None else _mat(rng, *s) for s in c['shapes']]
    insizes = [c['ident'][k] if s is None else s[1] for k, s in enumerate(c['shapes'])]
    X = rng.randint(-3, 4, size=tuple(insizes) + tuple(c['trailing'])).astype(float)
    ref = X
    for k, M in enumerate(mats):
        if M is not None:
            ref = np.moveaxis(np.tensordot(M, ref, axes=([1], [k])), 0, k)
    ops = [None if M is None else _as_kind(M, kd) for M, kd in zip(mats, c['kinds'])]
    _close(tensor.apply_tprod(ops, X), ref, 'apply_tprod shapes %r kinds %r trailing %r' % (c['shapes'], c['kinds'], c['trailing']))


def chk_block(c):
    from pyiga import operators
    rng = np.random.RandomState(c['seed'])
    hs, ws = c['heights'], c['widths']
    blocks, dense = [], []
    for i, h in enumerate(hs):
        row, drow = [], []
        for j, w in enumerate(ws):
            kind = c['layout'][i][j]
            M = _mat(rng, h, w)
            if kind == 'none':
                row.append(None)
                drow.append(np.zeros((h, w)))
            elif kind == 'null':
                row.append(operators.NullOperator((h, w)))
                drow.append(np.zeros((h, w)))
            else:
                row.append(_as_kind(M, kind))
                drow.append(M)
        blocks.append(row)
        dense.append(drow)
    D = np.block(dense)
    B = operators.BlockOperator(blocks)
    _apply_all(B, D, rng, 'BlockOperator layout %r' % (c['layout'],))


def chk_blockdiag(c):
    from pyiga import operators
    import scipy.linalg
    rng = np.random.RandomState(c['seed'])
    mats = [_mat(rng, m, n) for (m, n) in c['shapes']]
    D = scipy.linalg.block_diag(*mats)
    B = operators.BlockDiagonalOperator(*[_as_kind(M, k) for M, k in zip(mats, c['kinds'])])
    _apply_all(B, D, rng, 'BlockDiagonalOperator%r' % (c['shapes'],))


def chk_simple(c):
    from pyiga import operators
    rng = np.random.RandomState(c['seed'])
    n, m = c['n'], c['m']
    d = rng.randint(1, 5, size=n).astype(float)
    _apply_all(operators.DiagonalOperator(d), np.diag(d), rng, 'DiagonalOperator')
    _apply_all(operators.DiagonalOperator(d.reshape(1, n)), np.diag(d), rng, 'DiagonalOperator (row vector input)')
    _apply_all(operators.IdentityOperator(n), np.eye(n), rng, 'IdentityOperator')
    _apply_all(operators.NullOperator((m, n)), np.zeros((m, n)), rng, 'NullOperator')


def chk_subspace(c):
    from pyiga import operators
    rng = np.random.RandomState(c['seed'])
    n = c['n']
    Ps = [_mat(rng, n, k) for k in c['sizes']]
    Bs = [_mat(rng, k, k) for k in c['sizes']]
    D = sum(P @ B @ P.T for P, B in zip(Ps, Bs))
    S = operators.SubspaceOperator([_as_kind(P, kd) if kd != 'linop' else P for P, kd in zip(Ps, c['kinds'])], [_as_kind(B, kd) for B, kd in zip(Bs, c['kinds'])])
    _apply_all(S, D, rng, 'SubspaceOperator sizes %r' % (c['sizes'],), transposes=False)
    for nm, x in _args(rng, n)[:1]:
        _close(S.T.dot(x), D.T.dot(x), 'transpose of SubspaceOperator')
        _close(S.T.T.dot(x), D.dot(x), 'double transpose of SubspaceOperator')
        if not SKIP_H:
            _close(S.H.dot(x), D.T.dot(x), 'adjoint of SubspaceOperator')
            _close(S.H.H.dot(x), D.dot(x), 'double adjoint of SubspaceOperator')


def chk_solver(c):
    from pyiga import operators
    import scipy.sparse
    rng = np.random.RandomState(c['seed'])
    n = c['n']
    A = _mat(rng, n, n)
    if c['kind'] == 'general':
        B = A + (np.abs(A).sum() + 1) * np.eye(n)
        kw = {}
    elif c['kind'] == 'spd':
        B = A @ A.T + n * np.eye(n)
        kw = {'spd': True}
    elif c['kind'] == 'saddle':
        # symmetric indefinite and well conditioned, but with tiny (nonzero) diagonal entries: [[eps K, C^T], [C, -eps I]] -- a factorisation
        # that keeps its pivots on the diagonal loses all accuracy here
        m = max(1, n // 2)
        n = 2 * m
        K = _mat(rng, m, m)
        K = K @ K.T + m * np.eye(m)
        C = _mat(rng, m, m)
        C = C + (np.abs(C).sum() + 1.0) * np.eye(m)
        eps = 1e-13
        B = np.block([[eps * K, C.T], [C, -eps * np.eye(m)]])
        kw = {'symmetric': True}
    else:
        # symmetric, not positive definite: diagonally dominant with diagonal entries of alternating sign (indefinite, invertible)
        B = (A + A.T) / 2.0
        np.fill_diagonal(B, 0.0)
        d = (np.abs(B).sum(axis=1) + 1.0) * np.array([(-1.0) ** i for i in range(n)])
        B = B + np.diag(d) if n > 1 or c['seed'] % 2 else B + np.diag(np.abs(d))
        kw = {'symmetric': True}
    Bop = scipy.sparse.csr_matrix(B) if c['sparse'] else B
    if c.get('order') == 'F' and not c['sparse']:
        Bop = np.asfortranarray(B.copy())          # column-major storage of the same matrix
    B0 = Bop.toarray().copy() if c['sparse'] else np.array(Bop, copy=True)
    S = operators.make_solver(Bop, **kw)
    for nm, x in _args(rng, n):
        y = S.dot(x)
        _close(B @ y, x, 'make_solver(%s%s) applied to a %s is not the inverse' % (c['kind'], ', sparse' if c['sparse'] else '', nm), tol=1e-9)
    # the factory works on a copy: the matrix it was given is the caller's (e.g. a mass matrix that is used again afterwards)
    B1 = Bop.toarray() if c['sparse'] else np.asarray(Bop)
    assert np.array_equal(B1, B0), 'make_solver(%s, %s storage) changed the matrix it was given (max change %g)' % (
        c['kind'], c.get('order', 'C'), np.max(np.abs(B1 - B0)))


def chk_kronsolver(c):
    from pyiga import operators
    rng = np.random.RandomState(c['seed'])
    Bs = []
    for n in c['sizes']:
        A = _mat(rng, n, n)
        Bs.append(A + (np.abs(A).sum() + 1) * np.eye(n))
    D = Bs[0]
    for M in Bs[1:]:
        D = np.kron(D, M)
    S = operators.make_kronecker_solver(*Bs)
    for nm, x in _args(rng, D.shape[0]):
        _close(D @ S.dot(x), x, 'make_kronecker_solver applied to a %s' % nm, tol=1e-9)


def chk_fastdiag(c):
    from pyiga import solvers, bspline, assemble
    rng = np.random.RandomState(c['seed'])
    kvs = [bspline.make_knots(p, 0.0, 1.0, n) for p, n in c['space']]
    KM = []
    for kv in kvs:
        K = assemble.stiffness(kv).toarray() + 0.1 * assemble.mass(kv).toarray()
        M = assemble.mass(kv).toarray()
        KM.append((K, M))
    dim = len(KM)
    A = 0
    for d in range(dim):
        fac = [KM[j][1] for j in range(dim)]
        fac[d] = KM[d][0]
        T = fac[0]
        for F in fac[1:]:
            T = np.kron(T, F)
        A = A + T
    if c.get('sparse'):
        # the 1D assembly routines return sparse matrices: they are valid factors, too
        import scipy.sparse
        S = solvers.fastdiag_solver([(scipy.sparse.csr_matrix(K), scipy.sparse.csr_matrix(M)) for (K, M) in KM])
    else:
        S = solvers.fastdiag_solver(KM)
    for nm, x in _args(rng, A.shape[0]):
        _close(A @ S.dot(x), x, 'fastdiag_solver applied to a %s' % nm, tol=1e-8)


def chk_csr(c):
    from pyiga import utils
    import scipy.sparse
    rng = np.random.RandomState(c['seed'])
    m, n = c['shape']
    A = _mat(rng, m, n) * (rng.rand(m, n) < 0.6)
    S = scipy.sparse.csr_matrix(A)
    a, b = c['bounds']
    R = utils.CSRRowSlice(S, (a, b))
    for nm, x in _args(rng, n):
        if nm == 'column':
            continue
        _close(R.dot(x), A[a:b].dot(x), 'CSRRowSlice[%d:%d] applied to a %s' % (a, b, nm))
    rows = c['rows']
    Q = utils.CSRRowSubset(S, rows)
    x = rng.randint(-3, 4, size=n).astype(float)
    _close(Q.dot(x), A[rows].dot(x) if len(rows) else np.zeros(0), 'CSRRowSubset%r' % (rows,))


CHECKS = {'modek': chk_modek, 'tprod_struct': chk_tprod_struct, 'kron': chk_kron, 'tprod': chk_tprod, 'block': chk_block, 'blockdiag': chk_blockdiag, 'simple': chk_simple, 'subspace': chk_subspace,
          'solver': chk_solver, 'kronsolver': chk_kronsolver, 'fastdiag': chk_fastdiag, 'csr': chk_csr}


def generate(tier, rng):
    quick = tier == 'quick'
    kinds = ['dense', 'sparse', 'linop']
    seed = 0
    for nf in (1, 2, 3, 4):
        for rep in range(10 if quick else 60):
            seed += 1
            square = rep % 3 == 0
            shapes = []
            for _ in range(nf):
                m = rng.randint(1, 4 if nf > 2 else 5)
                shapes.append([m, m] if square else [m, rng.randint(1, 4)])
            if rep % 5 == 1:
                ks = ['dense'] * nf
            elif rep % 5 == 2:
                ks = ['sparse'] * nf
            elif rep % 5 == 3:
                ks = ['linop'] * nf
            else:
                ks = [kinds[rng.randint(0, 2)] for _ in range(nf)]
            yield 'kron', {'seed': seed, 'shapes': shapes, 'kinds': ks}
    for j, shp in enumerate(([3], [2, 3], [2, 3, 4], [3, 3, 3], [2, 3, 2, 3], [4, 2, 3], [2, 2, 2, 2])):
        for kind in kinds:
            seed += 1
            yield 'modek', {'seed': seed, 'shape': shp, 'kind': kind, 'm': 1 + (j + len(kind)) % 4}
    for j, shp in enumerate(([3, 2], [2, 3, 4], [3, 3, 3], [2, 3, 2, 2])):
        for t, tk in enumerate(('canonical', 'tucker', 'sum', 'prod')):
            seed += 1
            yield 'tprod_struct', {'seed': seed, 'shape': shp, 'tensor': tk, 'rank': 1 + (j + t) % 3, 'rows': [1 + (j + k + t) % 4 for k in range(len(shp))],
                                   'kinds': [kinds[(j + k + t) % 3] for k in range(len(shp))], 'ident': [len(shp) - 1] if (j + t) % 3 == 0 else ([0] if (j + t) % 3 == 1 else []), 'short': bool((j + t) % 2)}
    # rectangular factors whose product is square (the dispatch must look at every factor, not at the overall shape), all kinds of factors
    for shapes in ([[2, 3], [3, 2]], [[4, 2], [1, 2]], [[2, 3], [3, 1], [2, 4]], [[3, 3], [2, 5], [5, 2]], [[1, 4], [4, 1]], [[2, 1], [1, 2], [3, 3]]):
        for ks in (['sparse'] * len(shapes), ['linop'] * len(shapes), [kinds[(k + 1) % 3] for k in range(len(shapes))], [kinds[(2 * k) % 3] for k in range(len(shapes))]):
            seed += 1
            yield 'kron', {'seed': seed, 'shapes': shapes, 'kinds': ks}
    for rep in range(30 if quick else 200):
        nf = 1 + rep % 4
        shapes, ident = [], {}
        for k in range(nf):
            if rep % 2 == 0 and k == rep % nf:
                shapes.append(None)
                ident[k] = rng.randint(1, 3)
            else:
                shapes.append([rng.randint(1, 3), rng.randint(1, 3)])
        trailing = [[], [2], [2, 3]][(rep // 2) % 3]       # independent of the placeholder pattern: None together with trailing axes occurs
        yield 'tprod', {'seed': rep, 'shapes': shapes, 'ident': {int(k): int(v) for k, v in ident.items()}, 'kinds': [['dense', 'sparse'][(rep + k) % 2] for k in range(nf)], 'trailing': trailing}
    lay = ['dense', 'sparse', 'linop', 'none', 'null']
    for rep in range(30 if quick else 200):
        M, N = 1 + rep % 3, 1 + (rep // 3) % 3
        hs = [rng.randint(1, 3) for _ in range(M)]
        ws = [rng.randint(1, 3) for _ in range(N)]
        layout = [[lay[rng.randint(0, 4)] for _ in range(N)] for _ in range(M)]
        if all(x in ('none', 'null') for r in layout for x in r):
            layout[0][0] = 'dense'
        # the shape of the block operator is read off row 0 / column 0: keep real operators there
        for i in range(M):
            if layout[i][0] in ('none',):
                layout[i][0] = 'null'
        for j in range(N):
            if layout[0][j] in ('none',):
                layout[0][j] = 'null'
        yield 'block', {'seed': rep, 'heights': hs, 'widths': ws, 'layout': layout}
        yield 'blockdiag', {'seed': rep, 'shapes': [[rng.randint(1, 3), rng.randint(1, 3)] for _ in range(1 + rep % 3)], 'kinds': [kinds[(rep + k) % 3] for k in range(1 + rep % 3)]}
    for rep in range(6 if quick else 30):
        # n >= 2: DiagonalOperator squeezes its argument and then asserts that it is a vector (a length-1 diagonal is rejected explicitly)
        yield 'simple', {'seed': rep, 'n': 2 + rep % 5, 'm': 1 + (rep * 2) % 4}
        yield 'subspace', {'seed': rep, 'n': 3 + rep % 4, 'sizes': [1 + (rep + k) % 3 for k in range(1 + rep % 3)], 'kinds': [['dense', 'sparse'][(rep + k) % 2] for k in range(1 + rep % 3)]}
        for kind in ('general', 'spd', 'symmetric', 'saddle'):
            for sp in (False, True):
                yield 'solver', {'seed': rep, 'n': 2 + rep % 5, 'kind': kind, 'sparse': sp}
                if not sp:
                    yield 'solver', {'seed': rep, 'n': 1 + rep % 5, 'kind': kind, 'sparse': False, 'order': 'F'}
        yield 'kronsolver', {'seed': rep, 'sizes': [2 + (rep + k) % 2 for k in range(1 + rep % 3)]}
        yield 'csr', {'seed': rep, 'shape': [4 + rep % 3, 3 + rep % 4], 'bounds': [[0, 4 + rep % 3], [1, 3], [2, 2], [0, 1]][rep % 4], 'rows': [[0, 2, 1], [3], [], [1, 1, 0]][rep % 4]}
    for sp in ([(2, 3)], [(1, 4), (2, 3)], [(2, 3), (3, 2)], [(1, 2), (2, 2), (1, 3)]):
        yield 'fastdiag', {'seed': len(sp), 'space': sp}
        yield 'fastdiag', {'seed': len(sp), 'space': sp, 'sparse': True}


if __name__ == '__main__':
    import sys
    common.main(sys.modules[__name__])
