"""C07 bounded tier: geometry maps evaluate consistently on every route; constructions are exact; operations do not alter their operands."""
import copy
import itertools

import numpy as np

from . import common

COVERS = ['*']
DOMAIN = {'quick': 'seeded random B-spline and NURBS functions with sdim 1-3, scalar/vector(/matrix) coefficients, mixed degrees 1-3, a repeated knot, '
                   'positive weights: single point vs tensor grid vs scattered points; Jacobians/Hessians vs exact spline derivatives and central '
                   'differences; NURBS = numerator/weight; boundary restriction for all bdspecs; composed and user functions; all constructors '
                   'and operations vs their documented formula; arcs/circles/disks/annuli on exact circles for 12 angles x 3 radii; operand '
                   'immutability of every operation',
          'thorough': 'more seeds'}
RULE = 'case = (check, seed/parameters); distinct by input'



def _ac(a, b, **kw):
    """np.allclose that does not broadcast: a result of another shape than the reference is a difference"""
    a, b = np.asarray(a), np.asarray(b)
    return a.shape == b.shape and np.allclose(a, b, **kw)

def _kvs(rng, sdim):
    from pyiga import bspline
    out = []
    for d in range(sdim):
        p = rng.randint(1, 4)
        n = rng.randint(1, 4)
        kv = bspline.make_knots(p, 0.0, 1.0, n)
        if n >= 2 and p >= 2 and rng.rand() < 0.5:
            kv = kv.refine([kv.mesh[1]])        # repeated interior knot
        out.append(kv)
    return tuple(out)


def _func(c):
    from pyiga import bspline, geometry
    rng = np.random.RandomState(c['seed'])
    kvs = _kvs(rng, c['sdim'])
    N = tuple(kv.numdofs for kv in kvs)
    tail = tuple(c['tail'])
    C = rng.randint(-3, 4, size=N + tail).astype(float)
    if c['kind'] == 'bspline':
        return bspline.BSplineFunc(kvs, C), kvs
    W = rng.uniform(0.5, 2.0, size=N)
    return geometry.NurbsFunc(kvs, C.copy(), W), kvs


def _points(kvs, rng, m=4):
    return [np.sort(np.concatenate(([kv.kv[0], kv.kv[-1]], rng.uniform(kv.kv[0], kv.kv[-1], size=m)))) for kv in kvs]


def chk_routes(c):
    f, kvs = _func(c)
    rng = np.random.RandomState(c['seed'] + 1)
    grid = _points(kvs, rng)
    sdim = len(kvs)
    V = f.grid_eval(grid)
    J = f.grid_jacobian(grid)
    shape = tuple(len(g) for g in grid)
    assert V.shape[:sdim] == shape
    # single points (xyz order = reversed knot-vector order)
    idxs = list(itertools.product(*[range(len(g)) for g in grid]))
    rng.shuffle(idxs)
    for I in idxs[:12]:
        x = tuple(grid[d][I[d]] for d in range(sdim))
        v = f(*reversed(x))
        assert _ac(v, V[I], rtol=1e-11, atol=1e-11), 'single-point evaluation differs from grid evaluation at %r' % (x,)
    # the call route with array arguments is the tensor grid over them; exactly the axes of SCALAR arguments are dropped (an array of
    # length 1 is still an array: its axis stays)
    for trial in range(4):
        kindsel = [(trial + d) % 3 for d in range(sdim)]            # 0: scalar, 1: array of length 1, 2: array of length 3
        args, axes, drop = [], [], []
        for d in range(sdim):
            g = grid[d]
            if kindsel[d] == 0:
                args.append(float(g[1])); axes.append(np.array([g[1]])); drop.append(d)
            elif kindsel[d] == 1:
                args.append(np.array([g[2]])); axes.append(np.array([g[2]]))
            else:
                args.append(np.array(g[:3])); axes.append(np.array(g[:3]))
        want = f.grid_eval(axes).squeeze(axis=tuple(drop))
        got = np.asarray(f(*reversed(args)))
        assert got.shape == want.shape, 'f(*x) with (zyx) arguments %r has shape %r, the grid over them has %r' % (
            [['scalar', 'array of length 1', 'array of length 3'][k] for k in kindsel], got.shape, want.shape)
        assert _ac(got, want, rtol=1e-11, atol=1e-11), 'f(*x) with array arguments differs from the grid evaluation'
    # scattered points (xyz order)
    P = np.array([[grid[d][I[d]] for d in range(sdim)] for I in idxs[:15]])      # rows: points, columns: knot-vector order
    pts = tuple(P[:, sdim - 1 - k] for k in range(sdim))                          # xyz order
    Vs = f.pointwise_eval(pts)
    for q, I in enumerate(idxs[:15]):
        assert _ac(Vs[q], V[I], rtol=1e-11, atol=1e-11), 'scattered evaluation differs from grid evaluation (point %r)' % (P[q],)
    if hasattr(f, 'pointwise_jacobian') and len(c['tail']) <= 1:
        Js = f.pointwise_jacobian(pts)
        for q, I in enumerate(idxs[:15]):
            assert _ac(np.squeeze(Js[q]), np.squeeze(J[I]), rtol=1e-10, atol=1e-10), 'scattered Jacobian differs from grid Jacobian'
    # the same points as multi-dimensional coordinate arrays with other memory layouts (Fortran order, transposed views): positions are kept
    m, (r_, c_) = 6, (2, 3)
    for layout in ('F', 'T'):
        if layout == 'F':
            pts2 = tuple(np.asfortranarray(P[:m, sdim - 1 - k].reshape(r_, c_)) for k in range(sdim))
        else:
            pts2 = tuple(np.ascontiguousarray(P[:m, sdim - 1 - k].reshape(r_, c_).T).T for k in range(sdim))    # C-ordered view of F-ordered memory
        V2 = f.pointwise_eval(pts2)
        assert V2.shape[:2] == (r_, c_), 'scattered evaluation of 2x3 coordinate arrays has shape %r' % (V2.shape,)
        for q in range(m):
            assert _ac(V2[q // c_, q % c_], V[idxs[q]], rtol=1e-11, atol=1e-11), \
                'scattered evaluation on %s-layout coordinate arrays returns the value of another point at position %r' % (layout, (q // c_, q % c_))
        if hasattr(f, 'pointwise_jacobian') and len(c['tail']) <= 1:
            J2 = f.pointwise_jacobian(pts2)
            for q in range(m):
                assert _ac(np.squeeze(J2[q // c_, q % c_]), np.squeeze(J[idxs[q]]), rtol=1e-10, atol=1e-10), \
                    'scattered Jacobian on %s-layout coordinate arrays is permuted' % layout
    # integer-valued coefficient arrays of an integer dtype describe the same function as their float copy, also in the derivatives
    if c['kind'] == 'bspline' and hasattr(f, 'coeffs'):
        from pyiga import bspline as _b
        Ci = np.round(3 * np.asarray(f.coeffs)).astype(int)
        fi, ff = _b.BSplineFunc(kvs, Ci), _b.BSplineFunc(kvs, Ci.astype(float))
        assert _ac(fi.grid_eval(grid), ff.grid_eval(grid), atol=1e-12), 'values with integer coefficients'
        assert _ac(fi.grid_jacobian(grid), ff.grid_jacobian(grid), atol=1e-10), 'Jacobian with integer coefficients'
        if len(c['tail']) <= 1:
            Hi, Hf = fi.grid_hessian(grid), ff.grid_hessian(grid)
            assert _ac(Hi, Hf, atol=1e-9 * max(1.0, np.max(np.abs(Hf)))), \
                'Hessian with integer coefficients differs from the Hessian of the float copy by %g (truncated to the coefficient dtype?)' % np.max(np.abs(Hi - Hf))
    # Jacobian = derivative of the evaluated map (central differences inside the domain)
    h = 1e-6
    for I in idxs[:6]:
        x = np.array([grid[d][I[d]] for d in range(sdim)])
        x = np.clip(x, [kv.kv[0] + 2 * h for kv in kvs], [kv.kv[-1] - 2 * h for kv in kvs])
        # avoid knots (derivative jumps)
        if any(np.min(np.abs(kv.mesh - x[d])) < 1e-3 for d, kv in enumerate(kvs)):
            continue
        J0 = f.grid_jacobian([np.array([x[d]]) for d in range(sdim)])[(0,) * sdim]
        for k in range(sdim):        # k-th coordinate in xyz order = knot-vector axis sdim-1-k
            e = np.zeros(sdim)
            e[sdim - 1 - k] = h
            fd = (f(*reversed(x + e)) - f(*reversed(x - e))) / (2 * h)
            assert _ac(np.asarray(J0)[..., k], fd, rtol=1e-5, atol=1e-5), 'Jacobian column %d is not the derivative along coordinate %d' % (k, k)
    if len(c['tail']) <= 1 and sdim >= 1:
        H = f.grid_hessian(grid)
        n_h = sdim * (sdim + 1) // 2
        assert H.shape[-1] == n_h
        pairs = [(i, j) for i in range(sdim) for j in range(i, sdim)]       # (xx, xy, xz, yy, ...)
        for I in idxs[:3]:
            x = np.array([grid[d][I[d]] for d in range(sdim)])
            x = np.clip(x, [kv.kv[0] + 2 * h for kv in kvs], [kv.kv[-1] - 2 * h for kv in kvs])
            if any(np.min(np.abs(kv.mesh - x[d])) < 1e-3 for d, kv in enumerate(kvs)):
                continue
            H0 = f.grid_hessian([np.array([x[d]]) for d in range(sdim)])[(0,) * sdim]
            jac = lambda y: np.asarray(f.grid_jacobian([np.array([y[d]]) for d in range(sdim)])[(0,) * sdim])
            for s_, (a, b) in enumerate(pairs):
                e = np.zeros(sdim)
                e[sdim - 1 - b] = h
                fd = (jac(x + e)[..., a] - jac(x - e)[..., a]) / (2 * h)
                assert _ac(np.asarray(H0)[..., s_], fd, rtol=2e-4, atol=2e-4), 'Hessian slot %d is not d^2/dx%d dx%d' % (s_, a, b)


def chk_nurbs(c):
    from pyiga import bspline
    f, kvs = _func(dict(c, kind='nurbs'))
    rng = np.random.RandomState(c['seed'] + 2)
    grid = _points(kvs, rng)
    num = bspline.BSplineFunc(kvs, f.coeffs[..., :-1])
    den = bspline.BSplineFunc(kvs, f.coeffs[..., -1])
    V = f.grid_eval(grid)
    Q = num.grid_eval(grid) / den.grid_eval(grid)[..., None]
    if f.is_scalar():
        Q = Q[..., 0]
    assert _ac(V, Q, rtol=1e-12, atol=1e-12), 'NURBS is not numerator / weight'
    C, W = f.coeffs_weights()
    assert _ac(C * W[..., None], f.coeffs[..., :-1]) and np.allclose(W, f.coeffs[..., -1])


def chk_boundary(c):
    from pyiga import bspline
    f, kvs = _func(c)
    sdim = len(kvs)
    rng = np.random.RandomState(c['seed'] + 3)
    names = ['left', 'right', 'bottom', 'top', 'front', 'back'][:2 * sdim]
    for spec in names + [(ax, s) for ax in range(sdim) for s in (0, 1)]:
        ax, side = bspline._parse_bdspec(spec, sdim)
        if sdim == 1:
            continue            # see check `boundary1d`
        b = f.boundary(spec)
        assert b.sdim == sdim - 1 and b.dim == f.dim
        sub = [kv for d, kv in enumerate(kvs) if d != ax]
        grid = _points(sub, rng, 2)
        full = list(grid)
        full.insert(ax, np.array([kvs[ax].kv[0] if side == 0 else kvs[ax].kv[-1]]))
        ref = np.squeeze(f.grid_eval(full), axis=ax)
        bv = b.grid_eval(grid)
        if bv.shape != ref.shape and bv.shape == ref.shape + (1,):
            bv = bv[..., 0]     # the boundary of a scalar NURBS is returned as a 1-component vector function (values agree)
        assert _ac(bv, ref, rtol=1e-12, atol=1e-12), 'boundary(%r) is not the restriction to that face' % (spec,)
        # generic boundary function (used for reduced supports)
        from pyiga.geometry import _BoundaryFunction
        g = _BoundaryFunction(f, spec)
        gv = np.asarray(g.grid_eval(grid))
        assert gv.shape == ref.shape, '_BoundaryFunction.grid_eval returns shape %r, the restriction of the parent has %r' % (gv.shape, ref.shape)
        assert _ac(gv, ref, rtol=1e-12, atol=1e-12), '_BoundaryFunction.grid_eval'
        # grids with one-point axes keep those axes (only the axis of the fixed coordinate is removed)
        for one in range(sdim - 1):
            grid1 = [np.array(gr[1:2]) if d == one else gr for d, gr in enumerate(grid)]
            full1 = list(grid1)
            full1.insert(ax, np.array([kvs[ax].kv[0] if side == 0 else kvs[ax].kv[-1]]))
            ref1 = np.squeeze(f.grid_eval(full1), axis=ax)
            gv1 = np.asarray(g.grid_eval(grid1))
            assert gv1.shape == ref1.shape, '_BoundaryFunction.grid_eval on a grid with a one-point axis returns shape %r, expected %r' % (gv1.shape, ref1.shape)
            assert _ac(gv1, ref1, rtol=1e-12, atol=1e-12), '_BoundaryFunction.grid_eval on a grid with a one-point axis'
            bv1 = np.asarray(b.grid_eval(grid1))
            assert bv1.shape == ref1.shape or bv1.shape == ref1.shape + (1,), 'boundary(%r).grid_eval on a grid with a one-point axis returns shape %r, expected %r' % (spec, bv1.shape, ref1.shape)
        x = [gr[1] for gr in grid]
        assert _ac(g(*reversed(x)), ref[(1,) * (sdim - 1)], rtol=1e-12, atol=1e-12), '_BoundaryFunction.eval axis order'
        if len(c['tail']) <= 1:
            Jf = np.squeeze(f.grid_jacobian(full), axis=ax)
            keep = [k for k in range(sdim) if k != sdim - 1 - ax]
            assert _ac(g.grid_jacobian(grid), Jf[..., keep], rtol=1e-11, atol=1e-11), '_BoundaryFunction.grid_jacobian drops the wrong column'
    # boundary of a function whose support is restricted in SOME directions only: the face inherits the (restricted) support of the remaining
    # directions, and is the restriction of the function to that face of its (restricted) domain
    if sdim >= 2 and hasattr(f, 'copy'):
        for keep_full in range(sdim):
            fr = f.copy()
            supp = tuple((lo, hi) if d == keep_full else (lo + 0.25 * (hi - lo), hi - 0.125 * (hi - lo)) for d, (lo, hi) in enumerate(f.support))
            fr.support = supp
            for ax in range(sdim):
                for side in (0, 1):
                    b = fr.boundary((ax, side))
                    want = tuple(s_ for d, s_ in enumerate(supp) if d != ax)
                    assert _ac(np.asarray(b.support, dtype=float), np.asarray(want, dtype=float)), \
                        'boundary(%r) of a function with support %r has support %r, expected %r' % ((ax, side), supp, tuple(map(tuple, b.support)), want)
                    grid = [np.linspace(lo, hi, 3) for (lo, hi) in want]
                    full = list(grid)
                    full.insert(ax, np.array([supp[ax][side]]))
                    ref = np.squeeze(f.grid_eval(full), axis=ax)
                    bv = np.asarray(b.grid_eval(grid))
                    if bv.shape != ref.shape and bv.shape == ref.shape + (1,):
                        bv = bv[..., 0]
                    assert _ac(bv, ref, rtol=1e-12, atol=1e-12), 'boundary(%r) with partially restricted support is not the restriction to that face' % ((ax, side),)
    for bad in ('middle', (sdim, 0), (0, 2), (-1, 0)):
        try:
            bspline._parse_bdspec(bad, sdim)
        except ValueError:
            pass
        else:
            raise AssertionError('_parse_bdspec accepted %r for dim %d' % (bad, sdim))
    if sdim < 3:
        try:
            bspline._parse_bdspec('front', sdim)
        except ValueError:
            pass
        else:
            raise AssertionError("'front' accepted for dim %d" % sdim)


def _snapshot(g):
    return copy.deepcopy({k: v for k, v in g.__dict__.items()})


def _same(a, b):
    if isinstance(a, np.ndarray) or isinstance(b, np.ndarray):
        return isinstance(a, np.ndarray) and isinstance(b, np.ndarray) and a.shape == b.shape and np.array_equal(a, b)
    if isinstance(a, dict):
        return isinstance(b, dict) and set(a) == set(b) and all(_same(v, b[k]) for k, v in a.items())
    if isinstance(a, (tuple, list)):
        return len(a) == len(b) and all(_same(x, y) for x, y in zip(a, b))
    if hasattr(a, '__dict__') and not callable(a):
        return all(_same(v, b.__dict__.get(k)) for k, v in a.__dict__.items())
    return a == b or (a is None and b is None)


def chk_scalar_nurbs(c):
    """a scalar-valued NURBS function (output shape ()) stays scalar-valued under copy / translate / scale / boundary: same values, same shapes"""
    from pyiga import bspline, geometry
    rng = np.random.RandomState(c['seed'])
    kvs = tuple(bspline.make_knots(2, 0.0, 1.0, 2 + d) for d in range(c['sdim']))
    N = tuple(kv.numdofs for kv in kvs)
    f = geometry.NurbsFunc(kvs, rng.randint(-3, 4, size=N).astype(float), rng.uniform(0.5, 2.0, size=N))
    assert f.output_shape() == ()
    grid = [np.linspace(0.0, 1.0, 3 + d) for d in range(c['sdim'])]
    V = f.grid_eval(grid)
    assert V.shape == tuple(len(g) for g in grid)
    for name, g, want in (('copy', f.copy(), V), ('translate', f.translate(1.5), V + 1.5), ('scale', f.scale(-2.0), -2.0 * V)):
        assert g.output_shape() == (), '%s() of a scalar NURBS function has output shape %r' % (name, g.output_shape())
        W = g.grid_eval(grid)
        assert W.shape == V.shape and np.allclose(W, want, atol=1e-12), '%s() of a scalar NURBS function: shape %r, expected %r' % (name, W.shape, V.shape)
    if c['sdim'] >= 2:
        b = f.boundary((0, 0))
        assert b.output_shape() == () and np.allclose(b.grid_eval(grid[1:]), V[0], atol=1e-12), 'boundary() of a scalar NURBS function has output shape %r' % (b.output_shape(),)


def chk_ops(c):
    from pyiga import bspline, geometry
    f, kvs = _func(dict(c, tail=[2]))
    sdim = len(kvs)
    rng = np.random.RandomState(c['seed'] + 4)
    grid = _points(kvs, rng, 2)
    V = f.grid_eval(grid)
    snap = _snapshot(f)

    def unchanged(what):
        assert _same(snap, f.__dict__), 'operation %s altered its operand' % what
    off = np.array([1.5, -2.0])
    assert _ac(f.translate(off).grid_eval(grid), V + off, atol=1e-12), 'translate'
    unchanged('translate')
    assert _ac(f.scale(2.5).grid_eval(grid), 2.5 * V, atol=1e-12), 'scale (scalar)'
    assert _ac(f.scale((2.0, -1.0)).grid_eval(grid), V * np.array([2.0, -1.0]), atol=1e-12), 'scale (per component)'
    unchanged('scale')
    A = np.array([[1.0, 2.0], [0.0, -1.0]])
    assert _ac(f.apply_matrix(A).grid_eval(grid), V @ A.T, atol=1e-11), 'apply_matrix'
    unchanged('apply_matrix')
    th = 0.7
    R = np.array([[np.cos(th), -np.sin(th)], [np.sin(th), np.cos(th)]])
    assert _ac(f.rotate_2d(th).grid_eval(grid), V @ R.T, atol=1e-11), 'rotate_2d'
    unchanged('rotate_2d')
    assert _ac(f[0].grid_eval(grid), V[..., 0], atol=1e-12) and np.allclose(f[1].grid_eval(grid), V[..., 1], atol=1e-12), 'component selection'
    unchanged('__getitem__')
    # component selection with every index kind numpy accepts on the last axis: f[I] evaluates to f(...)[..., I], for both kinds of function
    # (for NURBS the weight column is not a component), Jacobians follow, out-of-range indices raise
    f3, _ = _func(dict(c, tail=[3]))
    V3 = f3.grid_eval(grid)
    J3 = f3.grid_jacobian(grid)
    for I in (0, 2, -1, -2, slice(None), slice(1, None), slice(None, None, -1), slice(0, 2), [0, 2], [-1, 0], [2, 2, 1]):
        sel = f3[I]
        want = V3[..., I]
        got = sel.grid_eval(grid)
        assert got.shape == want.shape, 'component selection %r: result has shape %r, expected %r' % (I, got.shape, want.shape)
        assert _ac(got, want, atol=1e-12), 'component selection %r returns other components (max deviation %g)' % (I, np.max(np.abs(got - want)))
        assert _ac(np.squeeze(sel.grid_jacobian(grid)), np.squeeze(J3[..., I, :]), atol=1e-10), 'Jacobian of component selection %r' % (I,)
    for I in (3, -4):
        try:
            f3[I]
        except IndexError:
            pass
        else:
            raise AssertionError('component selection with the out-of-range index %r does not raise' % (I,))
    n = f.as_nurbs()
    assert _ac(n.grid_eval(grid), V, atol=1e-12), 'as_nurbs'
    unchanged('as_nurbs')
    cp = f.copy()
    assert _ac(cp.grid_eval(grid), V, atol=1e-13) and cp.coeffs is not f.coeffs
    # support restriction followed by copy: the copy is the same map on the same (restricted) domain
    fr_ = f.copy()
    supp = tuple((lo + 0.25 * (hi - lo), hi - 0.125 * (hi - lo)) for (lo, hi) in f.support)
    fr_.support = supp
    assert tuple(map(tuple, fr_.support)) == supp, 'support restriction not reported'
    unchanged('support restriction of a copy')
    cp2 = fr_.copy()
    assert _ac(np.asarray(cp2.support, dtype=float), np.asarray(supp, dtype=float)), \
        'copy() of a function with restricted support %r has support %r' % (supp, cp2.support)
    cp.coeffs[...] = 0
    unchanged('copy (and mutating the copy)')
    if sdim >= 2:
        f.boundary((0, 0))
        unchanged('boundary')
    # outer sum / product / tensor product with a curve
    g = geometry.line_segment([1.0, 2.0], [3.0, -1.0]) if c['seed'] % 2 else geometry.circular_arc(1.0)
    gsnap = _snapshot(g)
    ggrid = [np.array([0.0, 0.3, 1.0])]
    Vg = g.grid_eval(ggrid)
    S = geometry.outer_sum(f, g)
    P = geometry.outer_product(f, g)
    assert S.sdim == sdim + 1 and np.allclose(S.grid_eval(grid + ggrid), V[..., None, :] + Vg.reshape((1,) * sdim + Vg.shape), atol=1e-11), 'outer_sum'
    assert _ac(P.grid_eval(grid + ggrid), V[..., None, :] * Vg.reshape((1,) * sdim + Vg.shape), atol=1e-11), 'outer_product'
    T = geometry.tensor_product(f, g)
    Tv = T.grid_eval(grid + ggrid)
    assert Tv.shape[-1] == 4 and np.allclose(Tv[..., :2], np.broadcast_to(Vg.reshape((1,) * sdim + Vg.shape), Tv[..., :2].shape), atol=1e-11) \
        and np.allclose(Tv[..., 2:], np.broadcast_to(V[..., None, :], Tv[..., 2:].shape), atol=1e-11), 'tensor_product joins (G2, G1)'
    unchanged('outer_sum/outer_product/tensor_product')
    assert _same(gsnap, g.__dict__), 'second operand altered'
    if sdim == 1:
        E = f.cylinderize(0.5, 2.0) if hasattr(f, 'cylinderize') else None
        if E is not None:
            Ev = E.grid_eval([np.array([0.0, 1.0])] + grid)
            assert _ac(Ev[0, ..., :2], V, atol=1e-12) and np.allclose(Ev[0, ..., 2], 0.5) and np.allclose(Ev[1, ..., 2], 2.0), 'cylinderize'
            unchanged('cylinderize')
    # support restriction goes through the documented setter only
    f2 = f.copy()
    f2.support = tuple((0.25, 0.75) for _ in range(sdim))
    assert f2.support == tuple((0.25, 0.75) for _ in range(sdim))
    unchanged('support restriction of a copy')


def chk_arcs(c):
    from pyiga import geometry
    r, alpha = c['r'], c['alpha']
    t = [np.linspace(0.0, 1.0, 17)]
    arcs = []
    if 0 < alpha < np.pi:
        arcs.append(('3pt', geometry.circular_arc_3pt(alpha, r)))
    if 0 < alpha <= np.pi * 1.2:
        arcs.append(('5pt', geometry.circular_arc_5pt(alpha, r)))
    arcs.append(('7pt', geometry.circular_arc_7pt(alpha, r)))
    arcs.append(('auto', geometry.circular_arc(alpha, r)))
    for nm, g in arcs:
        X = g.grid_eval(t)
        assert np.max(np.abs(np.hypot(X[:, 0], X[:, 1]) - r)) <= 1e-13 * max(1.0, r), '%s arc leaves the circle of radius %r' % (nm, r)
        assert _ac(X[0], [r, 0.0], atol=1e-13 * max(1, r)) and np.allclose(X[-1], [r * np.cos(alpha), r * np.sin(alpha)], atol=1e-12 * max(1, r)), \
            '%s arc does not span the angle %r' % (nm, alpha)
        ang = np.unwrap(np.arctan2(X[:, 1], X[:, 0]))
        assert np.all(np.diff(ang) > 0) and abs(ang[-1] - ang[0] - alpha) <= 1e-12, '%s arc is not traversed counterclockwise once' % nm
    if c.get('shapes'):
        Q = geometry.quarter_annulus(r, 2 * r)
        G = [np.linspace(0, 1, 5), np.linspace(0, 1, 5)]
        X = Q.grid_eval(G)
        rad = np.hypot(X[..., 0], X[..., 1])
        assert np.allclose(rad[:, 0], r, atol=1e-13 * r) and np.allclose(rad[:, -1], 2 * r, atol=1e-13 * r), 'quarter annulus radii'
        assert np.all(X >= -1e-14)
        D = geometry.disk(r)
        X = D.grid_eval(G)
        assert np.max(np.hypot(X[..., 0], X[..., 1])) <= r * (1 + 1e-13)
        for edge in (X[0, :], X[-1, :], X[:, 0], X[:, -1]):
            assert np.allclose(np.hypot(edge[:, 0], edge[:, 1]), r, atol=1e-13 * r), 'disk boundary is not the circle'
        C = geometry.circle(r).grid_eval(t)
        assert np.allclose(np.hypot(C[:, 0], C[:, 1]), r, atol=1e-13 * r) and np.allclose(C[0], C[-1], atol=1e-12 * r)
        S = geometry.semicircle(r).grid_eval(t)
        assert _ac(S[-1], [-r, 0.0], atol=1e-12 * r)


def chk_ctors(c):
    from pyiga import geometry, bspline
    for dim in (1, 2, 3):
        U = geometry.unit_cube(dim=dim, num_intervals=c['n'])
        grid = [np.linspace(0, 1, 3 + d) for d in range(dim)]
        X = U.grid_eval(grid)
        M = np.meshgrid(*grid, indexing='ij')
        for k in range(dim):        # component k (xyz) = parameter along knot-vector axis dim-1-k
            assert _ac(X[..., k], M[dim - 1 - k], atol=1e-14), 'unit_cube component order'
        J = U.grid_jacobian(grid)
        assert _ac(J, np.broadcast_to(np.eye(dim), J.shape), atol=1e-13)
    kvs = (bspline.make_knots(2, 0.5, 2.0, 3), bspline.make_knots(1, -1.0, 1.0, 2))
    I = geometry.identity(kvs)
    grid = [np.linspace(0.5, 2.0, 4), np.linspace(-1.0, 1.0, 3)]
    X = I.grid_eval(grid)
    assert np.allclose(X[..., 0], np.broadcast_to(grid[1][None, :], X.shape[:2])) and np.allclose(X[..., 1], grid[0][:, None]), 'identity map'
    L = geometry.line_segment([1.0, 2.0], [3.0, 6.0], support=(2.0, 4.0), intervals=c['n'])
    assert _ac(L.grid_eval([np.array([2.0, 3.0, 4.0])]), [[1, 2], [2, 4], [3, 6]], atol=1e-13)
    f = geometry.UserFunction(lambda x, y: np.stack((x + y, x * y), axis=-1), [(0.0, 1.0), (0.0, 2.0)])
    assert f.sdim == 2 and f.dim == 2
    g = [np.array([0.0, 0.5]), np.array([0.25, 1.0])]
    V = f.grid_eval(g)
    assert _ac(V[1, 0], [0.25 + 0.5, 0.25 * 0.5]), 'UserFunction grid_eval axis order (x is the last axis)'
    b = f.boundary('left')
    assert _ac(b(0.7), f(0.0, 0.7))
    # the quadratic B-spline quarter annulus: straight radial edges from r1 to r2 on the two axes, mid-arc control polygon value
    for (r1, r2) in ((1.0, 2.0), (0.5, 3.0)):
        Q = geometry.bspline_quarter_annulus(r1, r2)
        for xi in (0.0, 0.3, 1.0):
            r = r1 + xi * (r2 - r1)
            assert _ac(Q(xi, 0.0), [r, 0.0], atol=1e-14) and np.allclose(Q(xi, 1.0), [0.0, r], atol=1e-14), 'bspline_quarter_annulus: radial edges'
            assert _ac(Q(xi, 0.5), [0.75 * r, 0.75 * r], atol=1e-14), 'bspline_quarter_annulus: mid-arc point of the quadratic Bezier arc'
    P0 = geometry.perturbed_square(num_intervals=3, noise=0.0)
    gp = [np.linspace(0, 1, 4), np.linspace(0, 1, 5)]
    assert _ac(P0.grid_eval(gp), geometry.unit_square().grid_eval(gp), atol=1e-14), 'perturbed_square(noise=0) is the unit square'
    # composition
    inner = geometry.unit_square().scale((0.5, 0.5))
    outer = bspline.BSplineFunc(geometry.unit_square().kvs, np.arange(8.0).reshape(2, 2, 2))
    comp = geometry.ComposedFunction(outer, inner)
    g2 = [np.array([0.0, 0.4, 1.0]), np.array([0.2, 0.9])]
    XY = inner.grid_eval(g2)
    ref = np.array([[outer(XY[i, j, 0], XY[i, j, 1]) for j in range(2)] for i in range(3)])
    assert _ac(comp.grid_eval(g2), ref, atol=1e-13), 'ComposedFunction.grid_eval'
    Jc = comp.grid_jacobian(g2)
    Jo = np.array([[outer.grid_jacobian([np.array([XY[i, j, 1]]), np.array([XY[i, j, 0]])])[0, 0] for j in range(2)] for i in range(3)])
    assert _ac(Jc, Jo * 0.5, atol=1e-12), 'ComposedFunction.grid_jacobian (chain rule)'


def chk_boundary1d(c):
    from pyiga import bspline
    kv = bspline.make_knots(2, 0.0, 1.0, 3)
    f = bspline.BSplineFunc(kv, np.arange(5.0))
    for spec, val in (('left', 0.0), ('right', 4.0)):
        b = f.boundary(spec)
        assert b.sdim == 0 and np.allclose(b.grid_eval([]), val)


CHECKS = {'scalar_nurbs': chk_scalar_nurbs, 'boundary1d': chk_boundary1d, 'routes': chk_routes, 'nurbs': chk_nurbs, 'boundary': chk_boundary, 'ops': chk_ops, 'arcs': chk_arcs, 'ctors': chk_ctors}


def generate(tier, rng):
    quick = tier == 'quick'
    seed = 0
    for rep in range(2 if quick else 8):
        for sdim in (1, 2, 3):
            for kind in ('bspline', 'nurbs'):
                for tail in ([], [2], [3]) + (([2, 2],) if kind == 'bspline' and sdim <= 2 else ()):
                    seed += 1
                    c = {'seed': seed, 'sdim': sdim, 'kind': kind, 'tail': list(tail)}
                    yield 'routes', c
                    if len(tail) <= 1:
                        yield 'boundary', c
                    if kind == 'nurbs' and len(tail) <= 1:
                        yield 'nurbs', c
            for kind in ('bspline', 'nurbs'):
                seed += 1
                if sdim <= 2:
                    yield 'ops', {'seed': seed, 'sdim': sdim, 'kind': kind, 'tail': [2]}
                    if kind == 'nurbs':
                        yield 'scalar_nurbs', {'seed': seed, 'sdim': sdim}
    for k, alpha in enumerate([0.1, 0.5, 1.0, np.pi / 2, 2.0, 3.0, np.pi, 3.5, 4.0, 5.0, 6.0, 2 * np.pi]):
        for r in (1.0, 0.25, 7.5):
            yield 'arcs', {'alpha': float(alpha), 'r': r, 'shapes': k == 0}
    for n in (1, 2, 3):
        yield 'ctors', {'n': n}
    yield 'boundary1d', {}


if __name__ == '__main__':
    import sys
    common.main(sys.modules[__name__])
