"""C02 bounded tier: every evaluation route of the real code against the exact rational Cox-de Boor oracle."""
import numpy as np

from . import common, kvgen, oracle

COVERS = ['*']
DOMAIN = {'quick': 'all knot vectors with p<=4 over 8 break sets (spans differing by up to 12 orders of magnitude) and all interior multiplicity '
                   'vectors 1..p; evaluation points: every knot, both ends, adjacent doubles of knots, span midpoints and near-knot points; '
                   'derivative orders 0..p+2; scalar and array arguments',
          'thorough': 'as quick with p<=6, plus degree 8 and 12 on two break sets'}
RULE = 'case = (check, knot vector); each case evaluates all points x all derivative orders; distinct by knot vector'


def _kv(c):
    from pyiga import bspline
    return bspline.KnotVector(np.array(c['kv'], dtype=float), c['p'])


def _tol(exact_row, k):
    s = max([1.0] + [abs(float(v)) for v in exact_row])
    return 5e-10 * s * (4 ** k)


def chk_active(c):
    from pyiga import bspline
    K = _kv(c)
    p = K.p
    pts = kvgen.eval_points(c['kv'])
    nd = p + 2
    arr = np.asarray(bspline.active_deriv(K, np.array(pts), nd))          # (nd+1, p+1, n)
    assert arr.shape == (nd + 1, p + 1, len(pts))
    ev = np.asarray(bspline.active_ev(K, np.array(pts)))                 # (p+1, n)
    for q, u in enumerate(pts):
        first, rows = oracle.active_derivs(c['kv'], p, u, nd)
        assert K.first_active_at(u) == first, 'first active index at u=%r' % u
        single = np.asarray(bspline.active_deriv(K, float(u), nd))
        assert single.shape == (nd + 1, p + 1)
        for k in range(nd + 1):
            ex = np.array([float(v) for v in rows[k]])
            tol = _tol(rows[k], k)
            assert np.max(np.abs(arr[k, :, q] - ex)) <= tol, 'active_deriv order %d at u=%r: %r vs exact %r' % (k, u, arr[k, :, q].tolist(), ex.tolist())
            assert np.max(np.abs(single[k] - ex)) <= tol, 'scalar active_deriv order %d at u=%r' % (k, u)
            if k == 0:
                assert np.all(arr[0, :, q] >= 0), 'negative value at u=%r' % u
                assert abs(arr[0, :, q].sum() - 1) <= 1e-12, 'values do not sum to one at u=%r' % u
                assert np.max(np.abs(ev[:, q] - ex)) <= tol, 'active_ev at u=%r' % u
                sc = np.asarray(bspline.active_ev(K, float(u)))
                assert sc.shape == (p + 1,) and np.max(np.abs(sc - ex)) <= tol
            else:
                assert abs(arr[k, :, q].sum()) <= tol * (p + 1), 'derivatives of order %d do not sum to zero at u=%r' % (k, u)
            if k > p:
                assert np.all(arr[k, :, q] == 0), 'derivative of order %d > p is not zero' % k


def chk_routes(c):
    from pyiga import bspline, assemble_tools
    K = _kv(c)
    p, n = K.p, K.numdofs
    pts = np.array(kvgen.eval_points(c['kv']))
    nd = min(p + 2, 4)
    exact = [oracle.all_derivs(c['kv'], p, u, nd) for u in pts]          # [point][order][function]
    E = np.array([[[float(v) for v in row] for row in ex] for ex in exact])   # (npts, nd+1, n)
    tol = lambda k: 5e-10 * max(1.0, np.max(np.abs(E[:, k, :]))) * 4 ** k
    C = bspline.collocation(K, pts).toarray()
    assert C.shape == (len(pts), n) and np.max(np.abs(C - E[:, 0, :])) <= tol(0), 'collocation matrix'
    Cs = bspline.collocation_derivs(K, pts, derivs=nd)
    assert len(Cs) == nd + 1
    for k in range(nd + 1):
        assert np.max(np.abs(Cs[k].toarray() - E[:, k, :])) <= tol(k), 'collocation_derivs order %d' % k
    idx, vals = bspline.collocation_info(K, pts)
    idx2, vals2 = bspline.collocation_derivs_info(K, pts, nd)
    assert np.array_equal(idx, idx2) and vals.shape == (len(pts), p + 1) and vals2.shape == (nd + 1, len(pts), p + 1)
    for q in range(len(pts)):
        assert np.max(np.abs(vals[q] - E[q, 0, idx[q]:idx[q] + p + 1])) <= tol(0)
    # single function route (values only)
    for i in range(n):
        sv = bspline.single_ev(K, i, pts)
        assert np.max(np.abs(sv - E[:, 0, i])) <= tol(0), 'single_ev function %d: %r vs %r' % (i, sv.tolist(), E[:, 0, i].tolist())
        assert bspline.single_ev(K, i, float(pts[0])) == sv[0]
    # spline evaluation routes
    rng = np.random.RandomState(len(c['kv']))
    coeffs = rng.randint(-3, 4, size=n).astype(float)
    assert np.max(np.abs(bspline.ev(K, coeffs, pts) - E[:, 0, :].dot(coeffs))) <= tol(0) * 3 * n, 'ev (splev)'
    # splev's derivative is right-continuous except at the right end as well
    for k in range(1, min(p, 2) + 1):
        d = bspline.deriv(K, coeffs, k, pts)
        assert np.max(np.abs(d - E[:, k, :].dot(coeffs))) <= tol(k) * 3 * n, 'deriv order %d (splev)' % k
    # derivatives beyond the degree vanish on the spline-evaluation route as well
    for k in (p + 1, p + 2):
        d = np.asarray(bspline.deriv(K, coeffs, k, pts))
        assert d.shape == pts.shape and np.all(d == 0), 'deriv of order %d > p = %d does not vanish' % (k, p)
    # argument forms: python ints (integer-valued knots such as the end points) are scalars like floats
    for u in sorted(set(float(x) for x in c['kv'] if float(x).is_integer())):
        ui = int(u)
        assert np.array_equal(np.asarray(bspline.active_ev(K, ui)), np.asarray(bspline.active_ev(K, u))), 'active_ev with the python int %d' % ui
        assert np.array_equal(np.asarray(bspline.active_deriv(K, ui, 1)), np.asarray(bspline.active_deriv(K, u, 1))), 'active_deriv with the python int %d' % ui
        assert bspline.single_ev(K, 0, ui) == bspline.single_ev(K, 0, u), 'single_ev with the python int %d' % ui
        assert K.findspan(ui) == K.findspan(u)
    # point ARRAYS of other real dtypes on the routes that accept them (single-function route, spline evaluation): same values as for the
    # float64 copy of the points, in floating point (an integer point array must not make the result an integer array)
    lo_i, hi_i = int(np.ceil(c['kv'][0])), int(np.floor(c['kv'][-1]))
    ints = np.array(sorted(set(range(lo_i, min(hi_i, lo_i + 3) + 1)) | set(range(max(lo_i, hi_i - 2), hi_i + 1))), dtype=int) if hi_i >= lo_i else np.array([], dtype=int)
    variants = [('float32', pts.astype(np.float32))] + ([('integer', ints)] if len(ints) else [])
    for nm, q in variants:
        qf = np.asarray(q, dtype=float)
        for i in range(n):
            a, b_ = np.asarray(bspline.single_ev(K, i, q)), np.asarray(bspline.single_ev(K, i, qf))
            assert a.shape == b_.shape and np.max(np.abs(a - b_)) <= 1e-12, 'single_ev of function %d at %s points %r: %r, at the same float64 points: %r' % (
                i, nm, q.tolist(), a.tolist(), b_.tolist())
        a, b_ = np.asarray(bspline.ev(K, coeffs, q)), np.asarray(bspline.ev(K, coeffs, qf))
        assert a.shape == b_.shape and np.max(np.abs(a - b_)) <= 1e-12 * max(1.0, np.max(np.abs(b_))), 'ev at %s points differs from ev at the same float64 points' % nm
        if p >= 1:
            a, b_ = np.asarray(bspline.deriv(K, coeffs, 1, q)), np.asarray(bspline.deriv(K, coeffs, 1, qf))
            assert a.shape == b_.shape and np.max(np.abs(a - b_)) <= 1e-10 * max(1.0, np.max(np.abs(b_))), 'deriv at %s points differs from deriv at the same float64 points' % nm
    # a strided (non-contiguous) view of the points gives the same values, point by point, on every array route
    wide = np.empty((len(pts), 3))
    wide[:, 0], wide[:, 1], wide[:, 2] = pts[::-1], pts, -7.0
    sv_ = wide[:, 1]                                   # column of a 2D array: stride 3
    assert not sv_.flags['C_CONTIGUOUS'] or len(pts) <= 1
    for nm, fn in (('active_ev', lambda q: bspline.active_ev(K, q)), ('active_deriv', lambda q: bspline.active_deriv(K, q, min(p, 2))),
                   ('single_ev', lambda q: bspline.single_ev(K, n - 1, q)), ('ev', lambda q: bspline.ev(K, coeffs, q)),
                   ('collocation', lambda q: bspline.collocation(K, q).toarray()), ('collocation_derivs', lambda q: bspline.collocation_derivs(K, q, derivs=min(p, 1))[-1].toarray())):
        a, b_ = np.asarray(fn(sv_)), np.asarray(fn(pts.copy()))
        assert a.shape == b_.shape and np.array_equal(a, b_), '%s on a strided view of the points differs from the contiguous copy (max %g)' % (
            nm, np.max(np.abs(a - b_)) if a.shape == b_.shape else -1)
    # assembler jets
    nj = min(p, 2)
    V = np.asarray(assemble_tools.compute_values_derivs(K, pts, nj))
    assert V.shape == (n, len(pts), nj + 1), 'compute_values_derivs has shape %r' % (V.shape,)
    for k in range(nj + 1):
        assert np.max(np.abs(V[:, :, k] - E[:, k, :].T)) <= tol(k), 'compute_values_derivs order %d differs from the Cox-de Boor values' % k


def chk_jets_sequence(c):
    """the tables the assemblers are built from, requested one knot vector after the other IN ONE PROCESS for knot vectors that share degree,
    dimension and evaluation grid (same break points, interior multiplicities distributed differently): each answer is that of its own knot vector"""
    from pyiga import bspline, assemble_tools
    p = c['p']
    pts = np.array(kvgen.eval_points(c['kvs'][0]))
    order = list(range(len(c['kvs']))) + list(range(len(c['kvs'])))[::-1]
    nj = min(p, 2)
    for j in order:
        kv = c['kvs'][j]
        K = bspline.KnotVector(np.array(kv, dtype=float), p)
        V = np.asarray(assemble_tools.compute_values_derivs(K, pts, nj))
        for k in range(nj + 1):
            Ek = np.array([[float(v) for v in oracle.all_derivs(kv, p, u, nj)[k]] for u in pts])      # (npts, n)
            t = 5e-10 * max(1.0, np.max(np.abs(Ek))) * 4 ** k
            assert V.shape == (K.numdofs, len(pts), nj + 1) and np.max(np.abs(V[:, :, k] - Ek.T)) <= t, \
                'compute_values_derivs for knot vector %d of the sequence (order %d) is not the table of that knot vector (max deviation %g)' % (
                    j, k, np.max(np.abs(V[:, :, k] - Ek.T)))


def chk_tensor(c):
    from pyiga import bspline
    K1 = _kv(c)
    K2 = bspline.KnotVector(np.array(c['kv2'], dtype=float), c['p2'])
    rng = np.random.RandomState(7)
    coeffs = rng.randint(-3, 4, size=(K1.numdofs, K2.numdofs)).astype(float)
    f = bspline.BSplineFunc((K1, K2), coeffs)
    g1, g2 = np.array(kvgen.eval_points(c['kv'])[::2]), np.array(kvgen.eval_points(c['kv2'])[::2])
    V = f.grid_eval((g1, g2))
    E1 = np.array([[float(v) for v in oracle.all_derivs(c['kv'], K1.p, u, 0)[0]] for u in g1])
    E2 = np.array([[float(v) for v in oracle.all_derivs(c['kv2'], K2.p, u, 0)[0]] for u in g2])
    ref = E1.dot(coeffs).dot(E2.T)
    assert np.max(np.abs(V - ref)) <= 1e-9 * max(1.0, np.max(np.abs(ref))), 'tensor-product grid_eval'


CHECKS = {'active': chk_active, 'routes': chk_routes, 'tensor': chk_tensor, 'jets_sequence': chk_jets_sequence}


def generate(tier, rng):
    quick = tier == 'quick'
    kvs = list(kvgen.knotvec_arrays(pmax=4 if quick else 6))
    for p, kv in kvs:
        c = {'p': p, 'kv': kv}
        yield 'active', c
        if not quick or (len(kv) + p) % 2 == 0:
            yield 'routes', c
    if not quick:
        for p in (8, 12):
            for br in ([0.0, 0.5, 1.0], [0.0, 0.125, 1.0, 3.0]):
                kv = [br[0]] * (p + 1) + [b for b in br[1:-1] for _ in range(1 + (p // 3))] + [br[-1]] * (p + 1)
                yield 'active', {'p': p, 'kv': kv}
    # families with equal degree, length and break points (the interior multiplicities sit at different break points)
    fam = {}
    for p, kv in kvs:
        if p >= 2:
            fam.setdefault((p, len(kv), tuple(sorted(set(kv)))), []).append(kv)
    fams = [(k, v) for k, v in sorted(fam.items()) if len(v) >= 2]
    for (p, _, _), members in fams[:(25 if quick else 200)]:
        yield 'jets_sequence', {'p': p, 'kvs': members[:4]}
    small = [x for x in kvs if x[0] in (1, 2, 3) and len(x[1]) <= 9]
    for k in range(12 if quick else 60):
        a, b = rng.choice(small), rng.choice(small)
        yield 'tensor', {'p': a[0], 'kv': a[1], 'p2': b[0], 'kv2': b[1]}


if __name__ == '__main__':
    import sys
    common.main(sys.modules[__name__])
