"""C09 bounded tier: tensor-product fast paths and closed-form Galerkin identities on the real code."""
import itertools

import numpy as np

from . import common, kvgen, oracle

COVERS = ['*']
DOMAIN = {'quick': '1D: all knot vectors p<=3 over 6 break sets with all interior multiplicities x derivative orders (du,dv)<=min(p,2) against exact '
                   'rational integrals; pairs of different degrees on a common mesh; polynomial weights; 2D/3D: Kronecker path vs generic path '
                   '(identity geometry) on mixed-degree non-uniform spaces, sums = measure, K 1 = 0, SPD; load vectors/integrals of polynomial '
                   'data incl. affine, rotated, NURBS and orientation-reversing (det J < 0) geometries: load vector with f=1 = row sums of the mass matrix, sums = area, exact integrals on mapped rectangles; fast low-rank assembler on one smooth geometry; det/inverse kernels vs numpy',
          'thorough': 'as quick with p<=5 and more spaces'}
RULE = 'case = (check, spaces); distinct by input'


def _kv(p, kv):
    from pyiga import bspline
    return bspline.KnotVector(np.array(kv, dtype=float), p)


def _close(A, E, what):
    E = np.array([[float(v) for v in row] for row in E])
    scale = max(1.0, np.max(np.abs(E)))
    assert A.shape == E.shape, '%s: shape %r vs %r' % (what, A.shape, E.shape)
    assert np.max(np.abs(A - E)) <= 1e-9 * scale, '%s: max deviation %g from the exact integrals' % (what, np.max(np.abs(A - E)))


def chk_1d(c):
    from pyiga import assemble
    K = _kv(c['p'], c['kv'])
    p = c['p']
    for du in range(0, min(p, 2) + 1):
        for dv in range(0, min(p, 2) + 1):
            A = assemble.bsp_mixed_deriv_biform_1d(K, du, dv).toarray()
            E = oracle.biform_1d(c['kv'], p, c['kv'], p, du, dv)
            _close(A, E, 'bsp_mixed_deriv_biform_1d(du=%d,dv=%d)' % (du, dv))
    M = assemble.bsp_mass_1d(K).toarray()
    assert np.allclose(M, M.T, atol=1e-14) and abs(M.sum() - (c['kv'][-1] - c['kv'][0])) <= 1e-12 * max(1.0, abs(c['kv'][-1] - c['kv'][0]))
    assert np.min(np.linalg.eigvalsh((M + M.T) / 2)) > 0, 'mass matrix not positive definite'
    if p >= 1:
        S = assemble.bsp_stiffness_1d(K).toarray()
        assert np.allclose(S, S.T, atol=1e-9 * max(1, np.max(np.abs(S))))
        assert np.max(np.abs(S.dot(np.ones(S.shape[0])))) <= 1e-9 * max(1.0, np.max(np.abs(S))), 'constants not in the kernel of the stiffness matrix'
        ev = np.linalg.eigvalsh((S + S.T) / 2)
        assert ev[0] >= -1e-9 * max(1.0, ev[-1]) and (len(ev) < 2 or ev[1] > 1e-9 * ev[-1]), 'stiffness kernel is not exactly the constants'
    # polynomial weight
    w = [1, 2, -1]
    Mw = assemble.bsp_mass_1d(K, weightfunc=lambda x: 1 + 2 * x - x * x).toarray() if p >= 1 else None
    if Mw is not None:
        # default quadrature is exact only up to degree 2p: weight of degree 2 needs one more node -> compare with nqp = p+2
        Mw2 = assemble.bsp_mixed_deriv_biform_1d(K, 0, 0, nqp=p + 2, weightfunc=lambda x: 1 + 2 * x - x * x).toarray()
        _close(Mw2, oracle.biform_1d(c['kv'], p, c['kv'], p, 0, 0, weight=[oracle.fr(v) for v in w]), 'weighted mass (nqp=p+2)')
        # history independence: a weighted assembly must not influence later calls
        Mw3 = assemble.bsp_mixed_deriv_biform_1d(K, 0, 0, nqp=p + 2, weightfunc=lambda x: 1 + 2 * x - x * x).toarray()
        assert np.array_equal(Mw2, Mw3), 'repeating a weighted assembly gives a different matrix'
    # the convenience wrappers hand their weight function on (linear weight: the default rule is still exact)
    if p >= 1:
        lin = [oracle.fr(1), oracle.fr(2)]
        _close(assemble.bsp_mass_1d(K, weightfunc=lambda x: 1 + 2 * x).toarray(), oracle.biform_1d(c['kv'], p, c['kv'], p, 0, 0, weight=lin), 'bsp_mass_1d(weightfunc=1+2x)')
        _close(assemble.bsp_stiffness_1d(K, weightfunc=lambda x: 1 + 2 * x).toarray(), oracle.biform_1d(c['kv'], p, c['kv'], p, 1, 1, weight=lin), 'bsp_stiffness_1d(weightfunc=1+2x)')
    M_again = assemble.bsp_mass_1d(K).toarray()
    assert np.array_equal(M, M_again), 'mass matrix changed after a weighted assembly on the same knot vector'
    Mq = assemble.bsp_mixed_deriv_biform_1d(K, 0, 0, nqp=p + 2).toarray()
    _close(Mq, oracle.biform_1d(c['kv'], p, c['kv'], p, 0, 0), 'mass with custom nqp after a weighted assembly')


def chk_asym(c):
    from pyiga import assemble
    K1, K2 = _kv(c['p1'], c['kv1']), _kv(c['p2'], c['kv2'])
    for du in range(0, min(c['p1'], 1) + 1):
        for dv in range(0, min(c['p2'], 1) + 1):
            A = assemble.bsp_mixed_deriv_biform_1d_asym(K1, K2, du, dv).toarray()
            E = oracle.biform_1d(c['kv1'], c['p1'], c['kv2'], c['p2'], du, dv)
            _close(A, E, 'bsp_mixed_deriv_biform_1d_asym(du=%d,dv=%d)' % (du, dv))
    A = assemble.bsp_mass_1d_asym(K1, K2).toarray()
    assert A.shape == (K2.numdofs, K1.numdofs)
    # custom quadrature grids: a sub-range of the mesh (integral over part of the domain; the matrix keeps its documented size
    # numdofs2 x numdofs1) and a refinement of the mesh (same integral)
    mesh = np.array(sorted(set(c['kv1'])))
    ns = len(mesh) - 1
    for (k0, k1) in {(0, max(1, ns - 1)), (min(1, ns - 1), ns), (0, 1)}:
        if k0 >= k1:
            continue
        A = assemble.bsp_mixed_deriv_biform_1d_asym(K1, K2, 0, 0, quadgrid=mesh[k0:k1 + 1])
        assert A.shape == (K2.numdofs, K1.numdofs), 'quadrature grid over the spans %d..%d: matrix has shape %r, documented %r' % (k0, k1, A.shape, (K2.numdofs, K1.numdofs))
        _close(A.toarray(), oracle.biform_1d(c['kv1'], c['p1'], c['kv2'], c['p2'], 0, 0, spans=(k0, k1)), 'mass over the mesh spans %d..%d (custom quadrature grid)' % (k0, k1))
        # ... and the same through the wrappers
        _close(assemble.bsp_mass_1d_asym(K1, K2, quadgrid=mesh[k0:k1 + 1]).toarray(), oracle.biform_1d(c['kv1'], c['p1'], c['kv2'], c['p2'], 0, 0, spans=(k0, k1)),
               'bsp_mass_1d_asym(quadgrid = mesh spans %d..%d)' % (k0, k1))
        if min(c['p1'], c['p2']) >= 1:
            _close(assemble.bsp_stiffness_1d_asym(K1, K2, quadgrid=mesh[k0:k1 + 1]).toarray(), oracle.biform_1d(c['kv1'], c['p1'], c['kv2'], c['p2'], 1, 1, spans=(k0, k1)),
                   'bsp_stiffness_1d_asym(quadgrid = mesh spans %d..%d)' % (k0, k1))
    fine = np.sort(np.concatenate((mesh, (mesh[:-1] + mesh[1:]) / 2)))
    _close(assemble.bsp_mixed_deriv_biform_1d_asym(K1, K2, 0, 0, quadgrid=fine).toarray(), oracle.biform_1d(c['kv1'], c['p1'], c['kv2'], c['p2'], 0, 0),
           'mass with a refined quadrature grid')


def chk_tp(c):
    from pyiga import assemble, geometry
    kvs = tuple(_kv(p, kv) for p, kv in c['kvs'])
    dim = len(kvs)
    M = assemble.mass(kvs)
    S = assemble.stiffness(kvs)
    # identity geometry through the generic (compiled) assemblers
    geo = geometry.identity(kvs) if hasattr(geometry, 'identity') else None
    Mg = assemble.mass(kvs, geo)
    Sg = assemble.stiffness(kvs, geo)
    sc = max(1.0, abs(M).max())
    assert abs(M - Mg).max() <= 1e-11 * sc, 'Kronecker mass differs from the generic assembler with identity geometry by %g' % abs(M - Mg).max()
    assert abs(S - Sg).max() <= 1e-9 * max(1.0, abs(S).max()), 'Kronecker stiffness differs from the generic assembler by %g' % abs(S - Sg).max()
    vol = np.prod([kv[1][-1] - kv[1][0] for kv in c['kvs']])
    assert abs(M.sum() - vol) <= 1e-11 * max(1.0, vol)
    assert abs(M - M.T).max() <= 1e-13 * sc and abs(S - S.T).max() <= 1e-10 * max(1.0, abs(S).max())
    assert np.max(np.abs(S @ np.ones(S.shape[0]))) <= 1e-9 * max(1.0, abs(S).max())
    # string / predefined form route
    Ms = assemble.assemble('u * v * dx', kvs, geo=geo) if c.get('string') else None
    if Ms is not None:
        assert abs(Ms - M).max() <= 1e-11 * sc, 'string form differs'
    # load vectors and integrals of polynomial data
    f = {2: lambda x, y: 1 + x * y, 3: lambda x, y, z: 1 + x * y - z}[dim]
    b = assemble.inner_products(kvs, f)
    assert abs(b.sum() - assemble.integrate(kvs, f)) <= 1e-11 * max(1.0, abs(b.sum()))
    ex = {2: lambda a: None, 3: lambda a: None}
    lo = [kv[1][0] for kv in c['kvs']]
    hi = [kv[1][-1] for kv in c['kvs']]
    # exact integral of the polynomial over the box; argument order of f is xyz = reversed knot-vector order
    L = [(hi[k] - lo[k]) for k in range(dim)]
    m1 = [(hi[k] ** 2 - lo[k] ** 2) / 2 for k in range(dim)]
    if dim == 2:
        exact = L[0] * L[1] + m1[1] * m1[0]
    else:
        exact = L[0] * L[1] * L[2] + m1[2] * m1[1] * L[0] - m1[0] * L[1] * L[2]
    assert abs(assemble.integrate(kvs, f) - exact) <= 1e-11 * max(1.0, abs(exact)), 'integrate() of a polynomial is not exact'


def chk_geo(c):
    from pyiga import assemble, geometry, bspline
    kvs = tuple(bspline.make_knots(p, 0.0, 1.0, n) for p, n in c['space'])
    if c['geo'] == 'affine':
        geo, area = geometry.unit_square().scale((2.0, 3.0)).translate((1.0, -1.0)), 6.0
    elif c['geo'] == 'bilinear':
        geo, area = geometry.bspline_quarter_annulus() if False else geometry.unit_square().rotate_2d(0.3), 1.0
    elif c['geo'] == 'annulus':
        geo, area = geometry.quarter_annulus(), np.pi * (4 - 1) / 4
    elif c['geo'] == 'mirrored':          # orientation-reversing affine map (det J < 0): measures and integrals do not change sign
        geo, area = geometry.unit_square().scale((-2.0, 3.0)).translate((1.0, -1.0)), 6.0
    elif c['geo'] == 'reflected':         # reflection across the diagonal composed with a rotation: det J = -1
        geo, area = geometry.unit_square().apply_matrix(np.array([[0.0, 1.0], [1.0, 0.0]])).rotate_2d(0.7), 1.0
    elif c['geo'] == 'mirrored_annulus':
        geo, area = geometry.quarter_annulus().scale((1.0, -1.0)), np.pi * (4 - 1) / 4
    rtol = 1e-11 if 'annulus' not in c['geo'] else 1e-6
    M = assemble.mass(kvs, geo)
    # load vector / inner products: with f = 1 they are the row sums of the mass matrix (partition of unity) and add up to the area
    b1 = assemble.inner_products(kvs, lambda x, y: 1.0 + 0 * x, f_physical=True, geo=geo)
    assert abs(b1.sum() - area) <= rtol * area, 'inner products with f=1 sum to %r, area %r' % (b1.sum(), area)
    assert np.max(np.abs(b1.ravel() - M @ np.ones(M.shape[0]))) <= 1e-10 * max(1.0, abs(M).max()) + (1e-6 if 'annulus' in c['geo'] else 0), \
        'inner products with f=1 differ from the row sums of the mass matrix by %g' % np.max(np.abs(b1.ravel() - M @ np.ones(M.shape[0])))
    bp = assemble.inner_products(kvs, lambda x, y: 1.0 + 0 * x, geo=geo)          # parametric data, same thing
    assert np.max(np.abs(bp - b1)) <= 1e-12 * max(1.0, np.max(np.abs(b1)))
    # polynomial data in physical coordinates: sum of the load vector = integral = (for the axis-parallel maps) the exact value
    fxy = lambda x, y: 1.0 + x * y
    bf = assemble.inner_products(kvs, fxy, f_physical=True, geo=geo)
    If = assemble.integrate(kvs, fxy, f_physical=True, geo=geo)
    assert abs(bf.sum() - If) <= 1e-10 * max(1.0, abs(If)), 'sum of the load vector %r differs from integrate() %r' % (bf.sum(), If)
    # vector- and matrix-valued data are treated component by component (integrate() and inner_products() keep the trailing axes)
    comps = [lambda x, y: 1.0 + 0 * x + 0 * y, lambda x, y: x + 0 * y, fxy]
    fvec = lambda x, y: np.stack(np.broadcast_arrays(*[g(x, y) for g in comps]), axis=-1)
    Iv = np.asarray(assemble.integrate(kvs, fvec, f_physical=True, geo=geo))
    Is = np.array([assemble.integrate(kvs, g, f_physical=True, geo=geo) for g in comps])
    assert Iv.shape == (3,) and np.max(np.abs(Iv - Is)) <= 1e-11 * max(1.0, np.max(np.abs(Is))), 'integrate() of vector-valued data %r differs from the component integrals %r' % (Iv, Is)
    bv = assemble.inner_products(kvs, fvec, f_physical=True, geo=geo)
    for j_, g in enumerate(comps):
        bj = assemble.inner_products(kvs, g, f_physical=True, geo=geo)
        assert bv.shape == bj.shape + (3,) and np.max(np.abs(bv[..., j_] - bj)) <= 1e-12 * max(1.0, np.max(np.abs(bj))), 'inner_products() of vector-valued data, component %d' % j_
    if c['geo'] in ('affine', 'mirrored'):
        x0, x1 = (1.0, 3.0) if c['geo'] == 'affine' else (-1.0, 1.0)
        y0, y1 = -1.0, 2.0
        exact = (x1 - x0) * (y1 - y0) + (x1 ** 2 - x0 ** 2) / 2 * (y1 ** 2 - y0 ** 2) / 2
        assert abs(If - exact) <= 1e-11 * max(1.0, abs(exact)), 'integral of 1 + x*y over the mapped rectangle is %r, exact %r' % (If, exact)
    assert abs(M.sum() - area) <= rtol * area, 'mass entries sum to %r, area %r' % (M.sum(), area)
    assert abs(assemble.integrate(kvs, lambda x, y: 1.0 + 0 * x, geo=geo, f_physical=True) - area) <= rtol * area
    ev = np.linalg.eigvalsh(M.toarray())
    assert ev[0] > 0
    S = assemble.stiffness(kvs, geo)
    assert np.max(np.abs(S @ np.ones(S.shape[0]))) <= 1e-8 * max(1.0, abs(S).max())
    if c.get('fast'):
        Mf = assemble.mass_fast(kvs, geo, tol=1e-9, verbose=0)
        assert abs(Mf - M).max() <= 50 * 1e-9 * max(1.0, abs(M).max()), 'mass_fast deviates by %g' % abs(Mf - M).max()
        Sf = assemble.stiffness_fast(kvs, geo, tol=1e-9, verbose=0)
        assert abs(Sf - S).max() <= 50 * 1e-9 * max(1.0, abs(S).max()), 'stiffness_fast deviates by %g' % abs(Sf - S).max()


def chk_detinv(c):
    from pyiga import assemble_tools
    rng = np.random.RandomState(c['seed'])
    d = c['d']
    shape = (2, 3, d, d) if d == 2 else (2, 2, 3, d, d)
    X = rng.randint(-2, 3, size=shape).astype(float) + 9 * np.eye(d)
    det, inv = assemble_tools.det_and_inv(X)
    assert np.allclose(det, np.linalg.det(X), rtol=1e-12, atol=1e-12) and np.allclose(inv, np.linalg.inv(X), rtol=1e-11, atol=1e-12)
    assert np.allclose(assemble_tools.inverses(X), np.linalg.inv(X), rtol=1e-11, atol=1e-12)
    assert np.allclose(assemble_tools.determinants(X), np.linalg.det(X), rtol=1e-12, atol=1e-12)
    assert np.allclose(np.asarray(inv) @ X, np.eye(d), atol=1e-11)


def chk_fast(c):
    """low-rank fast assembler vs the generic assembler, entrywise within a small multiple of the requested tolerance (smooth geometry)"""
    from pyiga import assemble, geometry, bspline
    kvs = tuple(bspline.make_knots(p, 0.0, 1.0, n) for p, n in c['space'])
    dim = len(kvs)
    geo = geometry.quarter_annulus() if dim == 2 else geometry.twisted_box()
    tol = 1e-10
    for name, fast, ref in (('mass', assemble.mass_fast, assemble.mass), ('stiffness', assemble.stiffness_fast, assemble.stiffness)):
        A = fast(kvs, geo, tol=tol, skipcount=25, tolcount=25, verbose=0).toarray()
        B = ref(kvs, geo).toarray()
        assert A.shape == B.shape
        err = np.abs(A - B).max()
        assert err <= 1e4 * tol * max(1.0, np.abs(B).max()), '%s_fast differs from the generic assembler by %g (tolerance %g)' % (name, err, tol)
        assert np.abs(A - A.T).max() <= 1e-12 * max(1.0, np.abs(A).max()), '%s_fast is not symmetric' % name


_FAST_HISTORY_SCRIPT = r"""
import sys, json
import numpy as np
from pyiga import assemble, geometry, bspline
gn, p1, p2, n, name, reps = sys.argv[1], int(sys.argv[2]), int(sys.argv[3]), int(sys.argv[4]), sys.argv[5], int(sys.argv[6])
geo = getattr(geometry, gn)()
kvs = (bspline.make_knots(p1, 0.0, 1.0, n), bspline.make_knots(p2, 0.0, 1.0, n))
fast, ref = (assemble.mass_fast, assemble.mass) if name == 'mass' else (assemble.stiffness_fast, assemble.stiffness)
B = ref(kvs, geo).toarray()
bad = []
for r in range(reps):
    A = fast(kvs, geo, tol=1e-10, verbose=0).toarray()
    e = float(np.abs(A - B).max())
    if not e <= 1e4 * 1e-10 * max(1.0, float(np.abs(B).max())):
        bad.append((r, e))
print(json.dumps(bad))
"""


def chk_fast_history(c):
    """the fast assembler with its DEFAULT stopping parameters, called repeatedly with the same arguments in one fresh interpreter: every call
    returns the matrix within a small multiple of the tolerance (the cross approximation draws replacement rows with the C library's
    rand(), so a call depends on the calls before it; a fresh process makes the history reproducible)"""
    import json
    import os
    import subprocess
    import sys
    import pyiga
    root = os.path.dirname(os.path.dirname(os.path.abspath(pyiga.__file__)))
    env = dict(os.environ, PYTHONPATH=root + os.pathsep + os.environ.get('PYTHONPATH', ''))
    out = subprocess.run([sys.executable, '-c', _FAST_HISTORY_SCRIPT, c['geo'], str(c['p'][0]), str(c['p'][1]), str(c['n']), c['form'], str(c['reps'])],
                         env=env, capture_output=True, text=True, timeout=600)
    assert out.returncode == 0, 'fresh interpreter failed: %s' % out.stderr[-400:]
    bad = json.loads(out.stdout.strip().splitlines()[-1])
    assert not bad, '%s_fast(%s, p=%r, %d spans per direction, tol=1e-10, default skipcount/tolcount): %d of %d identical calls in one fresh process are off, first at call %d by %.3g' % (
        c['form'], c['geo'], tuple(c['p']), c['n'], len(bad), c['reps'], bad[0][0], bad[0][1])


CHECKS = {'fast': chk_fast, 'fast_history': chk_fast_history, '1d': chk_1d, 'asym': chk_asym, 'tp': chk_tp, 'geo': chk_geo, 'detinv': chk_detinv}


def generate(tier, rng):
    quick = tier == 'quick'
    # low-rank assembler: mixed degrees per direction (all orders of unequal degrees), moderate sizes
    for sp in ([(1, 6), (3, 5)], [(3, 5), (1, 6)], [(2, 5), (2, 5)], [(2, 4), (3, 4)]):
        yield 'fast', {'space': sp}
    for sp in ([(1, 3), (2, 3), (3, 3)], [(2, 3), (1, 3), (3, 3)], [(3, 3), (2, 3), (1, 3)], [(2, 3), (2, 3), (2, 3)]) if quick else \
            ([(a, 3), (b, 3), (c_, 3)] for a in (1, 2, 3) for b in (1, 2, 3) for c_ in (1, 2, 3)):
        yield 'fast', {'space': sp}
    for geo_, p_, n_, form in (('unit_square', (1, 2), 2, 'stiffness'), ('unit_square', (1, 1), 2, 'stiffness'), ('unit_square', (2, 2), 3, 'stiffness'),
                               ('bspline_quarter_annulus', (2, 2), 4, 'stiffness'), ('unit_square', (1, 1), 2, 'mass'), ('bspline_quarter_annulus', (3, 3), 6, 'stiffness'),
                               ('quarter_annulus', (2, 3), 5, 'mass')):
        yield 'fast_history', {'geo': geo_, 'p': list(p_), 'n': n_, 'form': form, 'reps': 60}
    brs = kvgen.BREAKSETS[:6]
    kvs = list(kvgen.knotvec_arrays(pmax=3 if quick else 5, breaksets=brs))
    for p, kv in kvs:
        yield '1d', {'p': p, 'kv': kv}
    for (p1, kv1) in kvs:
        for (p2, kv2) in kvs:
            if p1 != p2 and sorted(set(kv1)) == sorted(set(kv2)) and len(kv1) <= 9 and len(kv2) <= 9 and (not quick or (len(kv1) + p2) % 3 == 0):
                yield 'asym', {'p1': p1, 'kv1': kv1, 'p2': p2, 'kv2': kv2}
    small = [x for x in kvs if 1 <= x[0] <= 3 and len(x[1]) <= 8 and max(abs(v) for v in x[1]) <= 3 and min(b - a for a, b in zip(sorted(set(x[1]))[:-1], sorted(set(x[1]))[1:])) >= 0.1]
    for k in range(10 if quick else 40):
        sp = [list(rng.choice(small)) for _ in range(2)]
        yield 'tp', {'kvs': sp, 'string': k == 0}
    for k in range(3 if quick else 10):
        sp = [list(rng.choice([x for x in small if len(x[1]) <= 6])) for _ in range(3)]
        yield 'tp', {'kvs': sp}
    for geo in ('affine', 'bilinear', 'annulus', 'mirrored', 'reflected', 'mirrored_annulus'):
        yield 'geo', {'geo': geo, 'space': [[2, 3], [3, 2]], 'fast': geo == 'annulus'}
        yield 'geo', {'geo': geo, 'space': [[1, 4], [2, 2]]}
    for seed in range(6):
        yield 'detinv', {'d': 2 + seed % 2, 'seed': seed}


if __name__ == '__main__':
    import sys
    common.main(sys.modules[__name__])
