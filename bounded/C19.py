"""C19 bounded tier: knot-vector construction and queries on the real code with IEEE doubles."""
import itertools
import math

import numpy as np

from . import common, kvgen

COVERS = ['bspline_cy:pyx_findspan', 'bspline_cy:pyx_findspans', 'bspline:KnotVector.first_active',
          'bspline:KnotVector.support_idx', 'bspline:KnotVector.numdofs', 'bspline:KnotVector.__eq__',
          'bspline:KnotVector.first_active_at', 'bspline:KnotVector.findspan']
DOMAIN = {
    'quick': 'make_knots: all (p<=6, n<=400, mult<=max(1,p)) on [0,1] plus n in {49,98,103,107,161,187,196,1000,2000} and an '
             'interval grid; queries/findspan/refine/greville/eq/derivative on all knot vectors with p<=4 over 8 break sets '
             'and all interior multiplicity vectors; Greville points (inside the domain and the support of their B-spline, valid spans) of '
             'make_knots vectors with p in 1..6 on all intervals between 21 non-dyadic end points and 300 seeded random intervals',
    'thorough': 'make_knots: all (p<=6, n<=2000, mult<=max(1,p)) on [0,1] and on the grid of 10 end points a<b for n<=300; '
                'seeded random a<b in 1e-6..1e6; queries on p<=6',
}
RULE = 'case = (check, input); distinct by input; every generated case is non-trivial (a real call of the library)'


def _kv(case):
    from pyiga import bspline
    return bspline.KnotVector(np.array(case['kv'], dtype=float), case['p'])


def chk_make_knots(c):
    from pyiga import bspline
    p, a, b, n, mult = c['p'], c['a'], c['b'], c['n'], c['mult']
    K = bspline.make_knots(p, a, b, n, mult=mult)
    kv = K.kv
    assert K.p == p
    assert np.all(np.diff(kv) >= 0), 'not non-decreasing'
    assert np.all(kv[:p + 1] == a) and np.all(kv[-(p + 1):] == b), 'not open / does not end exactly at b'
    assert K.numspans == n, 'numspans %d != requested %d' % (K.numspans, n)
    mesh = np.unique(kv)
    assert len(mesh) == n + 1
    ref = a + (b - a) * np.arange(n + 1) / n
    tol = 8 * np.finfo(float).eps * max(abs(a), abs(b), abs(b - a)) * max(1, math.log2(n + 1))
    assert np.max(np.abs(mesh - ref)) <= tol, 'breakpoints not equally spaced: max dev %g > %g' % (np.max(np.abs(mesh - ref)), tol)
    for x in mesh[1:-1]:
        assert np.count_nonzero(kv == x) == mult, 'interior multiplicity'
    assert K.numdofs == p + 1 + mult * (n - 1), 'numdofs %d' % K.numdofs


def chk_greville(c):
    """Greville points of make_knots knot vectors on intervals with arbitrary (non-dyadic) end points: inside the domain and inside the
    support of their own B-spline (rounding of the knot averages must not push the first/last point out by an ulp), usable as
    interpolation nodes (findspan stays in range)"""
    from pyiga import bspline
    K = bspline.make_knots(c['p'], c['a'], c['b'], c['n'], mult=c.get('mult', 1))
    kv, p = K.kv, K.p
    g = K.greville()
    assert len(g) == K.numdofs
    assert np.all(np.diff(g) >= 0), 'greville points not sorted'
    bad = [(j, g[j] - kv[0], g[j] - kv[-1]) for j in range(len(g)) if not (kv[0] <= g[j] <= kv[-1])]
    assert not bad, 'greville point outside the domain: (index, g-a, g-b) = %r' % (bad[:3],)
    for j in range(K.numdofs):
        assert kv[j] <= g[j] <= kv[j + p + 1], 'greville point %d = %r outside the support [%r, %r] of its B-spline' % (j, g[j], kv[j], kv[j + p + 1])
        k = K.findspan(g[j])
        assert p <= k < len(kv) - p - 1 and kv[k] <= g[j] <= kv[k + 1], 'findspan of greville point %d out of range: %d' % (j, k)


def chk_queries(c):
    K = _kv(c)
    kv, p = K.kv, K.p
    n = len(kv)
    assert K.numdofs == n - p - 1 and K.numknots == n
    mesh = K.mesh
    assert np.all(np.diff(mesh) > 0) and set(mesh.tolist()) == set(kv.tolist())
    assert K.numspans == len(mesh) - 1
    msi = K.mesh_span_indices()
    assert list(msi) == [i for i in range(n - 1) if kv[i] < kv[i + 1]], 'mesh_span_indices'
    assert len(msi) == K.numspans
    allsupp = K.mesh_support_idx_all()
    assert allsupp.shape == (K.numdofs, 2)
    for j in range(K.numdofs):
        assert tuple(K.support_idx(j)) == (j, j + p + 1)
        assert K.support(j) == (kv[j], kv[j + p + 1])
        lo, hi = K.mesh_support_idx(j)
        assert lo < hi and mesh[lo] == kv[j] and mesh[hi] == kv[j + p + 1], 'mesh_support_idx'
        assert tuple(allsupp[j]) == (lo, hi)
    assert K.support() == (kv[0], kv[-1])
    for k in range(p, n - p - 1):
        assert K.first_active(k) == k - p
    g = K.greville()
    assert len(g) == K.numdofs and np.all(g >= kv[0]) and np.all(g <= kv[-1]), 'greville outside domain'
    exact = np.array([np.mean(kv[j + 1:j + p + 1]) if p > 0 else (kv[j] + kv[j + 1]) / 2 for j in range(K.numdofs)])
    assert np.allclose(g, exact, rtol=1e-12, atol=1e-12 * max(1.0, abs(kv[-1]), abs(kv[0]))), 'greville values'
    assert abs(K.meshsize_avg() - (kv[-1] - kv[0]) / K.numspans) <= 1e-14 * max(1, abs(kv[-1] - kv[0]))
    K2 = K.copy()
    assert K2 == K and K2.kv is not K.kv


def chk_findspan(c):
    from pyiga import bspline
    K = _kv(c)
    kv, p = K.kv, K.p
    n = len(kv)
    pts = kvgen.eval_points(kv)
    msi = set(K.mesh_span_indices().tolist())
    spans = bspline.pyx_findspans(kv, p, np.array(pts))
    for u, rs in zip(pts, spans):
        r = K.findspan(u)
        assert r == rs, 'findspan vs findspans'
        assert p <= r <= n - p - 2, 'span %d out of range at u=%r' % (r, u)
        assert kv[r] <= u and kv[r] < kv[r + 1], 'span %d does not contain u=%r' % (r, u)
        assert u < kv[r + 1] or (u == kv[-1] and r == n - p - 2), 'not right-continuous at u=%r (span %d)' % (u, r)
        assert r in msi
        assert K.first_active_at(u) == r - p


def chk_refine(c):
    K = _kv(c)
    new = np.array(c['new'], dtype=float)
    R = K.refine(new)
    assert R.p == K.p
    assert list(R.kv) == sorted(list(K.kv) + list(new)), 'refine is not the sorted union'
    U = K.refine()
    mesh = K.mesh
    assert U.numspans == 2 * K.numspans
    exp = sorted(list(K.kv) + [(x + y) / 2 for x, y in zip(mesh[:-1], mesh[1:])])
    assert list(U.kv) == exp, 'uniform refinement'


def chk_eq(c):
    from pyiga import bspline
    a = np.array(c['a'], dtype=float)
    b = np.array(c['b'], dtype=float)
    K1, K2 = bspline.KnotVector(a, c['p']), bspline.KnotVector(b, c['p'])
    assert (K1 == K1) is True and (K2 == K2) is True, 'not reflexive'
    assert (K1 == K2) == (K2 == K1), 'not symmetric: k1==k2 %s, k2==k1 %s' % (K1 == K2, K2 == K1)
    K3 = bspline.KnotVector(a, c['p'] + 1)
    assert not (K1 == K3) and not (K3 == K1)


def chk_derivative(c):
    from pyiga import bspline, spline
    if 'make' in c:            # a uniform knot vector far from the origin with narrow spans (badly scaled, but exactly representable data)
        pm, a_, b_, n_, mu = c['make']
        K = bspline.make_knots(pm, a_, b_, n_, mult=mu)
    else:
        K = _kv(c)
    if K.p < 1:
        return
    rng = np.random.RandomState(c['seed'])
    coeffs = rng.randint(-4, 5, size=K.numdofs).astype(float)
    S = spline.Spline(K, coeffs)
    D = S.derivative()
    assert D.kv.p == K.p - 1 and D.kv.numdofs == K.numdofs - 1
    # the coefficients of the derivative spline are d_i = p (c_{i+1} - c_i) / (t_{i+p+1} - t_{i+1}): computed in exact rational arithmetic from
    # the (double) knots and integer coefficients; the library's doubles agree to a few units in the last place -- on any interval
    from fractions import Fraction
    t = [Fraction(float(x)) for x in K.kv]
    pp = K.p
    exact = [pp * Fraction(int(coeffs[i + 1] - coeffs[i])) / (t[i + pp + 1] - t[i + 1]) for i in range(K.numdofs - 1)]
    got_c = np.asarray(D.coeffs, dtype=float)
    rel = max(abs(Fraction(float(g)) - e) / max(abs(e), Fraction(1)) for g, e in zip(got_c, exact))
    assert rel <= Fraction(1, 10 ** 13), 'coefficients of Spline.derivative() deviate from p (c_{i+1} - c_i) / (t_{i+p+1} - t_{i+1}) by %.3g (relative)' % float(rel)
    # pointwise derivative through the basis-derivative route (independent of splev's derivative)
    mesh = K.mesh
    pts = np.array([x + t * (y - x) for x, y in zip(mesh[:-1], mesh[1:]) for t in (0.1, 0.5, 0.9)])
    ref = bspline.collocation_derivs(K, pts, derivs=1)[1].dot(coeffs)
    got = D.eval(pts)
    scale = max(1.0, np.max(np.abs(ref)))
    assert np.max(np.abs(got - ref)) <= 1e-9 * scale, 'derivative spline differs from pointwise derivative by %g' % np.max(np.abs(got - ref))
    assert np.max(np.abs(S.deriv(pts) - ref)) <= 1e-9 * scale


CHECKS = {'make_knots': chk_make_knots, 'greville': chk_greville, 'queries': chk_queries, 'findspan': chk_findspan, 'refine': chk_refine,
          'eq': chk_eq, 'derivative': chk_derivative}

_ENDS = [-1.0, 0.0, 0.1, 0.9, 1.0, 1 / 3, 2.5, 10.0, 1e-6, 1e6]


def generate(tier, rng):
    nmax = 400 if tier == 'quick' else 2000
    extra_n = [49, 98, 103, 107, 161, 187, 196, 1000, 2000]
    for p in range(0, 7):
        for mult in range(1, max(1, p) + 1):
            ns = list(range(1, nmax + 1)) + [x for x in extra_n if x > nmax]
            if tier == 'quick' and (p, mult) not in ((0, 1), (1, 1), (2, 1), (2, 2), (3, 1), (3, 3), (6, 1), (6, 6), (4, 2)):
                ns = [x for x in ns if x <= 120 or x in extra_n]
            for n in ns:
                yield 'make_knots', {'p': p, 'a': 0.0, 'b': 1.0, 'n': n, 'mult': mult}
    grid_n = [1, 2, 3, 7, 10, 49, 98, 100, 103] if tier == 'quick' else list(range(1, 301))
    for a, b in itertools.product(_ENDS, _ENDS):
        if a < b:
            for n in grid_n:
                for (p, mult) in ((2, 1), (3, 2)) if tier == 'quick' else ((1, 1), (2, 1), (3, 2), (5, 5)):
                    yield 'make_knots', {'p': p, 'a': a, 'b': b, 'n': n, 'mult': mult}
    for _ in range(200 if tier == 'quick' else 5000):
        a = rng.choice([-1, 1]) * 10 ** rng.uniform(-6, 6)
        b = a + 10 ** rng.uniform(-6, 6)
        if not (a < b) or (b - a) < 1e-9 * max(abs(a), abs(b)):
            continue
        yield 'make_knots', {'p': rng.randint(0, 6), 'a': a, 'b': b, 'n': rng.randint(1, 300), 'mult': 1}
    # Greville points on intervals whose end points are not dyadic (p * x / p need not reproduce x)
    ends = [-1.0, 0.0, 0.1, 0.2, 0.3, 0.35, 0.7, 0.8, 0.85, 0.9, 1.0, 1.1, 1 / 3, 1.9, 2.3, 2.5, 3.7, 4.35, 10.0, 1e-6, 1e6]
    for a, b in itertools.product(ends, ends):
        if a < b:
            for p in range(1, 7):
                for n in ((1, 6) if tier == 'quick' else (1, 2, 3, 6, 17)):
                    yield 'greville', {'p': p, 'a': a, 'b': b, 'n': n}
    for _ in range(300 if tier == 'quick' else 5000):
        a = rng.choice([-1, 1]) * 10 ** rng.uniform(-3, 3)
        b = a + 10 ** rng.uniform(-3, 3)
        if a < b and (b - a) > 1e-9 * max(abs(a), abs(b)):
            yield 'greville', {'p': int(rng.randint(1, 7)), 'a': float(a), 'b': float(b), 'n': int(rng.randint(1, 12)), 'mult': 1}
    for k, mk in enumerate(([3, 1000.0, 1000.001, 200, 1], [6, 123456.0, 123456.01, 500, 1], [5, 1e6, 1e6 + 1e-3, 300, 1], [2, -1e6, -1e6 + 1e-2, 400, 2],
                            [1, 5e4, 5e4 + 1e-4, 50, 1], [4, 0.0, 1.0, 64, 3])):
        yield 'derivative', {'make': mk, 'seed': 700 + k, 'p': mk[0], 'kv': []}
    pmax = 4 if tier == 'quick' else 6
    for p, kv in kvgen.knotvec_arrays(pmax=pmax):
        case = {'p': p, 'kv': kv}
        yield 'queries', case
        yield 'findspan', case
        yield 'derivative', dict(case, seed=len(kv) + p)
        mesh = sorted(set(kv))
        new = [mesh[0] + (mesh[-1] - mesh[0]) * 0.37, mesh[1] if len(mesh) > 2 else mesh[0] + (mesh[-1] - mesh[0]) / 2,
               (mesh[0] + mesh[1]) / 2]
        yield 'refine', dict(case, new=new)
        yield 'refine', dict(case, new=[])
    # equality
    base = [0.0, 0.0, 0.0, 0.5, 1.0, 1.0, 1.0]
    for scale in (1.0, 1e-3, 1e8, 2e8, 1e12):
        a = [x * scale for x in base]
        for d in (0.0, 1e-9, 1e-8, 1.5e-8, 1.0 + 1.5e-8, 1e-7 * scale, 0.9e-8 * scale, 1.000001e-8 * scale, 1.0):
            for pos in (3, 4):
                b = list(a)
                b[pos] = b[pos] + d
                if b == sorted(b):
                    yield 'eq', {'p': 2, 'a': a, 'b': b}
    yield 'eq', {'p': 1, 'a': [0.0, 0.0, 1e8, 2e8, 2e8], 'b': [0.0, 0.0, 1e8 + 1 + 1.5e-8, 2e8, 2e8]}
    for _ in range(300 if tier == 'quick' else 3000):
        s = 10 ** rng.uniform(-3, 10)
        a = [0.0, 0.0, s * rng.uniform(0.2, 0.8), s, s]
        b = list(a)
        b[2] += rng.choice([-1, 1]) * 10 ** rng.uniform(-9, -7) * (1 + s)
        if b == sorted(b):
            yield 'eq', {'p': 1, 'a': a, 'b': b}


if __name__ == '__main__':
    import sys
    common.main(sys.modules[__name__])
