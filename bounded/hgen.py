"""Refinement histories for hierarchical spaces (shared by the C03/C04/C05/C11 bounded modules)."""
import itertools

import numpy as np


def make_kvs(spec):
    from pyiga import bspline
    dim, p, n = spec['dim'], spec['p'], spec['n']
    ps = p if isinstance(p, (list, tuple)) else [p] * dim
    ns = n if isinstance(n, (list, tuple)) else [n] * dim
    if spec.get('breaks'):
        # anisotropic / non-uniform coarse meshes: one list of breakpoints per axis
        out = []
        for d in range(dim):
            br = spec['breaks'][d]
            kv = [br[0]] * (ps[d] + 1) + list(br[1:-1]) + [br[-1]] * (ps[d] + 1)
            out.append(bspline.KnotVector(np.array(kv, dtype=float), ps[d]))
        return tuple(out)
    mult = spec.get('mult', 1)
    ms = mult if isinstance(mult, (list, tuple)) else [mult] * dim
    # (mult > 1: repeated interior knots -- a knot span then carries the functions first..first+p with first != span index)
    return tuple(bspline.make_knots(ps[d], 0.0, 1.0, ns[d], mult=min(ms[d], ps[d])) for d in range(dim))


def disparity_of(spec):
    d = spec.get('disparity', 'inf')
    return np.inf if d == 'inf' else int(d)


def build(spec, upto=None, record=None):
    """HSpace after replaying spec['history'] (list of {level: [cells]} dicts, JSON keys are strings)"""
    from pyiga import hierarchical
    kvs = make_kvs(spec)
    kw = {}
    if 'bdspecs' in spec:
        bd = spec['bdspecs']
        kw['bdspecs'] = None if bd is None else [tuple(b) if isinstance(b, list) else b for b in bd]
    hs = hierarchical.HSpace(kvs, truncate=bool(spec.get('truncate', False)), disparity=disparity_of(spec), **kw)
    kind = spec.get('kind', 'set')
    conv = {'set': set, 'list': list, 'tuple': tuple}[kind]
    hist = spec['history'] if upto is None else spec['history'][:upto]
    for step in hist:
        marked = {int(lv): conv(tuple(c) for c in cells) for lv, cells in step.items()}
        out = hs.refine(marked)
        if record is not None:
            record.append((marked, out))
    return hs


def nonempty_subsets(items, maxsize=None):
    items = sorted(items)
    for r in range(1, (maxsize or len(items)) + 1):
        for sub in itertools.combinations(items, r):
            yield list(sub)


def enumerate_histories(base, depth, max_subset=None, cap=None, rng=None):
    """all sequences of <= depth refine calls, each marking a non-empty subset of the active cells of ONE level
    (plus multi-level marks when rng is given); yields spec dicts"""
    out = []

    def rec(spec, d):
        if d == 0:
            return
        hs = build(spec)
        for lv in range(hs.numlevels):
            act = sorted(hs.active_cells(lv))
            if not act:
                continue
            subs = list(nonempty_subsets(act, max_subset))
            if cap is not None and len(subs) > cap and rng is not None:
                subs = rng.sample(subs, cap)
            for sub in subs:
                s2 = dict(spec)
                s2['history'] = spec['history'] + [{str(lv): [list(c) for c in sub]}]
                out.append(s2)
                rec(s2, d - 1)
    rec(dict(base, history=list(base.get('history', []))), depth)
    return out


def random_history(base, steps, rng, multi_level=True, finest_bias=0.0):
    """finest_bias: probability of marking on the finest level that has active cells (deep, narrow hierarchies)"""
    spec = dict(base, history=[])
    for _ in range(steps):
        hs = build(spec)
        step = {}
        lvs = [lv for lv in range(hs.numlevels) if hs.active_cells(lv)]
        k = 1 if not multi_level else rng.randint(1, min(2, len(lvs)))
        chosen = rng.sample(lvs, k)
        if finest_bias and rng.random() < finest_bias:
            chosen = [max(lvs)]
        for lv in chosen:
            act = sorted(hs.active_cells(lv))
            m = rng.randint(1, max(1, min(3, len(act))))
            step[str(lv)] = [list(c) for c in rng.sample(act, m)]
        spec['history'] = spec['history'] + [step]
    return spec
