"""C04 bounded tier: hierarchical spaces stay well formed under refinement histories (real code)."""
import itertools

import numpy as np

from . import common, hgen

COVERS = ['*']
DOMAIN = {'quick': 'exhaustive: all sequences of <=2 refine calls over all non-empty subsets (one level per call) of active cells for 1D meshes with '
                   '2-3 coarse cells and the 2D 2x2 mesh (subsets of size <=2 there), plus sampled third calls and multi-level simultaneous marks; '
                   '60 random deep 1D histories (5-10 calls, mostly marking the finest level) with disparity 2 and 3; '
                   'p in 1..3, disparity in {1,2,inf}, truncate in {F,T}, marks as set/list/tuple; seeded random histories in 1D-3D',
          'thorough': 'exhaustive depth 3 for 1D (<=4 coarse cells), more random histories'}
RULE = 'case = (refinement history, configuration); distinct by input; every case builds the space through the public refine() calls'


def _region(hs, lv):
    return set(hs.hmesh.active[lv]) | set(hs.hmesh.deactivated[lv])


def chk_space(c):
    from pyiga import hierarchical, bspline
    rec = []
    hs = hgen.build(c['spec'], record=rec)
    hm = hs.hmesh
    L = hs.numlevels
    dim = hs.dim
    # refine() returns the actually refined cells: a superset of the marks
    for (marked, out) in rec:
        for lv, cells in marked.items():
            assert set(cells) <= set(out.get(lv, ())), 'refine() result does not contain the marked cells'
    # ---- mesh invariants
    assert len(hm.meshes) == len(hm.active) == len(hm.deactivated) == len(hm.P) + 1 == L
    for lv in range(L):
        A, D = set(hm.active[lv]), set(hm.deactivated[lv])
        assert not (A & D), 'cell both active and deactivated on level %d' % lv
        allc = set(hm.meshes[lv].cells())
        assert (A | D) <= allc
        if lv == 0:
            assert (A | D) == allc, 'level-0 region is not the whole mesh'
        else:
            par = set(hm.deactivated[lv - 1])
            assert (A | D) == set(hm.cell_children(lv - 1, par)), 'level-%d region is not the children of the deactivated level-%d cells' % (lv, lv - 1)
    assert not hm.deactivated[L - 1] or True
    # tiling: every finest-level cell has exactly one active ancestor-or-self
    fine = hm.meshes[L - 1].cells()
    count = {cell: 0 for cell in fine}
    for lv in range(L):
        for cell in hm.active[lv]:
            desc = [cell]
            for l2 in range(lv, L - 1):
                desc = hm.cell_children(l2, desc)
            for d in desc:
                count[tuple(d)] += 1
    assert all(v == 1 for v in count.values()), 'active cells do not tile the domain exactly once'
    assert hs.total_active_cells == sum(len(a) for a in hm.active)
    # ---- support queries against the knot-vector geometry (independent of the library's index tables): cell (k_0..k_{d-1}) lies in the
    # support of function (j_0..j_{d-1}) iff per axis [mesh[k], mesh[k+1]] is inside [kv[j], kv[j+p+1]]
    for lv in range(L):
        msh = hm.meshes[lv]
        kvs_l = msh.kvs

        def geo_supp(f):
            per_axis = []
            for kv, j in zip(kvs_l, f):
                mesh = kv.mesh
                per_axis.append([k for k in range(len(mesh) - 1) if kv.kv[j] <= mesh[k] and mesh[k + 1] <= kv.kv[j + kv.p + 1]])
            return set(itertools.product(*per_axis))
        funcs = msh.functions()
        gs = {f: geo_supp(f) for f in funcs}
        for f in funcs:
            assert set(msh.support([f])) == gs[f], 'level %d: support(%r) = %r, knot vectors say %r' % (lv, f, sorted(msh.support([f])), sorted(gs[f]))
        cells_l = msh.cells()
        step = max(1, len(cells_l) // 40)
        for cell in cells_l[::step]:
            want = {f for f in funcs if cell in gs[f]}
            got = set(msh.supported_in([cell]))
            assert got == want, 'level %d: supported_in(%r) = %r, knot vectors say %r' % (lv, cell, sorted(got), sorted(want))
    # ---- function invariants
    for lv in range(L):
        msh = hm.meshes[lv]
        R = _region(hs, lv)
        Dl = set(hm.deactivated[lv])
        act, deact = set(hs.actfun[lv]), set(hs.deactfun[lv])
        assert not (act & deact)
        for f in msh.functions():
            supp = msh.support([f])
            want_act = supp <= R and not supp <= Dl
            want_deact = supp <= R and supp <= Dl
            assert (f in act) == want_act, 'level %d function %r: active=%s, expected %s' % (lv, f, f in act, want_act)
            assert (f in deact) == want_deact, 'level %d function %r: deactivated=%s, expected %s' % (lv, f, f in deact, want_deact)
    assert hs.numdofs == sum(len(a) for a in hs.actfun) and hs.numactive == tuple(len(a) for a in hs.actfun)
    # canonical order
    flat = hs.active_functions(flat=True)
    assert flat == sorted(flat) and len(flat) == hs.numdofs
    cells_flat = hs.active_cells(flat=True)
    assert cells_flat == sorted(cells_flat)
    # ---- linear independence, THB properties, basis transforms
    I_hb = hs.represent_fine(truncate=False).toarray()
    I_thb = hs.represent_fine(truncate=True).toarray()
    n = hs.numdofs
    assert I_hb.shape[1] == n and np.linalg.matrix_rank(I_hb) == n, 'HB functions are linearly dependent'
    assert np.linalg.matrix_rank(I_thb) == n, 'THB functions are linearly dependent'
    assert I_thb.min() >= -1e-12, 'truncated basis has a negative coefficient %g' % I_thb.min()
    assert np.max(np.abs(I_thb.sum(axis=1) - 1)) <= 1e-11, 'truncated basis does not sum to one'
    T = hs.thb_to_hb().toarray()
    Ti = hs.hb_to_thb().toarray()
    assert np.max(np.abs(T @ Ti - np.eye(n))) <= 1e-10 and np.max(np.abs(Ti @ T - np.eye(n))) <= 1e-10, 'HB<->THB transforms are not mutually inverse'
    assert np.max(np.abs(I_hb @ T - I_thb)) <= 1e-10, 'thb_to_hb does not map THB coefficients to HB coefficients of the same function'
    # ---- level disparity
    disp = hgen.disparity_of(c['spec'])
    if disp != np.inf and c.get('default_marking', True):
        for k in range(L):
            for f in hs.actfun[k]:
                supp_k = hm.meshes[k].support([f])
                for lv in range(k + int(disp) + 1, L):
                    cells = supp_k
                    for l2 in range(k, lv):
                        cells = set(map(tuple, hm.cell_children(l2, cells)))
                    bad = cells & set(hm.active[lv])
                    if c['spec'].get('truncate'):
                        # for THB the truncated function must vanish there: checked through the representation below
                        continue
                    assert not bad, 'active level-%d function %r is nonzero on active level-%d cells %r (disparity %s)' % (k, f, lv, sorted(bad)[:2], disp)
    # ---- incidence matrix agrees with the geometry
    Z = hs.incidence_matrix().toarray()
    assert Z.shape == (n, hs.total_active_cells)
    for i, (lf, f) in enumerate(flat):
        supp = hm.meshes[lf].support([f])
        for j, (lc, cell) in enumerate(cells_flat):
            if lc >= lf:
                anc = [cell]
                cset = {cell}
                for l2 in range(lc, lf, -1):
                    cset = hm.cell_parent(l2, cset)
                hit = bool(cset & supp)
            else:
                # coarser cell: function support lies in the refinement region of its level, disjoint from active coarser cells
                desc = [cell]
                for l2 in range(lc, lf):
                    desc = hm.cell_children(l2, desc)
                hit = bool(set(map(tuple, desc)) & supp)
            assert bool(Z[i, j]) == hit, 'incidence(%r,%r) = %d, geometry says %s' % ((lf, f), (lc, cell), Z[i, j], hit)
    # support queries
    for (lf, f) in flat[:6]:
        ext = hs.function_support(lf, f)
        kvs = hs.knotvectors(lf)
        assert ext == tuple((kv.kv[j], kv.kv[j + kv.p + 1]) for kv, j in zip(kvs, f))
    # virtual spaces / copies do not alias
    v0 = hs.get_virtual_space(0)
    assert v0.numlevels == 1 and v0.numdofs == hm.meshes[0].numbf
    assert hs.numlevels == L and sum(len(a) for a in hs.actfun) == n


def chk_kinds(c):
    """marks given as set, list or tuple produce the same space"""
    res = []
    for kind in ('set', 'list', 'tuple'):
        hs = hgen.build(dict(c['spec'], kind=kind))
        res.append(([sorted(a) for a in hs.actfun], [sorted(a) for a in hs.deactfun], [sorted(a) for a in hs.hmesh.active]))
    assert res[0] == res[1] == res[2], 'container kind of the marks changes the result'


def chk_region(c):
    from pyiga import hierarchical
    kvs = hgen.make_kvs(c['spec'])
    hs = hierarchical.HSpace(kvs, disparity=hgen.disparity_of(c['spec']))
    t = c['threshold']
    if len(kvs) == 1:
        hs.refine_region(0, lambda x: x < t)
        exp = {cell for cell in hs.hmesh.meshes[0].cells() if sum(hs.hmesh.meshes[0].cell_extents(cell)[0]) / 2 < t}
    else:
        hs.refine_region(0, lambda x, y: x < t)
        exp = {cell for cell in hs.hmesh.meshes[0].cells() if sum(hs.hmesh.meshes[0].cell_extents(cell)[-1]) / 2 < t}
    assert set(hs.hmesh.deactivated[0]) == exp, 'refine_region refined %r, expected %r' % (sorted(hs.hmesh.deactivated[0]), sorted(exp))


def chk_noop(c):
    """a refinement call that marks nothing (empty dict, empty containers, a region predicate matching no cell) leaves the space as it is"""
    hs = hgen.build(c['spec'])

    def snap():
        return ([sorted(a) for a in hs.actfun], [sorted(a) for a in hs.deactfun], [sorted(a) for a in hs.hmesh.active], [sorted(a) for a in hs.hmesh.deactivated])
    before = snap()
    nd = hs.numdofs
    L = hs.numlevels
    for marks in ({}, {0: []}, {l: () for l in range(L)}, {L - 1: set(), 0: []}):
        out = hs.refine(dict(marks))
        assert snap() == before and hs.numlevels == L, 'refine(%r) changed the space' % (marks,)
        assert not any(len(v) for v in out.values()), 'refine(%r) reports refined cells %r' % (marks, out)
    never = (lambda *x: False)
    for lv in range(L):
        hs.refine_region(lv, never)
        after = snap()
        # (levels without any cell may have been appended; nothing else may change)
        assert all(a[:L] == b and not any(a[L:]) for a, b in zip(after, before)) and hs.numdofs == nd, \
            'refine_region(%d, <predicate matching nothing>) changed the space' % lv


def chk_alias(c):
    """marks that ALIAS the space's own data (the live set `hs.active_cells(lv)` / `hs.hmesh.active[lv]`, "refine everything on level lv")
    give the same space as a copy of those marks"""
    def snap(hs):
        return ([sorted(a) for a in hs.actfun], [sorted(a) for a in hs.deactfun], [sorted(a) for a in hs.hmesh.active], [sorted(a) for a in hs.hmesh.deactivated])
    L = hgen.build(c['spec']).numlevels
    for lv in range(L):
        for how in ('active_cells', 'hmesh.active', 'two-levels'):
            h1, h2 = hgen.build(c['spec']), hgen.build(c['spec'])
            if not h1.hmesh.active[lv]:
                continue
            if how == 'active_cells':
                m1, m2 = {lv: h1.active_cells(lv)}, {lv: set(h2.active_cells(lv))}
            elif how == 'hmesh.active':
                m1, m2 = {lv: h1.hmesh.active[lv]}, {lv: set(h2.hmesh.active[lv])}
            else:
                lo = max(0, lv - 1)
                m1 = {k: h1.hmesh.active[k] for k in (lo, lv)}
                m2 = {k: set(h2.hmesh.active[k]) for k in (lo, lv)}
            h1.refine(m1)
            h2.refine(m2)
            assert snap(h1) == snap(h2), 'refine({%d: <the live set %s>}) differs from refining a copy of that set: e.g. active functions per level %r vs %r' % (
                lv, how, [len(a) for a in h1.actfun], [len(a) for a in h2.actfun])


CHECKS = {'space': chk_space, 'kinds': chk_kinds, 'region': chk_region, 'noop': chk_noop, 'alias': chk_alias}


def generate(tier, rng):
    quick = tier == 'quick'
    configs = []
    for p in (1, 2, 3):
        for disp in ('inf', 1, 2):
            for trunc in (False, True):
                configs.append({'p': p, 'disparity': disp, 'truncate': trunc})
    n = 0
    # exhaustive 1D
    for ncoarse in ((2, 3) if quick else (2, 3, 4)):
        base = {'dim': 1, 'n': ncoarse, 'p': 1}
        hists = hgen.enumerate_histories(base, 2 if quick else 3, max_subset=None if ncoarse <= 3 else 2, cap=12 if not quick else None, rng=rng)
        for h in hists:
            n += 1
            cfgs = configs if (n % 7 == 0 or len(h['history']) == 1) else [configs[n % len(configs)], configs[(3 * n + 5) % len(configs)]]
            for cfg in cfgs:
                if cfg['p'] > 2 and ncoarse == 2 and len(h['history']) > 1 and quick:
                    continue
                yield 'space', {'spec': dict(h, **cfg)}
    # 2D 2x2
    base = {'dim': 2, 'n': 2, 'p': 1}
    hists = hgen.enumerate_histories(base, 2, max_subset=1 if quick else 2, cap=6, rng=rng)
    rng.shuffle(hists)
    for h in hists[:(60 if quick else 400)]:
        n += 1
        for cfg in [configs[n % len(configs)], configs[(5 * n + 1) % len(configs)]]:
            if cfg['p'] == 3:
                cfg = dict(cfg, p=2)
            yield 'space', {'spec': dict(h, **cfg)}
    # multi-level simultaneous marks and longer random histories
    for k in range(40 if quick else 400):
        dim = 1 if k % 3 else 2
        base = {'dim': dim, 'n': 3 if dim == 1 else 2, 'p': 1 + k % 3 if dim == 1 else 1 + k % 2}
        h = hgen.random_history(base, 2 + k % 2, rng, multi_level=True)
        cfg = configs[k % len(configs)]
        yield 'space', {'spec': dict(h, disparity=cfg['disparity'], truncate=cfg['truncate'])}
        if k % 4 == 0:
            yield 'kinds', {'spec': dict(h, disparity=cfg['disparity'], truncate=cfg['truncate'])}
    # repeated interior knots (C^{p-m} coarse spaces, m = 2, 3): knot span k does not carry the functions k..k+p any more
    for k in range(36 if quick else 240):
        dim = 1 if k % 3 else 2
        p = 2 + k % 2 if dim == 1 else [2 + k % 2, 2]
        base = {'dim': dim, 'n': 3 if dim == 1 else 2, 'p': p, 'mult': (2 + (k % 5 == 0)) if dim == 1 else [2, 1 + k % 2]}
        h = hgen.random_history(base, 2 + k % 2, rng, multi_level=bool(k % 2))
        cfg = configs[k % len(configs)]
        yield 'space', {'spec': dict(h, disparity=cfg['disparity'], truncate=cfg['truncate'])}
    # many multi-level simultaneous marks under finite disparity (1D, cheap): every marked level needs its own admissibility cascade
    for k in range(600 if quick else 3000):
        d = 1 + k % 2
        base = {'dim': 1, 'n': 2 + k % 3, 'p': 1 + k % 2, 'disparity': d, 'truncate': bool(k % 5 == 0)}
        h = hgen.random_history(base, 3 + k % 3, rng, multi_level=True)
        if any(len(step) > 1 for step in h['history']):
            yield 'space', {'spec': h}
    # deep, narrow hierarchies with finite disparity >= 2: the admissibility cascade has to reach levels l-d, l-2d, ...
    for k in range(60 if quick else 400):
        d = 2 if k % 4 else 3
        base = {'dim': 1, 'n': 3 if k % 2 else 2, 'p': 1 + (k % 5 == 0), 'disparity': d, 'truncate': bool(k % 3 == 0)}
        h = hgen.random_history(base, 5 + k % 4 + (2 if d == 3 else 0), rng, multi_level=False, finest_bias=0.85)
        yield 'space', {'spec': h}
    for k in range(0 if quick else 12):
        base = {'dim': 3, 'n': 2, 'p': 1}
        h = hgen.random_history(base, 2, rng, multi_level=False)
        yield 'space', {'spec': dict(h, disparity=['inf', 1][k % 2], truncate=bool(k % 2))}
    # almost global refinement: few coarse functions survive truncation (represent_fine takes its row-restricted Kronecker branch)
    for base, leave in (({'dim': 1, 'n': 4, 'p': 2}, (1, 2)), ({'dim': 1, 'n': 4, 'p': 1}, (1, 2, 3)), ({'dim': 1, 'n': 6, 'p': 3}, (1, 2)),
                        ({'dim': 2, 'n': 3, 'p': 1}, (1, 1)), ({'dim': 2, 'n': 4, 'p': 2}, (1, 2))):
        hist = []
        m = base['n']
        for k, lv in enumerate(leave):
            m = (m if k == 0 else 2 * m) - lv          # marked cells are active ones: children of the previously marked, minus the last few
            keep = range(m)
            hist.append({str(k): [list(t) for t in itertools.product(keep, repeat=base['dim'])]})
        for tr in (False, True):
            yield 'space', {'spec': dict(base, history=hist, disparity='inf', truncate=tr)}
    for spec in ({'dim': 1, 'n': 2, 'p': 2, 'disparity': 'inf', 'history': []}, {'dim': 1, 'n': 4, 'p': 2, 'disparity': 1, 'history': [{'0': [[3]]}, {'1': [[7]]}]},
                 {'dim': 2, 'n': 3, 'p': 1, 'disparity': 'inf', 'truncate': True, 'history': [{'0': [[0, 0], [1, 1]]}]},
                 {'dim': 2, 'n': 4, 'p': 2, 'disparity': 2, 'history': [{'0': [[3, 3]]}, {'0': [[0, 0]], '1': [[6, 6]]}]}):
        yield 'noop', {'spec': spec}
        yield 'alias', {'spec': spec}
    # marks as list/tuple with finite disparity on several levels (the documented container kinds)
    yield 'kinds', {'spec': {'dim': 2, 'n': 4, 'p': 2, 'disparity': 1, 'history': [{'0': [[3, 3]]}, {'0': [[0, 0]], '1': [[6, 6]]}]}}
    yield 'kinds', {'spec': {'dim': 1, 'n': 4, 'p': 2, 'disparity': 1, 'history': [{'0': [[3]]}, {'0': [[0]], '1': [[7]]}]}}
    for dim in (1, 2):
        for t in (0.3, 0.5, 0.8):
            yield 'region', {'spec': {'dim': dim, 'n': 4, 'p': 2, 'disparity': 'inf'}, 'threshold': t}


if __name__ == '__main__':
    import sys
    common.main(sys.modules[__name__])
