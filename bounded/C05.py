"""C05 bounded tier: every transfer matrix between nested spline spaces preserves the function (real code).

The run-time postcondition is always "same function": both coefficient vectors are evaluated on a tensor grid with
p+2 points per finest-level cell and direction (which determines a piecewise polynomial of degree p), the hierarchical
ones through the DEFINITION  sum_l sum_{j in actfun[l]} c_{l,j} beta_{l,j}(x)  (HB) -- not through the library's own
representation matrices."""
import itertools

import numpy as np

from . import common, hgen, kvgen

COVERS = ['*']
PROCS = 16
DOMAIN = {'quick': 'knot vectors: degrees 0-6, break sets with close/huge spans, all interior multiplicity vectors up to p (C02 enumeration, thinned); '
                   'inserted knots: interior points, existing knots (raising multiplicity up to p), both just-inside ends; refine() uniform and with '
                   'explicit new knots; hierarchical spaces: all prefixes/pairs along exhaustive 1D histories (<=3 calls), 2D 2x2/3x3 histories, random deep 1D '
                   'histories, p 1-3, disparity 1,2,inf, HB and THB',
          'thorough': 'more histories, p up to 4, 3D'}
RULE = 'case = (space pair / history, configuration); distinct by input'
TOL = 1e-10


def _kv(p, kv):
    from pyiga import bspline
    return bspline.KnotVector(np.array(kv, dtype=float), p)


def _pts(kv, extra=2):
    m = np.unique(kv.kv)
    out = []
    for a, b in zip(m[:-1], m[1:]):
        out.extend(np.linspace(a, b, kv.p + 1 + extra, endpoint=False)[1:].tolist() + [a])
    out.append(m[-1])
    return np.array(sorted(set(out)))


def _close(A, B, what, tol=TOL):
    A = A.toarray() if hasattr(A, 'toarray') else np.asarray(A)
    B = B.toarray() if hasattr(B, 'toarray') else np.asarray(B)
    assert A.shape == B.shape, '%s: shapes %r vs %r' % (what, A.shape, B.shape)
    if A.size:
        err = np.abs(A - B).max()
        assert err <= tol * max(1.0, np.abs(B).max()), '%s: max difference %g' % (what, err)


# ---------------------------------------------------------------------------------------------- knot vectors

def chk_insert(c):
    from pyiga import bspline
    kv = _kv(c['p'], c['kv'])
    u = c['u']
    P = bspline.knot_insertion(kv, u)
    new = np.sort(np.append(kv.kv, u))
    kv2 = bspline.KnotVector(new, kv.p)
    assert P.shape == (kv.numdofs + 1, kv.numdofs), 'shape %r' % (P.shape,)
    X = np.union1d(_pts(kv), _pts(kv2))
    _close(bspline.collocation(kv2, X) @ P, bspline.collocation(kv, X), 'knot_insertion(u=%r): functions differ' % u)
    Pd = P.toarray()
    assert Pd.min() >= 0 and np.abs(Pd.sum(axis=1) - 1).max() <= 1e-13, 'rows are not convex combinations'


def chk_prolong(c):
    from pyiga import bspline
    kv = _kv(c['p'], c['kv'])
    if c.get('new') == 'uniform':
        kv2 = kv.refine()
    else:
        kv2 = kv.refine(new_knots=np.array(c['new'], dtype=float))
    # nestedness: every knot of kv with at least its multiplicity
    for t in np.unique(kv.kv):
        assert np.sum(kv2.kv == t) >= np.sum(kv.kv == t), 'refine() lost multiplicity of knot %r' % t
    assert kv2.p == kv.p and np.all(np.diff(kv2.kv) >= 0)
    if c.get('new') != 'uniform':
        exp = np.sort(np.concatenate((kv.kv, np.array(c['new'], dtype=float))))
        assert np.array_equal(kv2.kv, exp), 'refine(new_knots) is not the sorted union'
    else:
        m = np.unique(kv.kv)
        mids = (m[:-1] + m[1:]) / 2
        assert np.array_equal(np.unique(kv2.kv), np.sort(np.concatenate((m, mids)))), 'uniform refine() does not bisect every span'
    P = bspline.prolongation(kv, kv2)
    assert P.shape == (kv2.numdofs, kv.numdofs), 'prolongation has shape %r for %d -> %d functions' % (P.shape, kv.numdofs, kv2.numdofs)
    X = _pts(kv2)
    _close(bspline.collocation(kv2, X) @ P, bspline.collocation(kv, X), 'prolongation: functions differ', tol=1e-9)


# ---------------------------------------------------------------------------------------------- hierarchical spaces

def _finest_grid(hs, L=None):
    kvs = hs.knotvectors((L or hs.numlevels) - 1)
    return [_pts(kv, extra=1) for kv in kvs]


def _hb_values(hs, coeffs, grid):
    """definition of the HB spline with canonical coefficient vector coeffs: sum over levels of active B-splines"""
    from pyiga import bspline
    out = 0.0
    ofs = 0
    for lv in range(hs.numlevels):
        kvs = hs.knotvectors(lv)
        funcs = sorted(hs.actfun[lv])
        n = len(funcs)
        cl = coeffs[ofs:ofs + n]
        ofs += n
        if not n:
            continue
        C = np.zeros(tuple(kv.numdofs for kv in kvs))
        for f, v in zip(funcs, cl):
            C[f] = v
        out = out + bspline.BSplineFunc(kvs, C).grid_eval(grid)
    assert ofs == len(coeffs)
    return out


def _values(hs, coeffs, grid, truncate):
    if truncate:
        coeffs = hs.thb_to_hb() @ coeffs
    return _hb_values(hs, coeffs, grid)


def _rand_coeffs(n, seed):
    rng = np.random.RandomState(seed)
    return [rng.rand(n) - 0.3, np.ones(n)] + [np.eye(n)[k] for k in rng.choice(n, size=min(n, 3), replace=False)]


def chk_represent(c):
    """represent_fine and HSplineFunc evaluation agree with the definition"""
    from pyiga import bspline, hierarchical
    hs = hgen.build(c['spec'])
    grid = _finest_grid(hs)
    kvsF = hs.knotvectors(hs.numlevels - 1)
    own = hs.truncate
    # the flag a call does not pass is the space's own one (documented default) -- on both kinds of spaces
    u = _rand_coeffs(hs.numdofs, 3)[0]
    for flag in (False, True):
        hs.truncate = flag
        ref = _values(hs, u, grid, flag)
        _close(hierarchical.HSplineFunc(hs, u).grid_eval(grid), ref, 'HSplineFunc(hs, u) on a space with truncate=%s: coefficients not read in the basis of the space' % flag)
        _close(hs.grid_eval(u, grid), ref, 'HSpace.grid_eval(u, grid) on a space with truncate=%s' % flag)
        _close(sum(f.grid_eval(grid) for f in hs.coeffs_to_levelwise_funcs(u)), ref, 'coeffs_to_levelwise_funcs(u) on a space with truncate=%s' % flag)
        tp = bspline.BSplineFunc(kvsF, (hs.represent_fine() @ u).reshape(tuple(kv.numdofs for kv in kvsF)))
        _close(tp.grid_eval(grid), ref, 'represent_fine() on a space with truncate=%s' % flag)
    for trunc in (False, True):
        hs.truncate = not trunc          # an explicit flag overrides the one of the space
        I = hs.represent_fine(truncate=trunc)
        for u in _rand_coeffs(hs.numdofs, 1)[:3]:
            ref = _values(hs, u, grid, trunc)
            tp = bspline.BSplineFunc(kvsF, (I @ u).reshape(tuple(kv.numdofs for kv in kvsF)))
            _close(tp.grid_eval(grid), ref, 'represent_fine(truncate=%s) does not reproduce the function' % trunc)
            f = hierarchical.HSplineFunc(hs, u, truncate=trunc)
            _close(f.grid_eval(grid), ref, 'HSplineFunc.grid_eval (truncate=%s on a space with truncate=%s)' % (trunc, hs.truncate))
            _close(hs.grid_eval(u, grid, truncate=trunc), ref, 'HSpace.grid_eval (truncate=%s on a space with truncate=%s)' % (trunc, hs.truncate))
            _close(f.grid_jacobian(grid), tp.grid_jacobian(grid), 'HSplineFunc.grid_jacobian (truncate=%s)' % trunc, tol=1e-8)
            if min(kv.p for kv in kvsF) >= 2:
                _close(f.grid_hessian(grid), tp.grid_hessian(grid), 'HSplineFunc.grid_hessian (truncate=%s)' % trunc, tol=1e-7)
            pt = tuple(g[len(g) // 2] for g in grid)[::-1]
            _close(np.asarray(f(*pt)), np.asarray(tp(*pt)), 'HSplineFunc.__call__ at a single point')
        # complex coefficient vectors (time-harmonic problems): evaluation is linear, real and imaginary parts are carried along
        ur, ui = _rand_coeffs(hs.numdofs, 5)[:2]
        uc = ur + 1j * ui
        fc = hierarchical.HSplineFunc(hs, uc, truncate=trunc)
        want = _values(hs, ur, grid, trunc) + 1j * _values(hs, ui, grid, trunc)
        got = np.asarray(fc.grid_eval(grid))
        assert np.iscomplexobj(got) and np.max(np.abs(got - want)) <= 1e-10 * max(1.0, np.max(np.abs(want))), \
            'HSplineFunc.grid_eval with complex coefficients (truncate=%s): imaginary part lost or wrong (max deviation %g)' % (trunc, np.max(np.abs(got - want)))
    hs.truncate = own


def chk_prolongate_to(c):
    """coarse.prolongate_to(fine) maps HB coefficients to HB coefficients of the same function"""
    coarse = hgen.build(c['spec'], upto=c['k'])
    fine = hgen.build(c['spec'], upto=c['m'])
    P = coarse.prolongate_to(fine)
    assert P.shape == (fine.numdofs, coarse.numdofs), 'shape %r' % (P.shape,)
    grid = _finest_grid(fine)
    for u in _rand_coeffs(coarse.numdofs, 2):
        _close(_hb_values(fine, P @ u, grid), _hb_values(coarse, u, grid), 'prolongate_to (history prefix %d -> %d): functions differ' % (c['k'], c['m']))


def chk_virtual(c):
    """virtual-hierarchy prolongators: composed from any level l, the columns span exactly the level-l virtual space (the hierarchy cut at
    level l with its deactivated level-l functions re-activated); composed from level 0 they map the coarsest tensor-product coefficients
    (in the library's order: active functions of level 0 first, then the deactivated ones) to the HB resp. THB coefficients of the same function"""
    from pyiga import bspline
    hs = hgen.build(c['spec'])
    L = hs.numlevels
    if L < 2:
        return
    grid = _finest_grid(hs)
    for trunc in c.get('truncs', (False,)):
        Ps = hs.virtual_hierarchy_prolongators(truncate=trunc)
        assert len(Ps) == L - 1
        for l in range(L - 1):
            assert Ps[l].shape[1] == (Ps[l - 1].shape[0] if l else hs.mesh(0).numbf), 'prolongator %d has %d columns' % (l, Ps[l].shape[1])
        assert Ps[-1].shape[0] == hs.numdofs
        for l in range(L - 1):
            M = Ps[l]
            for P in Ps[l + 1:]:
                M = P @ M
            M = M.toarray()
            V = hs.get_virtual_space(l)
            assert M.shape[1] == V.numdofs, 'composition from level %d has %d columns, the virtual space has dimension %d' % (l, M.shape[1], V.numdofs)
            A = np.stack([_values(hs, M[:, j], grid, trunc).ravel() for j in range(M.shape[1])], axis=1)
            B = np.stack([_hb_values(V, np.eye(V.numdofs)[j], grid).ravel() for j in range(V.numdofs)], axis=1)
            rA, rB, rAB = (np.linalg.matrix_rank(X, tol=1e-9) for X in (A, B, np.hstack((A, B))))
            assert rB == V.numdofs
            assert rA == V.numdofs and rAB == V.numdofs, ('prolongators composed from level %d (truncate=%s, %d levels) span a space of dimension %d '
                                                           '(joint with the level-%d virtual space: %d), expected exactly that space of dimension %d'
                                                           % (l, trunc, L, rA, l, rAB, V.numdofs))
        # level 0: same function
        M = Ps[0]
        for P in Ps[1:]:
            M = P @ M
        IA, ID = hs.active_indices(), hs.deactivated_indices()
        order = np.concatenate((IA[0], ID[0])).astype(int)
        kvs0 = hs.knotvectors(0)
        shp = tuple(kv.numdofs for kv in kvs0)
        for cvec in _rand_coeffs(int(np.prod(shp)), 5)[:3]:
            ref = bspline.BSplineFunc(kvs0, cvec.reshape(shp)).grid_eval(grid)
            _close(_values(hs, M @ cvec[order], grid, trunc), ref, 'all virtual prolongators composed (truncate=%s, %d levels): function differs' % (trunc, L))


def chk_represent_lv(c):
    """represent_fine(lv, truncate, rows, restrict): for every level lv the columns are the (truncated) functions of the virtual space of
    level lv -- the hierarchy cut at lv with the deactivated level-lv functions re-activated -- in the tensor-product basis of level lv;
    a row selection returns exactly those rows of that matrix (restrict) resp. that matrix with the other rows zeroed"""
    from pyiga import bspline
    hs = hgen.build(c['spec'])
    IA, ID = hs.active_indices(), hs.deactivated_indices()
    rs = np.random.RandomState(7)
    for lv in range(hs.numlevels):
        V = hs.get_virtual_space(lv) if lv < hs.numlevels - 1 else hs
        kvs = hs.knotvectors(lv)
        shp = tuple(kv.numdofs for kv in kvs)
        grid = _finest_grid(V)
        # column order of the library: active functions of levels < lv, then active and deactivated functions of level lv
        last = np.concatenate((IA[lv], ID[lv])).astype(int)
        posV = {int(f): q for q, f in enumerate(np.asarray(V.active_indices()[lv]).astype(int))}
        nlow = sum(len(IA[k]) for k in range(lv))
        assert V.numdofs == nlow + len(last)
        perm = list(range(nlow)) + [nlow + posV[int(f)] for f in last]
        for trunc in (False, True):
            hs.truncate = not trunc
            I = hs.represent_fine(lv=lv, truncate=trunc)
            assert I.shape == (int(np.prod(shp)), V.numdofs), 'represent_fine(lv=%d) has shape %r' % (lv, I.shape)
            Id = I.toarray()
            cols = sorted(set([0, V.numdofs - 1] + rs.choice(V.numdofs, size=min(V.numdofs, 4), replace=False).tolist()))
            for j in cols + [None]:
                u = np.eye(V.numdofs)[j] if j is not None else rs.rand(V.numdofs) - 0.4
                uV = np.zeros(V.numdofs)
                uV[perm] = u
                ref = _values(V, uV, grid, trunc)
                got = bspline.BSplineFunc(kvs, (Id @ u).reshape(shp)).grid_eval(grid)
                _close(got, ref, 'represent_fine(lv=%d, truncate=%s) column %s is not that function of the level-%d virtual space' % (lv, trunc, j, lv))
            N = Id.shape[0]
            rowsets = [np.arange(N), np.array([0]), np.array([N - 1]), np.sort(rs.choice(N, size=max(1, N // 4), replace=False)),
                       np.asarray(IA[lv]).astype(int)]
            for rows in rowsets:
                if len(rows) == 0:
                    continue
                R = hs.represent_fine(lv=lv, truncate=trunc, rows=rows, restrict=True).toarray()
                assert R.shape == (len(rows), Id.shape[1]) and np.max(np.abs(R - Id[rows])) <= 1e-12, \
                    'represent_fine(lv=%d, truncate=%s, rows=<%d of %d>, restrict=True) is not the row selection of the full matrix (max deviation %g)' % (
                        lv, trunc, len(rows), N, np.max(np.abs(R - Id[rows])) if R.shape == (len(rows), Id.shape[1]) else -1)
                Z = hs.represent_fine(lv=lv, truncate=trunc, rows=rows).toarray()
                want = np.zeros_like(Id)
                want[rows] = Id[rows]
                assert Z.shape == Id.shape and np.max(np.abs(Z - want)) <= 1e-12, \
                    'represent_fine(lv=%d, truncate=%s, rows=<%d of %d>) is not the full matrix with the other rows zeroed' % (lv, trunc, len(rows), N)


def _near_global(base, steps, leave):
    """refine all cells of the finest level but the last `leave[k]` ones (per axis), `steps` times"""
    dim = base['dim']
    n = base['n']
    hist = []
    m = n
    for k in range(steps):
        m = (m if k == 0 else 2 * m) - leave[k]          # marked cells are active ones: children of the previously marked, minus the last few
        keep = list(range(m))
        cells = [list(t) for t in itertools.product(keep, repeat=dim)]
        hist.append({str(k): cells})
    return dict(base, history=hist)


def chk_virtual_thb(c):
    return chk_virtual(dict(c, truncs=(True,)))


def _plain(x):
    if isinstance(x, np.ndarray):
        return x.tolist()
    if isinstance(x, (set, frozenset)):
        return sorted(_plain(v) for v in x)
    if isinstance(x, (list, tuple)):
        return [_plain(v) for v in x]
    if isinstance(x, dict):
        return {str(k): _plain(v) for k, v in sorted(x.items())}
    if isinstance(x, (np.integer,)):
        return int(x)
    return x


def _state(hs):
    out = {'actfun': _plain(hs.actfun), 'deactfun': _plain(hs.deactfun), 'active_cells': _plain(hs.hmesh.active),
           'active_indices': _plain(hs.active_indices()), 'deactivated_indices': _plain(hs.deactivated_indices()), 'numdofs': hs.numdofs,
           'dirichlet_dofs': _plain(hs.dirichlet_dofs()), 'global_indices': _plain(hs.global_indices())}
    for strat in ('new', 'trunc', 'func_supp', 'cell_supp'):
        out['smooth_' + strat] = _plain(hs.indices_to_smooth(strat))
    return out


def chk_adaptive(c):
    """one persistent HSpace object driven through the history with every cached query warmed before each refine(): it must
    stay indistinguishable from a freshly built space, and prolongate_to between consecutive states preserves the function"""
    spec = c['spec']
    hs = hgen.build(spec, upto=0)
    H = len(spec['history'])
    for k in range(H):
        _state(hs)                                   # populate the caches
        if k:
            hs.prolongate_to(hs)                     # uses the cached canonical index tables
        old = hs.copy()                              # deepcopy carries the caches along
        marked = {int(lv): set(tuple(x) for x in cells) for lv, cells in spec['history'][k].items()}
        hs.refine(marked)
        fresh = hgen.build(spec, upto=k + 1)
        a, b = _state(hs), _state(fresh)
        for key in b:
            assert a[key] == b[key], 'after step %d the incrementally refined space differs from a freshly built one in %s' % (k, key)
        P = old.prolongate_to(hs)
        assert P.shape == (hs.numdofs, old.numdofs)
        grid = _finest_grid(hs)
        for u in _rand_coeffs(old.numdofs, 7)[:2]:
            _close(_hb_values(hs, P @ u, grid), _hb_values(old, u, grid), 'adaptive loop step %d: prolongate_to changed the function' % k)


def chk_boundary(c):
    """HSpace.boundary: restriction of a hierarchical spline to the face = the boundary-space spline with the selected coefficients"""
    hs = hgen.build(c['spec'])
    bd = tuple(c['bdspec'])
    hb, idx = hs.boundary(bd)
    assert len(idx) == hb.numdofs, 'boundary space has %d dofs, %d indices returned' % (hb.numdofs, len(idx))
    ax, side = bd
    gridb = _finest_grid(hb)
    # evaluate on the face: full grid with the fixed coordinate at the end of the axis
    kvF = hs.knotvectors(hs.numlevels - 1)
    t = kvF[ax].kv[0] if side == 0 else kvF[ax].kv[-1]
    # boundary space may have fewer levels: use its grid, refined to the finest level of hs in the remaining axes
    full = _finest_grid(hs)
    gridb = [g for k, g in enumerate(full) if k != ax]
    grid = list(full)
    grid[ax] = np.array([t])
    for u in _rand_coeffs(hs.numdofs, 4)[:3]:
        vals = np.squeeze(_hb_values(hs, u, grid), axis=ax)
        _close(_hb_values(hb, u[idx], gridb), vals, 'boundary(%r): trace differs' % (bd,))


CHECKS = {'virtual_thb': chk_virtual_thb, 'adaptive': chk_adaptive, 'insert': chk_insert, 'prolong': chk_prolong, 'represent': chk_represent, 'represent_lv': chk_represent_lv, 'prolongate_to': chk_prolongate_to, 'virtual': chk_virtual,
          'boundary': chk_boundary}


def generate(tier, rng):
    quick = tier == 'quick'
    # ---- knot vectors
    n = 0
    for p, kv in kvgen.knotvec_arrays(pmax=6 if quick else 8, max_break=3):
        n += 1
        if quick and n % 3:
            continue
        kva = np.array(kv)
        m = np.unique(kva)
        us = [(a + b) / 2 for a, b in zip(m[:-1], m[1:])][:2] + [float(m[0] + (m[1] - m[0]) * 1e-3), float(np.nextafter(m[-1], -np.inf))]
        # existing interior knots whose multiplicity is still < p
        us += [float(t) for t in m[1:-1] if np.sum(kva == t) < max(p, 1)][:2]
        us.append(float(m[0]))
        for u in us:
            yield 'insert', {'p': p, 'kv': kv, 'u': u}
        if p <= 5 and n % 2 == 0:
            yield 'prolong', {'p': p, 'kv': kv, 'new': 'uniform'}
            new = [(m[0] * 2 + m[1]) / 3] + [float(t) for t in m[1:-1] if np.sum(kva == t) < max(p, 1)][:1]
            yield 'prolong', {'p': p, 'kv': kv, 'new': new}
    # the smallest spaces (one or two basis functions), always
    for p, kv in ((0, [0.0, 1.0]), (0, [0.0, 0.5, 1.0]), (1, [0.0, 0.0, 1.0, 1.0]), (0, [2.0, 5.0])):
        yield 'prolong', {'p': p, 'kv': kv, 'new': 'uniform'}
        yield 'prolong', {'p': p, 'kv': kv, 'new': [kv[0] + 0.3 * (kv[-1] - kv[0])]}
        yield 'prolong', {'p': p, 'kv': kv, 'new': [kv[0] + 0.3 * (kv[-1] - kv[0]), kv[0] + 0.8 * (kv[-1] - kv[0])]}
    # ---- THB virtual-hierarchy prolongators: a fixed, deterministic list of histories (exhaustive 1D, depth <= 3, single marked cells and pairs)
    det = hgen.enumerate_histories({'dim': 1, 'n': 2, 'p': 1}, 3, max_subset=2, cap=None, rng=None)
    for k, h in enumerate(det):
        if k % 5 == 0:      # the same list in both tiers (failures here are listed one by one in known_findings.json)
            yield 'virtual_thb', {'spec': dict(h, p=1 + k % 3, disparity=['inf', 1, 2][k % 3])}
    yield 'virtual_thb', {'spec': {'dim': 2, 'n': 2, 'p': 2, 'disparity': 'inf', 'history': [{'0': [[0, 0]]}, {'1': [[0, 0], [1, 1]]}]}}
    yield 'virtual_thb', {'spec': {'dim': 2, 'n': 2, 'p': 1, 'disparity': 'inf', 'history': [{'0': [[0, 0]]}, {'1': [[1, 1]]}, {'2': [[2, 2], [3, 3]]}]}}
    # ---- hierarchical spaces
    configs = [{'p': p, 'disparity': d} for p in (1, 2, 3) for d in ('inf', 1, 2)]
    k = 0
    for ncoarse in (2, 3):
        for h in hgen.enumerate_histories({'dim': 1, 'n': ncoarse, 'p': 1}, 3 if not quick or ncoarse == 2 else 2, max_subset=2, cap=8, rng=rng):
            k += 1
            if quick and k % 4:
                continue
            cfg = configs[k % len(configs)]
            spec = dict(h, **cfg)
            H = len(spec['history'])
            yield 'represent', {'spec': spec}
            yield 'represent_lv', {'spec': spec}
            yield 'virtual', {'spec': spec}
            if H >= 2:
                yield 'adaptive', {'spec': spec}
            for a in range(H + 1):
                for b in range(a, H + 1):
                    yield 'prolongate_to', {'spec': spec, 'k': a, 'm': b}
    for j in range(12 if quick else 80):
        dim = 2
        base = {'dim': dim, 'n': 2 + j % 2, 'p': 1 + j % 2}
        h = hgen.random_history(base, 2 + j % 2, rng, multi_level=bool(j % 3 == 0))
        cfg = configs[j % len(configs)]
        spec = dict(h, p=min(cfg['p'], 2), disparity=cfg['disparity'])
        H = len(spec['history'])
        yield 'represent', {'spec': spec}
        yield 'represent_lv', {'spec': spec}
        yield 'virtual', {'spec': spec}
        yield 'prolongate_to', {'spec': spec, 'k': 0, 'm': H}
        yield 'prolongate_to', {'spec': spec, 'k': 1, 'm': H}
        yield 'adaptive', {'spec': spec}
        for bd in ([0, 0], [1, 1]):
            yield 'boundary', {'spec': spec, 'bdspec': bd}
    # anisotropic spaces (different degree, span count and breakpoints per axis): boundary restriction on every face, transfers
    aniso = [{'dim': 2, 'n': [2, 3], 'p': [1, 2], 'breaks': [[0.0, 0.4, 1.0], [0.0, 0.25, 0.6, 1.0]]},
             {'dim': 2, 'n': [3, 2], 'p': [2, 1], 'breaks': [[0.0, 0.3, 0.7, 1.0], [0.0, 0.5, 1.0]]},
             {'dim': 2, 'n': [2, 2], 'p': [2, 2], 'breaks': [[0.0, 0.35, 1.0], [0.0, 0.6, 1.0]]}]
    if not quick:
        aniso.append({'dim': 3, 'n': [2, 2, 2], 'p': [1, 2, 1], 'breaks': [[0.0, 0.4, 1.0], [0.0, 0.5, 1.0], [0.0, 0.7, 1.0]]})
    for j, base in enumerate(aniso):
        for r in range(2):
            h = hgen.random_history(dict(base, disparity=['inf', 1][r]), 2, rng, multi_level=False)
            for ax in range(base['dim']):
                for side in (0, 1):
                    yield 'boundary', {'spec': h, 'bdspec': [ax, side]}
            yield 'represent', {'spec': h}
            yield 'prolongate_to', {'spec': h, 'k': 0, 'm': 2}
            yield 'virtual', {'spec': h}
    # almost global refinement (few coarse functions survive: represent_fine takes its row-restricted branch), all levels and row selections
    for base, steps, leave in (({'dim': 1, 'n': 4, 'p': 2}, 2, (1, 2)), ({'dim': 1, 'n': 4, 'p': 1}, 3, (1, 2, 3)), ({'dim': 1, 'n': 6, 'p': 3}, 2, (1, 2)),
                               ({'dim': 2, 'n': 3, 'p': 1}, 2, (1, 1)), ({'dim': 2, 'n': 4, 'p': 2}, 2, (1, 2)), ({'dim': 1, 'n': 5, 'p': 2, 'disparity': 1}, 3, (1, 2, 4))):
        h = _near_global(base, steps, leave)
        yield 'represent', {'spec': h}
        yield 'represent_lv', {'spec': h}
        yield 'virtual', {'spec': h}
    for j in range(10 if quick else 60):
        d = [2, 1, 'inf'][j % 3]
        base = {'dim': 1, 'n': 3, 'p': 1 + j % 3, 'disparity': d}
        h = hgen.random_history(base, 4 + j % 3, rng, multi_level=False, finest_bias=0.8)
        H = len(h['history'])
        yield 'virtual', {'spec': h}
        yield 'represent', {'spec': h}
        yield 'adaptive', {'spec': h}
        for a in (0, 1, H // 2):
            yield 'prolongate_to', {'spec': h, 'k': a, 'm': H}
    for j in range(10 if quick else 60):
        base = {'dim': 1 + j % 2, 'n': 3, 'p': 1 + j % 2, 'disparity': ['inf', 1][j % 2]}
        h = hgen.random_history(base, 4, rng, multi_level=False)
        yield 'adaptive', {'spec': h}
    if not quick:
        for j in range(6):
            h = hgen.random_history({'dim': 3, 'n': 2, 'p': 1 + j % 2}, 2, rng, multi_level=False)
            yield 'represent', {'spec': h}
            yield 'virtual', {'spec': h}
            yield 'prolongate_to', {'spec': h, 'k': 0, 'm': 2}


if __name__ == '__main__':
    import sys
    common.main(sys.modules[__name__])
