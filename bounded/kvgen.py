"""Enumerations of knot vectors shared by the bounded modules."""
import itertools

import numpy as np


BREAKSETS = [
    [0.0, 1.0],
    [0.0, 0.5, 1.0],
    [0.0, 1 / 3, 1.0],
    [0.0, 0.125, 1.0, 3.0],
    [-1.0, 0.0, 1e-6, 1.0],
    [0.0, 1.0, 3.0, 1e6],
    [0.1, 0.2, 0.30000000000000004, 0.9],
    [0.0, 0.25, 0.5, 0.75, 1.0],
    [0.0, 1e-13, 1e-6, 1.0],
]


def knotvec_arrays(pmax=4, max_break=4, breaksets=None, allow_p1_mult=False):
    """yield (p, kv list) for all interior multiplicity vectors 1..max(1,p) over the break sets"""
    for p in range(0, pmax + 1):
        for br in (breaksets or BREAKSETS):
            if len(br) > max_break + 1:
                continue
            ni = len(br) - 2
            mmax = max(1, p)
            for mults in itertools.product(range(1, mmax + 1), repeat=ni):
                kv = [br[0]] * (p + 1)
                for b, m in zip(br[1:-1], mults):
                    kv += [b] * m
                kv += [br[-1]] * (p + 1)
                yield p, kv


def eval_points(kv):
    """knots, both ends, midpoints, adjacent doubles of knots (inside the domain)"""
    kv = np.asarray(kv, dtype=float)
    a, b = kv[0], kv[-1]
    mesh = np.unique(kv)
    pts = set(mesh.tolist())
    for x in mesh:
        for y in (np.nextafter(x, -np.inf), np.nextafter(x, np.inf)):
            if a <= y <= b:
                pts.add(float(y))
    for x, y in zip(mesh[:-1], mesh[1:]):
        pts.add(float((x + y) / 2))
        pts.add(float(x + (y - x) * 0.001))
    return sorted(pts)
