"""C06 bounded tier: finalize() preserves the numeric value of every enumerated form and all of its one-token neighbours
(real vform.py of the scratch build; undefined functions instantiated by random polynomials, exact rational evaluation)."""
import random

from . import common, formgen

COVERS = ['*']
PROCS = 16
DOMAIN = {'quick': '42 enumerated forms and all their valid one-token neighbours (about 150 forms: mass/stiffness/convection/vector/curl/boundary/surface/'
                   'space-time/Hessian forms, parametric and physical fields), 2 random polynomial instantiations of basis functions, fields and geometry each',
          'thorough': 'same forms, 5 instantiations each'}
RULE = 'case = (form spec, seed); distinct by spec and seed; before/after denotations evaluated on the same random jets'


def chk_value(c):
    import sympy as sp
    from pyiga import vform as m
    from pyvc.exprsem import Sem, numeric_eval
    spec = c['spec']
    V1 = formgen.build(spec, vform=m)
    S1 = Sem(V1, m)
    before = [S1.den(e) for e in V1.exprs]
    V2 = formgen.build(spec, vform=m)
    V2.finalize()
    S2 = Sem(V2, m)
    after = [S2.den(e) for e in V2.exprs]
    assert len(before) == len(after)
    for b, a in zip(before, after):
        d = sp.Matrix(b) - sp.Matrix(a) if isinstance(b, sp.MatrixBase) else sp.Matrix([b - a])
        refs = sp.Matrix(b) if isinstance(b, sp.MatrixBase) else sp.Matrix([b])
        for k, x in enumerate(d):
            rng = random.Random(c['seed'])
            val = numeric_eval(x, rng)
            rng = random.Random(c['seed'])
            ref = numeric_eval(refs[k], rng)
            assert val is not None, 'could not evaluate'
            assert abs(val) <= 1e-9 * max(1.0, abs(ref or 0.0)), 'finalize changed the value of entry %d by %g (reference %g)' % (k, val, ref or 0.0)


CHECKS = {'value': chk_value}


def generate(tier, rng):
    from pyiga import vform as m
    specs = formgen.base_forms()
    seen = {repr(s) for s in specs}
    allspecs = list(specs)
    for s in specs:
        for desc, nb in formgen.neighbours(s):
            if repr(nb) in seen:
                continue
            seen.add(repr(nb))
            try:
                formgen.build(nb, vform=m).finalize()
            except Exception:
                continue
            allspecs.append(nb)
    for s in allspecs:
        for seed in range(2 if tier == 'quick' else 5):
            yield 'value', {'spec': s, 'seed': seed}


if __name__ == '__main__':
    import sys
    common.main(sys.modules[__name__])
