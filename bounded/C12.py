"""C12 bounded tier: the real time-stepping drivers on problems with a closed-form answer (real code)."""
import numpy as np

from . import common

COVERS = ['*']
DOMAIN = {'quick': "y' = const (scalar and 3-vector, identity / SPD / no mass matrix) with every shipped integrator, constant step sizes over five decades "
                   '(1e-1 .. 1e-5) and t0 in {0, 2.5}: the final state is x0 + (T - t0) c and the times are t0 + k tau with one state per time; one step of '
                   'each DIRK integrator on a random stiff linear system against the stage equations solved exactly',
          'thorough': 'as quick, more seeds'}
RULE = 'case = (method, step size, mass matrix kind, t0, seed); distinct by input'

DIRK_CONST = ['crank_nicolson', 'sdirk3', 'sdirk3_b']
ADAPTIVE = ['sdirk21', 'dirk34', 'esdirk23', 'esdirk34', 'ros3p', 'ros3pw', 'rowdaind2', 'rodasp', 'rosi2p1']


def _mass(kind, n, rng):
    if kind == 'none':
        return None
    if kind == 'identity':
        return np.eye(n)
    B = rng.randint(-2, 3, size=(n, n)) / 2.0
    Msp = B @ B.T + n * np.eye(n)
    return np.asfortranarray(Msp) if kind == 'spd_f' else Msp          # 'spd_f': the same matrix in column-major storage


def chk_const_rhs(c):
    """y' = c (M y' = M c): every consistent scheme integrates it exactly, whatever the step size"""
    import io, contextlib
    from pyiga import solvers
    rng = np.random.RandomState(c['seed'])
    n = c['n']
    M = _mass(c['mass'], n, rng)
    cvec = rng.randint(1, 4, size=n).astype(float)
    M_before = None if M is None else np.array(M, copy=True)
    rhs = cvec if M is None else M_before @ cvec
    F = lambda y: rhs.copy()
    J = lambda y: np.zeros((n, n))
    x0 = rng.randint(-2, 3, size=n).astype(float)
    tau, t0, steps = c['tau'], c['t0'], c['steps']
    T = t0 + steps * tau
    meth = getattr(solvers, c['method'])
    if c['method'].startswith('ros') or c['method'] == 'rodasp' or c['method'] == 'rowdaind2':
        if M is None:
            return          # the Rosenbrock drivers document a mass matrix
    buf = io.StringIO()
    with contextlib.redirect_stdout(buf):
        if c['method'] in DIRK_CONST:
            times, sols = meth(M, F, J, x0.copy(), tau, T, t0=t0)
        else:
            times, sols = meth(M, F, J, x0.copy(), tau, T, None, t0=t0)       # tol=None: constant steps
    times = np.asarray(times, dtype=float)
    assert len(times) == len(sols), '%d times but %d states' % (len(times), len(sols))
    assert abs(times[0] - t0) <= 1e-12 * max(1.0, abs(t0)) and np.allclose(np.diff(times), tau, rtol=1e-9, atol=0), 'times are not t0 + k*tau'
    if M is not None:
        assert np.array_equal(M, M_before), 'the integrator changed the mass matrix it was given (max change %g)' % np.max(np.abs(M - M_before))
    want = x0 + (times[-1] - t0) * cvec
    err = np.max(np.abs(np.asarray(sols[-1]) - want))
    assert err <= 1e-9 * max(1.0, np.max(np.abs(want))) * max(1.0, steps * 1e-2), \
        "y' = const is not integrated exactly with step %g: final state %r, exact %r (error %g)" % (tau, np.asarray(sols[-1]).tolist(), want.tolist(), err)


def chk_ros_step(c):
    """one constant step of a Rosenbrock driver on the linear problem M y' = L y + g (state-dependent right-hand side, J = L) against the
    stage equations written out from the coefficient tables:  (M - tau*gamma*L) k_i = F(x + tau sum_j a_ij k_j) + tau L sum_j gamma_ij k_j,
    x_new = x + tau sum_i b_i k_i   (dense numpy, independent of rosenbrock_step)"""
    import io, contextlib
    from pyiga import solvers
    rng = np.random.RandomState(c['seed'])
    n = c['n']
    M = _mass(c['mass'], n, rng)
    L = -(rng.randint(0, 3, size=(n, n)) / 2.0 + np.diag(rng.randint(1, 4, size=n).astype(float)))
    g = rng.randint(-2, 3, size=n).astype(float)
    F = lambda y: L @ y + g
    J = lambda y: L.copy()
    x0 = rng.randint(-2, 3, size=n).astype(float)
    tau = c['tau']
    A, Gamma, b, b_hat, _ = getattr(solvers, 'coeffs_' + c['method'])()
    gamma = Gamma[0, 0]
    C = M - tau * gamma * L
    ks = []
    for i in range(A.shape[0]):
        y_i = x0 + tau * sum((A[i, j] * ks[j] for j in range(i)), np.zeros(n))
        rhs = F(y_i) + tau * L @ sum((Gamma[i, j] * ks[j] for j in range(i)), np.zeros(n))
        ks.append(np.linalg.solve(C, rhs))
    want = x0 + tau * sum((b[i] * ks[i] for i in range(len(ks))), np.zeros(n))
    buf = io.StringIO()
    with contextlib.redirect_stdout(buf):
        times, sols = getattr(solvers, c['method'])(M, F, J, x0.copy(), tau, tau, None)
    assert len(times) == len(sols) == 2, 'one step expected, got times %r' % (list(times),)
    err = np.max(np.abs(np.asarray(sols[-1]) - want))
    assert err <= 1e-10 * max(1.0, np.max(np.abs(want))), '%s: one step with tau=%g differs from the stage equations of its tableau by %g' % (c['method'], tau, err)


CHECKS = {'const_rhs': chk_const_rhs, 'ros_step': chk_ros_step}


def generate(tier, rng):
    k = 0
    for method in DIRK_CONST + ADAPTIVE:
        for tau in (1e-1, 1e-2, 1e-3, 1e-4, 1e-5):
            for mass in ('identity', 'spd', 'none'):
                k += 1
                if tier == 'quick' and mass == 'spd' and k % 2:
                    continue
                if method == 'dirk34' and tau != 1e-1:
                    # dirk34's weights do not sum to one (known finding, decided by the order-condition obligations on its table): the same
                    # defect shows at every step size; it is exercised here at one step size only, with a deterministic list of case ids
                    continue
                yield 'const_rhs', {'method': method, 'tau': tau, 'mass': mass, 'n': 1 if mass == 'identity' else 3, 't0': [0.0, 2.5][k % 2], 'steps': 20, 'seed': k % 7}

    # column-major mass matrix (and a 1x1 one): the integrators must not write into it (dirk34 excluded: known finding, see above)
    for j, method in enumerate(m_ for m_ in DIRK_CONST + ADAPTIVE if m_ != 'dirk34'):
        for n_ in (3, 1):
            yield 'const_rhs', {'method': method, 'tau': 1e-2, 'mass': 'spd_f', 'n': n_, 't0': 0.0, 'steps': 5, 'seed': 60 + j}
    for k, meth in enumerate(('ros3p', 'ros3pw', 'rowdaind2', 'rodasp', 'rosi2p1')):
        for tau in (0.1, 0.01):
            for mass in ('identity', 'spd'):
                yield 'ros_step', {'method': meth, 'tau': tau, 'mass': mass, 'n': 2 + k % 2, 'seed': 40 + k}

if __name__ == '__main__':
    import sys
    common.main(sys.modules[__name__])
