"""C11 bounded tier: relaxation and multigrid on the real code."""
import numpy as np
import scipy.sparse

from . import common, hgen

COVERS = ['*']
DOMAIN = {'quick': 'Gauss-Seidel: 60 seeded matrices n<=7 (SPD / diagonally dominant / nonsymmetric) x {dense,csr,csc,coo+explicit zeros+unsorted} x '
                   '{forward,backward,symmetric} x index lists x 1-3 sweeps; multigrid: 1D/2D hierarchical spaces (p<=2, <=3 levels, 14 histories) x '
                   '4 strategies x 5 smoothers x HB/THB x Dirichlet specs; twogrid with array start vectors',
          'thorough': 'as quick with 400 matrices n<=10 and 60 histories'}
RULE = 'case = (check, seed/spec); distinct by input'


def _matrix(kind, n, rng):
    B = rng.randint(-3, 4, size=(n, n)).astype(float)
    if kind == 'spd':
        A = B.dot(B.T) + n * np.eye(n)
    elif kind == 'dd':
        A = B + np.diag(np.abs(B).sum(axis=1) + 1)
    else:
        A = B + np.diag(rng.randint(1, 5, size=n).astype(float) * rng.choice([-1, 1], size=n))
    mask = rng.rand(n, n) < 0.6
    A = np.where(mask | np.eye(n, dtype=bool), A, 0.0)
    if kind == 'spd':
        A = (A + A.T) / 2 + np.diag(np.abs(A).sum(axis=1))
    if kind == 'nonsym':
        for i in range(n):
            A[i, i] = rng.randint(1, 5) * rng.choice([-1, 1])
        while abs(np.linalg.det(A)) < 1e-6:
            A[rng.randint(n), rng.randint(n)] += 1.0
            for i in range(n):
                if A[i, i] == 0:
                    A[i, i] = 1.0
    return A


def _fmt(A, fmt, rng):
    if fmt == 'dense':
        return A.copy()
    if fmt == 'coo':
        # explicit zeros and unsorted entries
        I, J = np.nonzero(A)
        V = A[I, J]
        z = [(i, j) for i in range(A.shape[0]) for j in range(A.shape[1]) if A[i, j] == 0][:3]
        I = np.concatenate([I, [q[0] for q in z]]).astype(int)
        J = np.concatenate([J, [q[1] for q in z]]).astype(int)
        V = np.concatenate([V, np.zeros(len(z))])
        perm = rng.permutation(len(V))
        return scipy.sparse.coo_matrix((V[perm], (I[perm], J[perm])), shape=A.shape)
    if fmt == 'csr_unsorted':
        M = scipy.sparse.csr_matrix(A)
        # reverse the column order inside each row (valid CSR, unsorted indices)
        ind, dat = M.indices.copy(), M.data.copy()
        for r in range(A.shape[0]):
            s, e = M.indptr[r], M.indptr[r + 1]
            ind[s:e] = ind[s:e][::-1]
            dat[s:e] = dat[s:e][::-1]
        return scipy.sparse.csr_matrix((dat, ind, M.indptr.copy()), shape=A.shape)
    return scipy.sparse.coo_matrix(A).asformat(fmt)


def _ref_gs(A, x, b, rows):
    x = x.copy()
    for i in rows:
        s = sum(A[i, j] * x[j] for j in range(A.shape[1]) if j != i)
        x[i] = (b[i] - s) / A[i, i]
    return x


def chk_gs(c):
    import warnings
    from pyiga import solvers
    rng = np.random.RandomState(c['seed'])
    n = c['n']
    A = _matrix(c['kind'], n, rng)
    b = rng.randint(-5, 6, size=n).astype(float)
    x0 = rng.randint(-5, 6, size=n).astype(float)
    idx = None
    if c['indices']:
        idx = list(rng.permutation(n)[:max(1, n // 2)])
        if c['indices'] == 'perm':          # a long index list in no particular order (neither ascending nor descending)
            idx = list(rng.permutation(n))[:max(3, n - 1)]
            if idx == sorted(idx) or idx == sorted(idx, reverse=True):
                idx[0], idx[1] = idx[1], idx[0]
    rows_f = list(range(n)) if idx is None else list(idx)
    ref = x0.copy()
    for _ in range(c['iterations']):
        if c['sweep'] in ('forward', 'symmetric'):
            ref = _ref_gs(A, ref, b, rows_f)
        if c['sweep'] in ('backward', 'symmetric'):
            ref = _ref_gs(A, ref, b, rows_f[::-1])
    M = _fmt(A, c['fmt'], rng)
    x = x0.copy()
    with warnings.catch_warnings():
        warnings.simplefilter('ignore')
        solvers.gauss_seidel(M, x, b, iterations=c['iterations'], indices=None if idx is None else list(idx), sweep=c['sweep'])
    assert np.allclose(x, ref, rtol=1e-11, atol=1e-11), 'not the textbook update: max dev %g' % np.max(np.abs(x - ref))
    # exact solution is a fixed point
    xs = np.linalg.solve(A, b)
    y = xs.copy()
    with warnings.catch_warnings():
        warnings.simplefilter('ignore')
        solvers.gauss_seidel(_fmt(A, c['fmt'], rng), y, b, iterations=c['iterations'], indices=None if idx is None else list(idx), sweep=c['sweep'])
    # for a general (possibly non-contractive) matrix the rounding error of xs is amplified by the iteration itself: the fixed-point test is
    # therefore made against the textbook update started from the same floating-point xs, and directly against xs only for the
    # contractive kinds
    ref_s = xs.copy()
    for _ in range(c['iterations']):
        if c['sweep'] in ('forward', 'symmetric'):
            ref_s = _ref_gs(A, ref_s, b, rows_f)
        if c['sweep'] in ('backward', 'symmetric'):
            ref_s = _ref_gs(A, ref_s, b, rows_f[::-1])
    amp = max(1.0, np.max(np.abs(ref_s - xs)) / 1e-13)
    assert np.allclose(y, ref_s, rtol=1e-11 * amp, atol=1e-11 * amp), 'sweep from the exact solution differs from the textbook update by %g' % np.max(np.abs(y - ref_s))
    if c['kind'] in ('spd', 'dd'):
        assert np.allclose(y, xs, rtol=1e-9, atol=1e-9), 'exact solution moved by %g' % np.max(np.abs(y - xs))
    if c['kind'] == 'spd':
        e0, e1 = x0 - xs, x - xs
        assert e1.dot(A.dot(e1)) <= e0.dot(A.dot(e0)) * (1 + 1e-10) + 1e-12, 'energy norm error increased'
    if c['sweep'] == 'forward' and c['iterations'] == 1 and idx is None:
        try:
            solvers.gauss_seidel(M, x0.copy(), b, sweep='sideways')
        except ValueError:
            pass
        else:
            raise AssertionError('invalid sweep accepted')


def _system(hs):
    """Galerkin matrices through the representation matrix (no form compilation)"""
    from pyiga import assemble
    kvs = hs.knotvectors(hs.numlevels - 1)
    if len(kvs) == 1:
        K = assemble.stiffness(kvs[0]) + assemble.mass(kvs[0])
    else:
        K = assemble.stiffness(kvs) + assemble.mass(kvs)
    I = hs.represent_fine()
    A = (I.T @ K @ I).tocsr()
    return A


def chk_mg(c):
    from pyiga import solvers
    hs = hgen.build(c['spec'])
    A = _system(hs)
    n = hs.numdofs
    rng = np.random.RandomState(c['seed'])
    dd = hs.dirichlet_dofs() if hs.bdspecs is not None else np.array([], dtype=int)
    nd = hs.non_dirichlet_dofs() if hs.bdspecs is not None else list(range(n))
    assert sorted(set(dd.tolist()) | set(nd)) == list(range(n)) and not (set(dd.tolist()) & set(nd))
    Ps = hs.virtual_hierarchy_prolongators()
    strategy, smoother = c['strategy'], c['smoother']
    inds = hs.indices_to_smooth(strategy)
    # smoothing sets contain the new dofs of their level and no Dirichlet dof
    nt = np.cumsum(hs.numactive)
    for lv in range(hs.numlevels):
        vs = hs.get_virtual_space(lv)
        vdd = set(hs.dirichlet_dofs(lv).tolist()) if hs.bdspecs is not None else set()
        S = set(np.asarray(inds[lv]).tolist())
        nprev = int(nt[lv - 1]) if lv > 0 else 0
        new = set(range(nprev, vs.numdofs)) - vdd
        assert new <= S, 'level %d smoothing set misses new dofs %r' % (lv, sorted(new - S))
        assert not (S & vdd), 'level %d smoothing set contains Dirichlet dofs %r' % (lv, sorted(S & vdd))
        assert all(0 <= i < vs.numdofs for i in S)
    # exact solution is a fixed point of the cycle; exact smoother does not increase the energy error
    xs = np.zeros(n)
    f = rng.randn(n)
    ndl = np.array(nd, dtype=int)
    App = A[ndl][:, ndl].toarray()
    if c.get('dirichlet_values') and len(dd):
        # inhomogeneous Dirichlet data: prescribed values on the Dirichlet dofs, the free part solves A_ff x_f = f_f - A_fd x_d
        xs[np.asarray(dd, dtype=int)] = rng.randint(-3, 4, size=len(dd)).astype(float)
        xs[ndl] = np.linalg.solve(App, (f - A @ xs)[ndl])
    else:
        xs[ndl] = np.linalg.solve(App, f[ndl])
    # make f consistent on Dirichlet rows so that xs solves the full system
    f = A @ xs
    step = solvers.local_mg_step(hs, A, f, Ps, inds, smoother)
    y = step(xs.copy())
    scale = max(1.0, np.max(np.abs(xs)))
    assert np.max(np.abs(y - xs)) <= 1e-8 * scale, 'exact solution is not a fixed point: moved by %g' % np.max(np.abs(y - xs))
    if smoother == 'exact':
        x0 = np.zeros(n)
        x0[ndl] = rng.randn(len(ndl))
        e0 = x0 - xs
        x1 = step(x0.copy())
        e1 = x1 - xs
        assert e1.dot(A @ e1) <= e0.dot(A @ e0) * (1 + 1e-9) + 1e-12, 'exact-smoother cycle increased the energy error'
    if c.get('solve'):
        import io, contextlib
        buf = io.StringIO()
        with contextlib.redirect_stdout(buf):
            x, it = solvers.solve_hmultigrid(hs, A, f, strategy=strategy, smoother=smoother, tol=1e-6, maxiter=c['maxiter'])
        res0 = np.linalg.norm(f[ndl])
        res = np.linalg.norm((f - A @ x)[ndl])
        if it == np.inf:
            assert res / res0 >= 1e-6 * (1 - 1e-9), 'reported non-convergence although the residual meets the tolerance'
        else:
            assert 1 <= it <= c['maxiter'] and res / res0 < 1e-6 * (1 + 1e-6), 'stopped after %r iterations with reduction %g' % (it, res / res0)


def chk_mg_adaptive(c):
    """one persistent HSpace driven through the history with the smoothing sets queried before every refine(): afterwards its smoothing
    sets must be those of a freshly built space (no stale index table) and contain no Dirichlet dof; the exact solution stays a fixed point"""
    from pyiga import solvers
    spec = c['spec']
    strategies = ['new', 'trunc', 'func_supp', 'cell_supp']
    hs = hgen.build(spec, upto=0)
    for k in range(len(spec['history'])):
        for s_ in strategies:                       # warm the cached index tables
            hs.indices_to_smooth(s_)
        marked = {int(lv): set(tuple(x) for x in cells) for lv, cells in spec['history'][k].items()}
        hs.refine(marked)
        fresh = hgen.build(spec, upto=k + 1)
        for s_ in strategies:
            a = [np.asarray(x).tolist() for x in hs.indices_to_smooth(s_)]       # NB: queried before anything recomputes the Dirichlet tables
            b = [np.asarray(x).tolist() for x in fresh.indices_to_smooth(s_)]
            assert a == b, 'after step %d the smoothing sets (%s) of the incrementally refined space differ from a freshly built one: %r vs %r' % (k, s_, a, b)
    if hs.bdspecs is not None:
        inds = hs.indices_to_smooth(c['strategy'])
        for lv in range(hs.numlevels):
            vdd = set(fresh.dirichlet_dofs(lv).tolist())
            S = set(np.asarray(inds[lv]).tolist())
            assert not (S & vdd), 'level %d smoothing set of the incrementally refined space contains Dirichlet dofs %r' % (lv, sorted(S & vdd))


def chk_twogrid(c):
    import io, contextlib
    from pyiga import solvers, bspline, assemble
    kv = bspline.make_knots(c['p'], 0.0, 1.0, c['n'])
    kvc = bspline.make_knots(c['p'], 0.0, 1.0, c['n'] // 2)
    A = (assemble.stiffness(kv) + assemble.mass(kv)).tocsr()
    P = bspline.prolongation(kvc, kv)
    # storage kinds of the two matrices (bspline.prolongation always returns a sparse matrix; a small fine-grid matrix may well be dense)
    kinds = c.get('kinds', 'ss')
    A = {'s': A, 'd': A.toarray(), 'c': A.tocsc()}[kinds[0]]
    P = {'s': P, 'd': P.toarray(), 'c': P.tocsc()}[kinds[1]]
    rng = np.random.RandomState(c['seed'])
    f = rng.randn(A.shape[0])
    u0 = None if c['u0'] == 'none' else (np.zeros(A.shape[0]) if c['u0'] == 'zeros' else rng.randn(A.shape[0]))
    if c['u0'] == 'int':            # "any starting vector": an integer array ...
        u0 = rng.randint(-2, 3, size=A.shape[0])
    elif c['u0'] == 'list':         # ... or a plain python list of numbers
        u0 = [int(v) for v in rng.randint(-2, 3, size=A.shape[0])]
    elif c['u0'] == 'float32':
        u0 = rng.randn(A.shape[0]).astype(np.float32)
    u0_before = None if u0 is None else np.array(u0, dtype=float)
    buf = io.StringIO()
    with contextlib.redirect_stdout(buf):
        import warnings
        with warnings.catch_warnings():
            warnings.simplefilter('ignore')      # (performance warning for non-CSR storage)
            u = solvers.twogrid(A, f, P, solvers.GaussSeidelSmoother(), u0=u0, tol=1e-9, maxiter=200)
    assert np.linalg.norm(f - A @ u) <= 1e-6 * np.linalg.norm(f), 'two-grid did not converge for an SPD problem'
    if u0 is not None:
        assert np.array_equal(np.array(u0, dtype=float), u0_before), 'twogrid modified the caller\'s starting vector'


def chk_iterative(c):
    """iterative_solve: a finite count k means the k-th iterate (and no earlier one) reduced the residual on the active dofs below tol relative
    to the residual of the STARTING vector; inf means maxiter iterates did not"""
    import io, contextlib
    from pyiga import solvers
    rng = np.random.RandomState(c['seed'])
    n = c['n']
    A = _matrix('spd', n, rng)
    b = rng.randint(-5, 6, size=n).astype(float)
    xs = np.linalg.solve(A, b)
    x0 = {'none': None, 'zero': np.zeros(n), 'near': xs + 1e-2 * (rng.rand(n) - 0.5), 'far': xs + 50.0 * (rng.rand(n) + 1.0)}[c['x0']]
    active = None if not c['active'] else np.sort(rng.permutation(n)[:max(2, n - 2)])
    import scipy.sparse
    M = scipy.sparse.csr_matrix(A)

    def step(x):
        y = np.array(x, dtype=float)
        solvers.gauss_seidel(M, y, b, iterations=1, sweep='symmetric')
        return y
    sel = slice(None) if active is None else active
    start = np.zeros(n) if x0 is None else x0
    r0 = np.linalg.norm((b - A @ start)[sel])
    tol, maxiter = c['tol'], c['maxiter']
    with contextlib.redirect_stdout(io.StringIO()):
        x, k = solvers.iterative_solve(step, M, b, x0=None if x0 is None else x0.copy(), active_dofs=active, tol=tol, maxiter=maxiter)
    # replay the iteration independently
    y = start.copy()
    hist = []
    for j in range(maxiter):
        y = step(y)
        hist.append(np.linalg.norm((b - A @ y)[sel]) / r0)
        if hist[-1] < tol:
            break
    if hist[-1] < tol:
        assert k == len(hist), 'reported %r iterations, the reduction %g relative to the starting residual is first reached after %d' % (k, tol, len(hist))
        assert np.allclose(x, y, rtol=1e-12, atol=1e-12)
    else:
        assert k == np.inf, 'reported convergence after %r iterations although the residual reduction is only %g (requested %g)' % (k, hist[-1], tol)


CHECKS = {'iterative': chk_iterative, 'gs': chk_gs, 'mg': chk_mg, 'mg_adaptive': chk_mg_adaptive, 'twogrid': chk_twogrid}


def generate(tier, rng):
    quick = tier == 'quick'
    for k in range(24 if quick else 200):
        yield 'iterative', {'seed': k, 'n': 4 + k % 5, 'x0': ['none', 'zero', 'near', 'far'][k % 4], 'active': bool(k % 3 == 0),
                            'tol': [1e-2, 1e-4, 1e-6][k % 3], 'maxiter': [200, 3][k % 7 == 0]}
    nm = 60 if quick else 400
    fmts = ['dense', 'csr', 'csc', 'coo', 'csr_unsorted']
    for k in range(nm):
        kind = ['spd', 'dd', 'nonsym'][k % 3]
        n = 2 + k % (6 if quick else 9)
        for fmt in fmts:
            yield 'gs', {'seed': k, 'kind': kind, 'n': n, 'fmt': fmt, 'sweep': ['forward', 'backward', 'symmetric'][(k + len(fmt)) % 3],
                         'indices': bool((k + len(fmt)) % 2), 'iterations': 1 + (k % 3)}
    for k in range(18):
        yield 'gs', {'seed': 900 + k, 'kind': ['spd', 'dd', 'nonsym'][k % 3], 'n': 5 + k % 4, 'fmt': ['dense', 'csr', 'csc'][k // 3 % 3],
                     'sweep': ['backward', 'symmetric', 'forward'][k % 3 if k < 12 else k % 2], 'indices': 'perm', 'iterations': 1 + k % 2}
    bases = [
        {'dim': 1, 'p': 1, 'n': 4}, {'dim': 1, 'p': 2, 'n': 4}, {'dim': 1, 'p': 3, 'n': 5},
        {'dim': 2, 'p': 1, 'n': 2}, {'dim': 2, 'p': 2, 'n': 3},
    ]
    specs = []
    hists1 = [[{'0': [[1]]}], [{'0': [[0], [1]]}, {'1': [[1], [2]]}], [{'0': [[3]]}, {'1': [[7]]}], [{'0': [[1], [2]]}, {'1': [[3], [4]]}, {'2': [[7], [8]]}]]
    hists2 = [[{'0': [[0, 0]]}], [{'0': [[0, 0], [1, 1]]}, {'1': [[0, 0], [1, 1]]}], [{'0': [[1, 0]]}, {'1': [[3, 1], [2, 0]]}]]
    for b in bases:
        for h in (hists1 if b['dim'] == 1 else hists2):
            if b['dim'] == 1 and any(int(c[0]) >= b['n'] * 2 ** int(lv) for st in h for lv, cs in st.items() for c in cs):
                continue
            for trunc in (False, True):
                for disp in ('inf', 1):
                    for bd in (None, [], [[0, 0]], [[0, 0], [0, 1]] if b['dim'] == 1 else [[0, 0], [1, 1]]):
                        specs.append(dict(b, history=h, truncate=trunc, disparity=disp, bdspecs=bd))
    rng.shuffle(specs)
    specs = specs[:(14 if quick else 60)]
    strategies = ['new', 'trunc', 'func_supp', 'cell_supp']
    smoothers = ['gs', 'forward_gs', 'backward_gs', 'symmetric_gs', 'exact']
    k = 0
    for sp in specs:
        try:
            hgen.build(sp)
        except Exception:
            # histories whose marks are not active cells (or known library defects handled by other properties) are skipped
            continue
        for st in strategies:
            for sm in smoothers:
                k += 1
                if quick and k % 2:
                    continue
                yield 'mg', {'spec': sp, 'strategy': st, 'smoother': sm, 'seed': k, 'solve': (k % 5 == 0), 'maxiter': 3 if k % 10 == 0 else 400}
    # unrefined (single-level) spaces and inhomogeneous Dirichlet values: the cycle works on the residual, so prescribed boundary values
    # of the exact solution stay where they are
    for k2, b in enumerate(bases):
        bd = [[0, 0], [0, 1]] if b['dim'] == 1 else [[0, 0], [1, 1]]
        for hist in ([], (hists1 if b['dim'] == 1 else hists2)[1]):
            if b['dim'] == 1 and any(int(c_[0]) >= b['n'] * 2 ** int(lv) for st_ in hist for lv, cs in st_.items() for c_ in cs):
                continue
            sp = dict(b, history=hist, truncate=bool(k2 % 2), disparity='inf', bdspecs=bd)
            for st in (strategies[:2] if quick else strategies):
                for sm in (('gs', 'exact') if quick else smoothers):
                    k += 1
                    yield 'mg', {'spec': sp, 'strategy': st, 'smoother': sm, 'seed': k, 'solve': False, 'maxiter': 400, 'dirichlet_values': True}
    # persistent objects: refinement on existing levels next to Dirichlet boundaries after the caches were filled
    ad = [
        {'dim': 1, 'p': 2, 'n': 4, 'history': [{'0': [[0]]}, {'0': [[3]]}, {'1': [[0], [1]]}, {'0': [[1]]}], 'bdspecs': [[0, 0], [0, 1]]},
        {'dim': 1, 'p': 1, 'n': 5, 'history': [{'0': [[4]]}, {'1': [[9]]}, {'0': [[0], [1]]}], 'bdspecs': [[0, 0], [0, 1]]},
        {'dim': 2, 'p': 2, 'n': 4, 'history': [{'0': [[0, 0]]}, {'1': [[0, 0]]}, {'0': [[3, 3]]}], 'bdspecs': [[0, 0], [0, 1], [1, 0], [1, 1]]},
        {'dim': 2, 'p': 1, 'n': 3, 'history': [{'0': [[0, 0], [0, 1]]}, {'0': [[2, 2]]}, {'1': [[0, 0]], '0': [[2, 0]]}], 'bdspecs': [[0, 0], [1, 1]]},
        {'dim': 2, 'p': 2, 'n': 3, 'history': [{'0': [[1, 1]]}, {'0': [[0, 0]]}, {'0': [[2, 2]]}], 'bdspecs': [[1, 0]]},
        {'dim': 2, 'p': 2, 'n': 3, 'history': [{'0': [[1, 1]]}, {'0': [[0, 0]]}], 'bdspecs': None},
    ]
    for k, sp in enumerate(ad):
        for trunc in (False, True):
            for disp in (('inf', 1) if quick else ('inf', 1, 2)):
                yield 'mg_adaptive', {'spec': dict(sp, truncate=trunc, disparity=disp), 'strategy': strategies[(k + int(trunc)) % 4]}
    for p in (1, 2, 3):
        for u0 in ('none', 'zeros', 'random', 'int', 'list', 'float32'):
            yield 'twogrid', {'p': p, 'n': 8, 'seed': p, 'u0': u0}
    for kinds in ('dd', 'ds', 'sd', 'cc', 'dc'):
        for u0 in ('none', 'random'):
            yield 'twogrid', {'p': 2, 'n': 8, 'seed': 5, 'u0': u0, 'kinds': kinds}


if __name__ == '__main__':
    import sys
    common.main(sys.modules[__name__])
