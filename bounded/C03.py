"""C03 bounded tier: hierarchical assembly is the level-wise Galerkin restriction of tensor-product assembly (real code).

Reference for entry (i,j), i = (level a, function f), j = (level b, function g), l = max(a,b):
    A_ref[i,j] = sum_{r,c} R_{a->l}[r,f] * A_l[r,c] * R_{b->l}[c,g]
with A_l the full tensor-product matrix of the form on level l (assembled by the non-hierarchical driver, i.e. with the
quadrature of the finer level) and R the tensor-product prolongation built here from bspline.prolongation per axis.
THB matrices are the congruence transform by thb_to_hb.  For polynomial integrands of degree <= 2p+1 the result must also
equal I^T A_fine I with the representation matrix of the basis on the finest level."""
import itertools

import numpy as np

from . import common, hgen

COVERS = ['*']
DOMAIN = {'quick': 'refinement histories: exhaustive 1D (2-3 coarse cells, <=3 calls, thinned), 2D 2x2/3x3 random and multi-level marks, random deep 1D; p 1-3, '
                   'disparity 1,2,inf, HB and THB, bdspecs None / [] / faces, symmetric flag on and off; forms: mass, stiffness (shipped vforms), '
                   'nonsymmetric convection-reaction with a parametric coefficient field, weighted mass with a physical field; functionals: L2 (physical f), '
                   'gradient functional; geometries: unit square/line, scaled+translated (affine), quarter annulus and a bump (non-affine)',
          'thorough': 'more histories, p up to 4, 3D'}
RULE = 'case = (history, configuration, form, geometry); distinct by input'
TOL = 1e-10


def _geo(name, dim):
    from pyiga import geometry, bspline, approx
    if name == 'unit':
        return geometry.unit_cube(dim=dim)
    if name == 'affine':
        g = geometry.unit_cube(dim=dim)
        return g.scale(tuple(1.5 + 0.5 * k for k in range(dim))).translate(tuple(0.25 * (k + 1) for k in range(dim)))
    if name == 'annulus' and dim == 2:
        return geometry.quarter_annulus()
    kv = bspline.make_knots(2, 0.0, 1.0, 2)
    if dim == 1:
        f = lambda x: np.stack((x + 0.2 * x * (1 - x),), axis=-1)
    else:
        f = lambda x, y: np.stack(np.broadcast_arrays(x + 0.1 * np.sin(2 * y) * x * (1 - x), y + 0.15 * x * y * (1 - y)), axis=-1)
    return bspline.BSplineFunc(dim * (kv,), approx.interpolate(dim * (kv,), f))


def _form(name, dim):
    """(vform, extra args, symmetric?, polynomial integrand on affine geometries?)"""
    from pyiga import vform
    from pyiga.vform import VForm, grad, inner, dx
    if name == 'mass':
        return vform.mass_vf(dim), {}, True, True
    if name == 'stiffness':
        return vform.stiffness_vf(dim), {}, True, True
    if name == 'convection':
        V = VForm(dim)
        u, v = V.basisfuns()
        b = V.input('b', shape=(dim,))
        V.add((inner(b, grad(u)) * v + 0.5 * u * v) * dx)
        bf = (lambda x: np.stack((1.0 + 0 * x,), axis=-1)) if dim == 1 else (lambda x, y: np.stack(np.broadcast_arrays(1.0 + 0 * x, -0.5 + 0 * y), axis=-1))
        return V, {'b': bf}, False, True
    if name == 'wmass':
        V = VForm(dim)
        u, v = V.basisfuns()
        f = V.input('f', physical=True)
        V.add(f * u * v * dx)
        ff = (lambda x: 1.0 + x) if dim == 1 else (lambda x, y: 1.0 + x + 0.5 * y)
        return V, {'f': ff}, True, True
    raise KeyError(name)


def _functional(name, dim):
    from pyiga import vform
    from pyiga.vform import VForm, grad, inner, dx
    if name == 'l2':
        ff = (lambda x: 1.0 + x) if dim == 1 else (lambda x, y: 1.0 + x - 0.5 * y)
        return vform.L2functional_vf(dim, physical=True), {'f': ff}
    V = VForm(dim, arity=1)
    v = V.basisfuns()
    g = V.input('g', physical=True)
    V.add(g * v.dx(0) * dx)
    gg = (lambda x: 2.0 - x) if dim == 1 else (lambda x, y: 2.0 - x + y)
    return V, {'g': gg}


def _tp_prolong(hs, a, l):
    """dense matrix representing level-a tensor-product functions in the level-l tensor-product basis (raveled)"""
    from pyiga import bspline
    import functools
    mats = []
    for ax in range(hs.dim):
        kva, kvl = hs.knotvectors(a)[ax], hs.knotvectors(l)[ax]
        mats.append(bspline.prolongation(kva, kvl).toarray() if a != l else np.eye(kva.numdofs))
    return functools.reduce(np.kron, mats)


def _hb_representation(hs, l):
    """columns: HB basis functions of levels <= l (canonical order, others zero) in the level-l TP basis"""
    cols = []
    for a in range(hs.numlevels):
        funcs = sorted(hs.actfun[a])
        shp = tuple(kv.numdofs for kv in hs.knotvectors(a))
        if a <= l:
            R = _tp_prolong(hs, a, l)
            idx = [np.ravel_multi_index(f, shp) for f in funcs]
            cols.append(R[:, idx] if idx else np.zeros((R.shape[0], 0)))
        else:
            nl = int(np.prod([kv.numdofs for kv in hs.knotvectors(l)]))
            cols.append(np.zeros((nl, len(funcs))))
    return np.hstack(cols)


def _thb_to_hb_by_definition(hs):
    """THB -> HB coefficient transform from the DEFINITION of truncation, independent of represent_fine / truncate_one_level / thb_to_hb:
    a function of level a is carried to level a+1, a+2, ... by tensor-product knot insertion, and on every level k its coefficients with
    respect to the level-k functions that are active or deactivated (i.e. lie in the level-k space) are dropped.  T solves I_hb T = I_thb
    on the finest level (least squares; I_hb has full column rank, the residual is asserted to vanish)."""
    L = hs.numlevels
    step = [_tp_prolong(hs, k, k + 1) for k in range(L - 1)]
    shp = [tuple(kv.numdofs for kv in hs.knotvectors(k)) for k in range(L)]
    drop = [np.array(sorted(int(np.ravel_multi_index(f, shp[k])) for f in (set(hs.actfun[k]) | set(hs.deactfun[k]))), dtype=int) for k in range(L)]
    hb, thb = [], []
    for a in range(L):
        for f in sorted(hs.actfun[a]):
            e = np.zeros(int(np.prod(shp[a])))
            e[np.ravel_multi_index(f, shp[a])] = 1.0
            ch, ct = e, e
            for k in range(a + 1, L):
                ch = step[k - 1] @ ch
                ct = step[k - 1] @ ct
                ct[drop[k]] = 0.0
            hb.append(ch)
            thb.append(ct)
    I_hb, I_thb = np.array(hb).T, np.array(thb).T
    T, *_ = np.linalg.lstsq(I_hb, I_thb, rcond=None)
    assert np.abs(I_hb @ T - I_thb).max() <= 1e-10, 'oracle: truncated functions outside the span of the hierarchical basis'
    return T


def _reference(hs, vf, args, geo, arity=2):
    from pyiga import assemble
    L = hs.numlevels
    lev = np.concatenate([np.full(len(hs.actfun[a]), a) for a in range(L)]).astype(int)
    n = hs.numdofs
    ref = np.zeros((n, n)) if arity == 2 else np.zeros(n)
    for l in range(L):
        kvs = hs.knotvectors(l)
        A_l = assemble.assemble(vf, kvs, geo=geo, **args)
        R = _hb_representation(hs, l)
        if arity == 2:
            B = R.T @ (A_l @ R)
            mask = np.maximum.outer(lev, lev) == l
            ref[mask] = B[mask]
        else:
            b = R.T @ np.asarray(A_l).ravel()
            ref[lev == l] = b[lev == l]
    return ref


def _close(A, B, what, tol=TOL):
    A = A.toarray() if hasattr(A, 'toarray') else np.asarray(A)
    B = np.asarray(B)
    assert A.shape == B.shape, '%s: shape %r vs %r' % (what, A.shape, B.shape)
    scale = max(1.0, np.abs(B).max())
    err = np.abs(A - B)
    k = np.unravel_index(np.argmax(err), err.shape)
    assert err.max() <= tol * scale, '%s: max difference %g at entry %r (reference %g, got %g)' % (what, err.max(), tuple(int(x) for x in k), B[k], A[k])


def chk_matrix(c):
    from pyiga import hierarchical, assemble
    spec = c['spec']
    hs = hgen.build(spec)
    dim = hs.dim
    vf, args, sym, poly = _form(c['form'], dim)
    geo = _geo(c['geo'], dim)
    hs.truncate = False
    ref = _reference(hs, vf, args, geo)
    T = hs.thb_to_hb().toarray()
    if int(np.prod([kv.numdofs for kv in hs.knotvectors(hs.numlevels - 1)])) <= 3000:
        Td = _thb_to_hb_by_definition(hs)          # the THB reference does not rest on the library's own transform
        _close(T, Td, 'thb_to_hb() vs the definition of truncation', tol=1e-10)
        T = Td
    asm_args = dict(args, geo=geo)
    for trunc in (False, True):
        hs.truncate = trunc
        E = T.T @ ref @ T if trunc else ref
        for symmetric in ([False, True] if sym else [False]):
            vf2 = _form(c['form'], dim)[0]          # a VForm is consumed by compilation (finalize)
            hd = hierarchical.HDiscretization(hs, vf2, dict(asm_args))
            A = hd.assemble_matrix(symmetric=symmetric)
            _close(A, E, 'assemble_matrix(truncate=%s, symmetric=%s)' % (trunc, symmetric))
        if c.get('via_assemble'):
            A2 = assemble.assemble(_form(c['form'], dim)[0], hs, geo=geo, **args)
            _close(A2, E, 'assemble(problem, hspace) truncate=%s' % trunc)
    hs.truncate = False
    if poly and c['geo'] in ('unit', 'affine'):
        # exact quadrature on every level: Galerkin projection of the finest-level matrix
        I = hs.represent_fine(truncate=False).toarray()
        A_f = assemble.assemble(_form(c['form'], dim)[0], hs.knotvectors(hs.numlevels - 1), geo=geo, **args).toarray()
        _close(ref, I.T @ A_f @ I, 'polynomial integrand: level-wise reference vs I^T A_fine I (self-check of the oracle)', tol=1e-9)


def chk_functional(c):
    from pyiga import hierarchical
    hs = hgen.build(c['spec'])
    dim = hs.dim
    geo = _geo(c['geo'], dim)
    vf, args = _functional(c['functional'], dim)
    hs.truncate = False
    ref = _reference(hs, vf, args, geo, arity=1)
    T = hs.thb_to_hb().toarray()
    if int(np.prod([kv.numdofs for kv in hs.knotvectors(hs.numlevels - 1)])) <= 3000:
        T = _thb_to_hb_by_definition(hs)
    for trunc in (False, True):
        hs.truncate = trunc
        hd = hierarchical.HDiscretization(hs, None, dict(args, geo=geo))
        b = hd.assemble_functional(_functional(c['functional'], dim)[0])
        _close(b, T.T @ ref if trunc else ref, 'assemble_functional(truncate=%s)' % trunc)
        if c['functional'] == 'l2':
            b2 = hd.assemble_rhs()
            _close(b2, T.T @ ref if trunc else ref, 'assemble_rhs(truncate=%s)' % trunc)
    hs.truncate = False


def chk_adaptive(c):
    """one persistent HSpace object: assemble (which warms every cached index table), refine, assemble again ... -- after every step the
    matrix must equal the reference computed on a freshly built space with the same history"""
    from pyiga import hierarchical
    spec = c['spec']
    hs = hgen.build(spec, upto=0)
    dim = hs.dim
    geo = _geo(c['geo'], dim)
    H = len(spec['history'])
    for k in range(H + 1):
        vf, args, sym, poly = _form(c['form'], dim)
        for trunc in (False, True):
            hs.truncate = trunc
            A = hierarchical.HDiscretization(hs, _form(c['form'], dim)[0], dict(args, geo=geo)).assemble_matrix()
            fresh = hgen.build(spec, upto=k)
            fresh.truncate = False
            ref = _reference(fresh, vf, args, geo)
            if trunc:
                T = fresh.thb_to_hb().toarray()
                ref = T.T @ ref @ T
            _close(A, ref, 'persistent space after %d refine() calls (truncate=%s)' % (k, trunc))
        hs.truncate = False
        hs.dirichlet_dofs()
        hs.indices_to_smooth('cell_supp')
        if k < H:
            marked = {int(lv): set(tuple(x) for x in cells) for lv, cells in spec['history'][k].items()}
            hs.refine(marked)


CHECKS = {'matrix': chk_matrix, 'functional': chk_functional, 'adaptive': chk_adaptive}


def warmup(tier):
    jobs = []
    for dim in (1, 2):
        spec = {'dim': dim, 'n': 2, 'p': 2, 'history': [{'0': [[0] * dim]}], 'disparity': 'inf'}
        for form in ('mass', 'stiffness', 'convection', 'wmass'):
            jobs.append(lambda spec=spec, form=form: chk_matrix({'spec': spec, 'form': form, 'geo': 'unit'}))
        for fn in ('l2', 'grad'):
            jobs.append(lambda spec=spec, fn=fn: chk_functional({'spec': spec, 'functional': fn, 'geo': 'unit'}))
    return jobs


def generate(tier, rng):
    quick = tier == 'quick'
    forms = ['mass', 'stiffness', 'convection', 'wmass']
    geos1, geos2 = ['unit', 'affine', 'bump'], ['unit', 'affine', 'annulus', 'bump']
    bds = [None, [], [[0, 0]], [[0, 0], [0, 1]], 'all']
    k = 0
    for ncoarse in (2, 3):
        for h in hgen.enumerate_histories({'dim': 1, 'n': ncoarse, 'p': 1}, 3 if ncoarse == 2 else 2, max_subset=2, cap=6, rng=rng):
            k += 1
            if k % (9 if quick else 3):
                continue
            p = 1 + k % 3
            spec = dict(h, p=p, disparity=['inf', 1, 2][k % 3])
            bd = bds[k % len(bds)]
            if bd == 'all':
                bd = [[0, 0], [0, 1]]
            if bd is not None or k % 2:
                spec['bdspecs'] = bd
            yield 'matrix', {'spec': spec, 'form': forms[k % 4], 'geo': geos1[k % 3], 'via_assemble': bool(k % 5 == 0)}
            if k % 2 == 0:
                yield 'functional', {'spec': spec, 'functional': ['l2', 'grad'][k % 4 // 2], 'geo': geos1[(k + 1) % 3]}
    for j in range(16 if quick else 100):
        base = {'dim': 2, 'n': 2 + j % 2, 'p': 1 + j % 2}
        h = hgen.random_history(base, 2 + (j % 3 == 0), rng, multi_level=bool(j % 2))
        spec = dict(h, p=1 + j % 3 if j % 4 else 2, disparity=['inf', 1, 2][j % 3])
        bd = bds[j % len(bds)]
        if bd == 'all':
            bd = [[0, 0], [0, 1], [1, 0], [1, 1]]
        elif bd:
            bd = bd + [[1, 1]]
        if bd is not None or j % 2:
            spec['bdspecs'] = bd
        yield 'matrix', {'spec': spec, 'form': forms[j % 4], 'geo': geos2[j % 4], 'via_assemble': bool(j % 4 == 1)}
        if j % 2:
            yield 'functional', {'spec': spec, 'functional': ['l2', 'grad'][j % 4 // 2], 'geo': geos2[(j + 1) % 4]}
    # nested strips: the level-(l+1) region touches the inner (non-domain) boundary of the level-l region, so that coarse functions meet
    # active fine functions only inside cells that are already refined further
    for j, (p, disp) in enumerate(((2, 'inf'), (3, 'inf'), (2, 2), (1, 'inf'))):
        n = 4
        right_half = [[y, x] for y in range(n) for x in range(n // 2, n)]
        strip = [[y, x] for y in range(2 * n) for x in range(n, n + 2)]
        spec = {'dim': 2, 'n': n, 'p': p, 'disparity': disp, 'history': [{'0': right_half}, {'1': strip}]}
        yield 'matrix', {'spec': spec, 'form': forms[j % 2], 'geo': ['unit', 'bump'][j % 2]}
        spec1 = {'dim': 1, 'n': 4, 'p': p, 'disparity': disp, 'history': [{'0': [[2], [3]]}, {'1': [[4], [5]]}, {'2': [[8], [9]]}]}
        yield 'matrix', {'spec': spec1, 'form': forms[(j + 1) % 4], 'geo': 'bump'}
    # THB with a finite disparity >= 2 on 3+ levels: an interior block refined twice, so that active functions of level k-1 still overlap
    # active functions of level k+1 (the truncation of a level-(k-1) function then involves level k+1 directly)
    for j, (p, disp) in enumerate(((2, 2), (3, 2), (2, 3), (1, 2))):
        spec1 = {'dim': 1, 'n': 6, 'p': p, 'disparity': disp, 'truncate': True, 'history': [{'0': [[1], [2], [3], [4]]}, {'1': [[4], [5], [6], [7]]}] + ([{'2': [[10], [11], [12], [13]]}] if disp == 3 else [])}
        yield 'matrix', {'spec': spec1, 'form': forms[j % 4], 'geo': 'bump'}
        yield 'functional', {'spec': spec1, 'functional': ['l2', 'grad'][j % 2], 'geo': 'bump'}
        if p <= 2:
            blk0 = [[y, x] for y in range(1, 3) for x in range(1, 3)]
            blk1 = [[y, x] for y in range(3, 5) for x in range(3, 5)]
            spec2 = {'dim': 2, 'n': 4, 'p': p, 'disparity': disp, 'truncate': True, 'history': [{'0': blk0}, {'1': blk1}]}
            yield 'matrix', {'spec': spec2, 'form': forms[(j + 1) % 2], 'geo': ['unit', 'bump'][j % 2]}
            yield 'functional', {'spec': spec2, 'functional': 'l2', 'geo': 'unit'}
    # simultaneous marks on several levels under a finite disparity: the finest marks lie inside an already refined region (their
    # admissibility neighbourhood is empty), the coarser ones at the rim of their level's region (they force a refinement one level below);
    # every marked level needs its own admissibility pass, otherwise the interlevel blocks of the matrix reach beyond the assembled window
    for j, p in enumerate((1, 2, 2, 3)):
        for rim in ([4], [11], [4, 11]):
            spec = {'dim': 1, 'n': 8, 'p': p, 'disparity': 1, 'truncate': bool(j % 2),
                    'history': [{'0': [[2], [3], [4], [5]]}, {'1': [[6], [7], [8], [9]]}, {'2': [[15], [16]], '1': [[c_] for c_ in rim]}]}
            yield 'matrix', {'spec': spec, 'form': forms[(j + len(rim)) % 2], 'geo': geos1[j % 3]}
    for j, (n0, a, b) in enumerate(((6, 1, 4), (10, 3, 8), (7, 2, 6))):
        # the same pattern at other positions/sizes (p = 1 and 2): level-0 cells a..b-1, then the middle of level 1, then interior level-2
        # cells together with both rim cells of level 1
        l1 = list(range(2 * a, 2 * b))
        mid1 = l1[2:-2]
        l2 = list(range(2 * mid1[0], 2 * mid1[-1] + 2))
        for p in (1, 2):
            spec = {'dim': 1, 'n': n0, 'p': p, 'disparity': 1, 'truncate': bool((j + p) % 2),
                    'history': [{'0': [[c_] for c_ in range(a, b)]}, {'1': [[c_] for c_ in mid1]}, {'2': [[c_] for c_ in l2[2:4]], '1': [[l1[0]], [l1[-1]]]}]}
            yield 'matrix', {'spec': spec, 'form': forms[(j + p) % 2], 'geo': geos1[(j + p) % 3]}
    for j in range(24 if quick else 200):
        d = 1 + j % 2
        h = hgen.random_history({'dim': 1, 'n': 4 + j % 3, 'p': 1 + j % 3, 'disparity': d, 'truncate': bool(j % 5 == 0)}, 3 + j % 2, rng, multi_level=True)
        if any(len(step) > 1 for step in h['history']):
            yield 'matrix', {'spec': h, 'form': forms[j % 2], 'geo': geos1[j % 3]}
    # coarse knot vectors with repeated interior knots (a cell then carries functions first..first+p with first != cell index)
    for j in range(10 if quick else 60):
        dim = 1 + j % 2
        p = 2 + j % 2
        base = {'dim': dim, 'n': 3 if dim == 1 else 2, 'p': p if dim == 1 else [p, 2], 'mult': (2 + (j % 3 == 0)) if dim == 1 else [2, 1 + j % 2],
                'disparity': ['inf', 1][j % 2], 'truncate': bool(j % 3 == 1)}
        h = hgen.random_history(base, 2, rng, multi_level=False)
        yield 'matrix', {'spec': h, 'form': forms[j % 2], 'geo': (geos1 if dim == 1 else geos2)[j % 3]}
    # persistent objects: histories that return to coarser levels after finer ones (no new level is added by such a step)
    for j in range(8 if quick else 40):
        dim = 1 + j % 2
        base = {'dim': dim, 'n': 3 if dim == 1 else 2, 'p': 1 + j % 2, 'disparity': ['inf', 1][j % 2]}
        h = hgen.random_history(base, 3, rng, multi_level=False)
        yield 'adaptive', {'spec': h, 'form': forms[j % 2], 'geo': 'unit'}
    yield 'adaptive', {'spec': {'dim': 2, 'n': 3, 'p': 2, 'disparity': 'inf', 'history': [{'0': [[0, 0]]}, {'0': [[2, 2]]}, {'0': [[1, 1]], '1': [[0, 0]]}]}, 'form': 'stiffness', 'geo': 'affine'}
    for j in range(6 if quick else 40):
        d = [2, 1, 'inf'][j % 3]
        h = hgen.random_history({'dim': 1, 'n': 3, 'p': 1 + j % 3, 'disparity': d}, 4 + j % 2, rng, multi_level=False, finest_bias=0.8)
        yield 'matrix', {'spec': h, 'form': forms[j % 4], 'geo': geos1[j % 3]}
        yield 'functional', {'spec': h, 'functional': 'l2', 'geo': geos1[j % 3]}


if __name__ == '__main__':
    import sys
    common.main(sys.modules[__name__])
