"""Bounded tier harness: run-time contracts evaluated on the real (scratch-built) code over a stated finite
domain.  Results are labelled bounded everywhere and never counted as proved.

A bounded module defines
    CHECKS  = {name: fn(case) -> None | str}      (str / AssertionError / any exception = failure)
    generate(tier, rng) -> iterable of (name, case, nontrivial_key or None)
    DOMAIN, RULE, COVERS (contract names this stand-in can decide when the proof tier is undecided)
and calls main(__name__-module)."""
import argparse
import json
import random
import sys
import time
import traceback

MAX_FAILURES = 80


def _short(x, n=300):
    s = json.dumps(x, default=str, separators=(',', ':'))
    return s if len(s) <= n else s[:n] + '...'


def case_id(name, case):
    import hashlib
    full = json.dumps(case, sort_keys=True, default=str)
    return '%s:%s#%s' % (name, _short(case, 120), hashlib.sha256(full.encode()).hexdigest()[:8])


def run_case(mod, name, case):
    try:
        r = mod.CHECKS[name](case)
    except AssertionError as e:
        return 'assertion failed: %s' % (e,)
    except Exception as e:
        return 'exception %s: %s | %s' % (type(e).__name__, e, traceback.format_exc(limit=3).replace('\n', ' / ')[-600:])
    return r


_POOL_MOD = None
_POOL_CASES = None


def _pool_run(i):
    name, case = _POOL_CASES[i]
    return run_case(_POOL_MOD, name, case)


def _warm_run(i):
    try:
        _POOL_CASES[i]()
    except Exception:
        pass        # failures surface in the cases themselves


def main(mod):
    global _POOL_MOD, _POOL_CASES
    ap = argparse.ArgumentParser()
    ap.add_argument('--tier', default='quick')
    ap.add_argument('--seed', type=int, default=0)
    ap.add_argument('--replay')
    a = ap.parse_args()
    if a.replay:
        payload = json.load(open(a.replay))
        fl = payload['case']
        if fl['check'] == '_generate':
            try:
                for _ in mod.generate('quick', random.Random(0)):
                    pass
                msg = None
            except Exception as e:
                msg = 'exception while enumerating cases: %s: %s' % (type(e).__name__, e)
        else:
            msg = run_case(mod, fl['check'], fl['input'])
        if msg:
            print('REPRODUCED %s: %s' % (fl['id'], msg))
            print('VIOLATION property=%s replay=%s' % (payload['property'], a.replay))
            sys.exit(1)
        print('not reproduced on the current tree: %s' % fl['id'])
        sys.exit(0)
    t0 = time.time()
    rng = random.Random(a.seed)
    n = 0
    distinct = set()
    failures = []
    samples = []
    per_check = {}
    if hasattr(mod, 'warmup'):
        # independent expensive preparations (compiling forms into the on-disk module cache) run in parallel first
        import multiprocessing as mp
        jobs = mod.warmup(a.tier)
        _POOL_CASES = jobs
        with mp.get_context('fork').Pool(min(16, max(1, len(jobs)))) as pool:
            pool.map(_warm_run, range(len(jobs)), chunksize=1)
    gen = iter(mod.generate(a.tier, rng))
    procs = int(getattr(mod, 'PROCS', 1))
    pending = []
    while True:
        try:
            item = next(gen)
        except StopIteration:
            break
        except Exception as e:
            # the enumeration itself drives the library (e.g. replays refinement histories to know the active cells): an
            # exception there is a failure of the library on a valid call sequence
            failures.append({'id': '_generate:%s' % type(e).__name__, 'check': '_generate', 'input': {},
                             'observed': 'exception while enumerating cases: %s: %s | %s' % (type(e).__name__, e, traceback.format_exc(limit=6).replace('\n', ' / ')[-900:])})
            break
        name, case = item[0], item[1]
        key = item[2] if len(item) > 2 else __import__('hashlib').sha256(json.dumps(case, sort_keys=True, default=str).encode()).hexdigest()
        n += 1
        per_check[name] = per_check.get(name, 0) + 1
        if key is not None:
            distinct.add((name, key))
        if len(samples) < 6 and per_check[name] <= 1:
            samples.append({'check': name, 'input': json.loads(_short(case, 100000)) if len(_short(case, 100000)) < 400 else _short(case, 300)})
        if procs > 1:
            pending.append((name, case))
            continue
        msg = run_case(mod, name, case)
        if msg:
            if len(failures) < MAX_FAILURES:
                failures.append({'id': case_id(name, case), 'check': name, 'input': case, 'observed': msg})
    if pending:
        # independent cases of modules that declare PROCS are evaluated by a fork pool (results in case order)
        import multiprocessing as mp
        _POOL_MOD, _POOL_CASES = mod, pending
        with mp.get_context('fork').Pool(procs) as pool:
            msgs = pool.map(_pool_run, range(len(pending)), chunksize=1)
        for (name, case), msg in zip(pending, msgs):
            if msg and len(failures) < MAX_FAILURES:
                failures.append({'id': case_id(name, case), 'check': name, 'input': case, 'observed': msg})
    out = {'evaluations': n, 'distinct_nontrivial': len(distinct), 'failures': failures, 'samples': samples,
           'domain': mod.DOMAIN.get(a.tier, '') if isinstance(mod.DOMAIN, dict) else mod.DOMAIN,
           'rule': mod.RULE, 'covers': mod.COVERS, 'per_check': per_check, 'seconds': round(time.time() - t0, 2)}
    print(json.dumps(out, default=str))
