"""C15 bounded tier: multi-level structured matrices against the dense Kronecker definition (real code)."""
import itertools

import numpy as np
import scipy.sparse

from . import common, kvgen

COVERS = ['*']
DOMAIN = {
    'quick': 'all non-empty patterns of 2x2 blocks and a sample of 2x3/3x2/3x3 patterns for 1-3 levels (exhaustive for 2x2, <=2 levels), '
             'seeded random patterns for 4-5 levels; lower_tri; row/column subsets (empty, unsorted); level permutations; '
             'knot-vector pairs from the shared enumeration (p<=3)',
    'thorough': 'all non-empty patterns of 2x2/2x3/3x3 blocks for <=2 levels, sampled 3 levels, random 4-6 levels; all row subsets of size<=3',
}
RULE = 'case = (check, pattern list / knot vectors); distinct by input; oracle = dense np.kron of the 0/1 level patterns (never scipy BSR)'


def _structure(c):
    from pyiga import mlmatrix
    bs = tuple(tuple(b) for b in c['bs'])
    bidx = tuple(np.array(b, dtype=np.uint32).reshape(-1, 2) for b in c['bidx'])
    return mlmatrix.MLStructure(bs, bidx)


def _dense_pattern(c):
    mats = []
    for (m, n), b in zip(c['bs'], c['bidx']):
        P = np.zeros((m, n), dtype=np.int64)
        for k, (i, j) in enumerate(b):
            P[i, j] = k + 1            # data index + 1
        mats.append(P)
    return mats


def _expected(c, lower_tri=False):
    """list of (I, J) in the order of the compact data layout (C order over the per-level nonzero lists)"""
    out = []
    rows = [b[0] for b in c['bs']]
    cols = [b[1] for b in c['bs']]
    for combo in itertools.product(*[range(len(b)) for b in c['bidx']]):
        I = J = 0
        for k, q in enumerate(combo):
            I = I * rows[k] + c['bidx'][k][q][0]
            J = J * cols[k] + c['bidx'][k][q][1]
        if not lower_tri or J <= I:
            out.append((I, J))
    return out


def chk_nonzero(c):
    from pyiga import mlmatrix, mlmatrix_cy
    S = _structure(c)
    L = S.L
    for lt in (False, True):
        if L == 1 and lt:
            continue
        exp = _expected(c, lt)
        I, J = S.nonzero(lower_tri=lt)
        got = list(zip(I.tolist(), J.tolist()))
        assert got == exp, 'nonzero(lower_tri=%s): %r != %r' % (lt, got[:6], exp[:6])
        if L >= 2:
            IJ = mlmatrix_cy.ml_nonzero_nd(S.bidx, S._bs_arr, lower_tri=lt)
            got = list(zip(IJ[0].tolist(), IJ[1].tolist()))
            assert got == exp, 'ml_nonzero_nd(lower_tri=%s): %r != %r' % (lt, got[:6], exp[:6])
    # the dense Kronecker product has exactly these nonzeros
    K = np.ones((1, 1), dtype=np.int64)
    for P in _dense_pattern(c):
        K = np.kron(K, (P != 0).astype(np.int64))
    assert set(zip(*[a.tolist() for a in K.nonzero()])) == set(_expected(c)), 'pattern differs from np.kron'
    assert S.shape == K.shape


def chk_matrix(c):
    from pyiga import mlmatrix
    S = _structure(c)
    rng = np.random.RandomState(c.get('seed', 0))
    shape = tuple(len(b) for b in c['bidx'])
    data = rng.randint(1, 9, size=shape).astype(float)
    A = mlmatrix.MLMatrix(S, data=data)
    # dense definition
    K = np.ones((1, 1))
    for k, ((m, n), b) in enumerate(zip(c['bs'], c['bidx'])):
        pass
    D = np.zeros(S.shape)
    for combo, (I, J) in zip(itertools.product(*[range(n) for n in shape]), _expected(c)):
        D[I, J] += data[combo]
    M = A.asmatrix().toarray()
    assert np.array_equal(M, D), 'asmatrix differs from the dense definition'
    x = rng.randint(-3, 4, size=S.shape[1]).astype(float)
    y = A.dot(x)
    assert y.shape == (S.shape[0],), 'matvec result has shape %r, expected (%d,)' % (y.shape, S.shape[0])
    assert np.allclose(y, D.dot(x)), 'matvec differs from dense product'
    # (only contiguous float64 vectors are checked: strided views, integer vectors and -- through scipy's column-wise matmat -- multi-column
    #  arguments are rejected loudly by the typed 2-/3-level kernels ("ndarray is not C-contiguous", "Buffer dtype mismatch"); the property
    #  speaks of the matrix-vector product and does not forbid that)
    # the object denotes its CURRENT data: replace the coefficients after a product has been computed, multiply again
    data2 = rng.randint(1, 9, size=shape).astype(float) + 10.0
    D2 = np.zeros(S.shape)
    for combo, (I, J) in zip(itertools.product(*[range(n) for n in shape]), _expected(c)):
        D2[I, J] += data2[combo]
    A.data = data2
    assert np.allclose(A.dot(x), D2.dot(x)), 'after assigning new data the matvec still uses the old coefficients'
    assert np.array_equal(A.asmatrix().toarray(), D2), 'after assigning new data asmatrix() still uses the old coefficients'
    A.data = data
    assert np.allclose(A.dot(x), D.dot(x)), 'matvec after restoring the data'
    # from a matrix
    A2 = mlmatrix.MLMatrix(S, matrix=scipy.sparse.csr_matrix(D) if c.get('seed', 0) % 2 else D)
    assert np.array_equal(A2.asmatrix().toarray(), D) or len(set(_expected(c))) != len(_expected(c))
    # transpose of the structure
    T = S.transpose()
    assert T.shape == (S.shape[1], S.shape[0])
    I, J = T.nonzero()
    assert list(zip(J.tolist(), I.tolist())) == _expected(c), 'transpose pattern'
    # level reordering
    if S.L >= 2:
        for axes in itertools.permutations(range(S.L)):
            R = A.reorder(axes)
            c2 = {'bs': [c['bs'][a] for a in axes], 'bidx': [c['bidx'][a] for a in axes]}
            D2 = np.zeros(R.shape)
            d2 = np.transpose(data, axes)
            for combo, (I_, J_) in zip(itertools.product(*[range(n) for n in d2.shape]), _expected(c2)):
                D2[I_, J_] += d2[combo]
            assert np.array_equal(R.asmatrix().toarray(), D2), 'reorder %r' % (axes,)
            if S.L > 2 and c.get('seed', 0) % 3:
                break
    # sequential_bidx decodes through reindex_from_multilevel
    seq = S.sequential_bidx()
    for k in range(S.L):
        m, n = c['bs'][k]
        for q, (i, j) in enumerate(c['bidx'][k]):
            assert seq[k][q] == i * n + j, 'sequential_bidx level %d' % k
    for combo, (I, J) in zip(itertools.product(*[range(n) for n in shape]), _expected(c)):
        Ms = [int(seq[k][combo[k]]) for k in range(S.L)]
        ij = mlmatrix.reindex_from_multilevel(Ms, S._bs_arr)
        assert tuple(int(v) for v in ij) == (I, J), 'reindex_from_multilevel(sequential_bidx)'
        back = mlmatrix.reindex_to_multilevel(I, J, S._bs_arr) if False else None


def chk_rows(c):
    from pyiga import mlmatrix, utils
    S = _structure(c)
    exp = _expected(c)
    for rows in c['rowsets']:
        rows = np.array(rows, dtype=int)
        I, J = S.nonzeros_for_rows(rows)
        want = [(i, j) for r in rows for (i, j) in sorted(set(exp)) if i == r]
        assert sorted(zip(I.tolist(), J.tolist())) == sorted(want), 'nonzeros_for_rows(%r)' % (rows.tolist(),)
        got_rows = I.tolist()
        assert got_rows == sorted(got_rows, key=lambda r: list(rows).index(r)) or len(set(rows.tolist())) != len(rows), 'row order'
        I3, J3, R3 = S.nonzeros_for_rows(rows, renumber_rows=True)
        assert I3.tolist() == I.tolist() and J3.tolist() == J.tolist()
        assert all(rows[r] == i for r, i in zip(R3.tolist(), I3.tolist())), 'renumber_rows'
    for cols in c['colsets']:
        cols = np.array(cols, dtype=int)
        I, J = S.nonzeros_for_columns(cols)
        want = [(i, j) for q in cols for (i, j) in set(exp) if j == q]
        assert sorted(zip(I.tolist(), J.tolist())) == sorted(want), 'nonzeros_for_columns(%r)' % (cols.tolist(),)
    # kron_partial
    rng = np.random.RandomState(3)
    As = []
    for (m, n), b in zip(c['bs'], c['bidx']):
        P = np.zeros((m, n))
        for (i, j) in b:
            P[i, j] = rng.randint(1, 7)
        As.append(scipy.sparse.csr_matrix(P))
    full = As[0].toarray()
    for A in As[1:]:
        full = np.kron(full, A.toarray())
    for rows in c['rowsets']:
        if len(set(rows)) != len(rows):
            continue
        Xp = utils.kron_partial(As, rows).toarray()
        ref = np.zeros_like(full)
        ref[np.array(rows, dtype=int)] = full[np.array(rows, dtype=int)]
        assert Xp.shape == full.shape and np.array_equal(Xp, ref), 'kron_partial rows=%r' % (rows,)
        Xr = utils.kron_partial(As, rows, restrict=True).toarray()
        assert Xr.shape == (len(rows), full.shape[1]) and np.array_equal(Xr, full[np.array(rows, dtype=int)].reshape(len(rows), full.shape[1])), 'kron_partial restrict rows=%r' % (rows,)


def chk_sparsity(c):
    from pyiga import bspline, mlmatrix
    k1 = bspline.KnotVector(np.array(c['kv1'], dtype=float), c['p1'])
    k2 = bspline.KnotVector(np.array(c['kv2'], dtype=float), c['p2'])
    IJ = mlmatrix.compute_sparsity_ij(k1, k2)
    got = [tuple(r) for r in IJ.tolist()]
    exp = []
    for i in range(k2.numdofs):
        a2, b2 = k2.support(i)
        for j in range(k1.numdofs):
            a1, b1 = k1.support(j)
            if max(a1, a2) < min(b1, b2):
                exp.append((i, j))
    assert got == exp, 'compute_sparsity_ij: %r != %r' % (got[:8], exp[:8])
    S = mlmatrix.MLStructure.from_kvs((k1,), (k2,))
    assert S.bs == ((k2.numdofs, k1.numdofs),)


def chk_banded(c):
    from pyiga import mlmatrix
    n, bw = c['n'], c['bw']
    exp = [(i, j) for i in range(n) for j in range(n) if abs(i - j) <= bw]
    assert [tuple(r) for r in mlmatrix.compute_banded_sparsity_ij(n, bw).tolist()] == exp
    assert mlmatrix.compute_banded_sparsity(n, bw).tolist() == [i * n + j for (i, j) in exp]
    m = c['m']
    assert [tuple(r) for r in mlmatrix.compute_dense_ij(m, n).tolist()] == [(i, j) for i in range(m) for j in range(n)]
    S = mlmatrix.MLStructure.multi_banded((n, m), (bw, 1))
    X = np.arange(1, n * m * n * m + 1, dtype=float).reshape(n * m, n * m)
    Y = mlmatrix.reorder(X, n, n)
    for i in range(n * n):
        for j in range(m * m):
            a, b = mlmatrix.reindex_from_reordered(i, j, n, n, m, m)
            assert Y[i, j] == X[a, b], 'reindex_from_reordered'
    bidx = mlmatrix.compute_banded_sparsity_ij(n, bw)
    t = mlmatrix.get_transpose_idx_for_bidx(bidx)
    for k in range(len(bidx)):
        assert tuple(bidx[t[k]]) == (bidx[k][1], bidx[k][0]), 'get_transpose_idx_for_bidx'
    # index maps
    dims = (n, m, 2)
    for idx in itertools.product(*[range(d) for d in dims]):
        s = mlmatrix.to_seq(idx, dims)
        assert s == np.ravel_multi_index(idx, dims) and tuple(mlmatrix.from_seq(s, dims)) == idx
    bs = np.array([(n, m), (m, 2)])
    for i in range(n * m):
        for j in range(m * 2):
            M = mlmatrix.reindex_to_multilevel(i, j, bs)
            assert tuple(int(v) for v in mlmatrix.reindex_from_multilevel(list(M), bs)) == (i, j), 'reindex_to/from_multilevel'


def chk_large(c):
    """index arithmetic beyond 2^32 rows/columns: only the structure is built (a handful of nonzeros), oracle = Python integers"""
    from pyiga import mlmatrix_cy
    S = _structure(c)
    for lt in (False, True):
        exp = _expected(c, lt)
        I, J = S.nonzero(lower_tri=lt)
        got = list(zip(I.tolist(), J.tolist()))
        assert got == exp, 'nonzero(lower_tri=%s) with %r blocks: %r != %r' % (lt, c['bs'], got[:4], exp[:4])
        IJ = mlmatrix_cy.ml_nonzero_nd(S.bidx, S._bs_arr, lower_tri=lt)
        got = list(zip(IJ[0].tolist(), IJ[1].tolist()))
        assert got == exp, 'ml_nonzero_nd(lower_tri=%s) with %r blocks: %r != %r' % (lt, c['bs'], got[:4], exp[:4])


CHECKS = {'large': chk_large, 'nonzero': chk_nonzero, 'matrix': chk_matrix, 'rows': chk_rows, 'sparsity': chk_sparsity, 'banded': chk_banded}


def _patterns(m, n, limit=None, rng=None):
    cells = [(i, j) for i in range(m) for j in range(n)]
    allp = []
    for r in range(1, len(cells) + 1):
        for sub in itertools.combinations(cells, r):
            allp.append(list(sub))
    if limit is not None and len(allp) > limit:
        allp = rng.sample(allp, limit)
    return allp


def _rowsets(nrows, rng):
    sets = [[], [0], [nrows - 1]]
    if nrows >= 3:
        sets += [[nrows - 1, 0], [1, nrows - 1, 0], [2, 1]]
    sets.append(list(range(nrows)))
    sets.append([rng.randrange(nrows) for _ in range(3)])
    return [s for i, s in enumerate(sets) if s not in sets[:i]]


def generate(tier, rng):
    quick = tier == 'quick'
    p22 = _patterns(2, 2)
    p23 = _patterns(2, 3, 12 if quick else 40, rng)
    p32 = _patterns(3, 2, 8 if quick else 30, rng)
    p33 = _patterns(3, 3, 10 if quick else 60, rng)
    shapes = {(2, 2): p22, (2, 3): p23, (3, 2): p32, (3, 3): p33}

    def case(levels, seed=0):
        bs = [list(s) for s, _ in levels]
        bidx = [[list(x) for x in p] for _, p in levels]
        return {'bs': bs, 'bidx': bidx, 'seed': seed}
    n = 0
    # one level
    for shp, pats in shapes.items():
        for p in pats:
            c = case([(shp, p)], n)
            n += 1
            yield 'nonzero', c
            yield 'matrix', c
    # two levels: exhaustive 2x2 x 2x2, sampled mixed
    for a in p22:
        for b in p22:
            c = case([((2, 2), a), ((2, 2), b)], n)
            n += 1
            yield 'nonzero', c
            if n % (3 if quick else 1) == 0:
                yield 'matrix', c
    combos = [((2, 3), (3, 2)), ((2, 3), (2, 3)), ((3, 3), (2, 2)), ((2, 2), (3, 3)), ((3, 2), (2, 3)), ((3, 3), (3, 3))]
    for (sa, sb) in combos:
        for _ in range(12 if quick else 80):
            c = case([(sa, rng.choice(shapes[sa])), (sb, rng.choice(shapes[sb]))], n)
            n += 1
            yield 'nonzero', c
            yield 'matrix', c
            c2 = dict(c)
            rows = c['bs'][0][0] * c['bs'][1][0]
            cols = c['bs'][0][1] * c['bs'][1][1]
            c2['rowsets'] = _rowsets(rows, rng)
            c2['colsets'] = _rowsets(cols, rng)
            yield 'rows', c2
    # three levels (incl. first nonzero at different positions per level), 4-5 levels random
    allshapes = list(shapes)
    for L, cnt in ((3, 40 if quick else 400), (4, 25 if quick else 150), (5, 8 if quick else 40), (6, 0 if quick else 10)):
        for _ in range(cnt):
            lv = []
            for k in range(L):
                s = rng.choice(allshapes if L <= 4 else [(2, 2), (2, 3), (3, 2)])
                lv.append((s, rng.choice(shapes[s])))
            c = case(lv, n)
            n += 1
            yield 'nonzero', c
            if L <= 4:
                yield 'matrix', c
            if L <= 4 and n % 2 == 0:
                c2 = dict(c)
                rows = int(np.prod([b[0] for b in c['bs']]))
                cols = int(np.prod([b[1] for b in c['bs']]))
                c2['rowsets'] = _rowsets(rows, rng)[:5]
                c2['colsets'] = _rowsets(cols, rng)[:4]
                yield 'rows', c2
    # the ml_nonzero_nd regression shape: levels whose first nonzero sits in different columns
    diag, anti = [[0, 0], [1, 1]], [[0, 1], [1, 0]]
    for combo in itertools.product((diag, anti), repeat=4):
        yield 'nonzero', {'bs': [[2, 2]] * 4, 'bidx': [list(map(list, x)) for x in combo], 'seed': 1}
    yield 'matrix', {'bs': [[2, 3], [4, 3]], 'bidx': [[[0, 0], [1, 2], [0, 1]], [[0, 0], [3, 2], [1, 1], [2, 0]]], 'seed': 5}
    yield 'matrix', {'bs': [[3, 2], [3, 4]], 'bidx': [[[0, 0], [2, 1], [1, 1]], [[0, 0], [2, 3], [1, 1], [2, 0]]], 'seed': 6}
    yield 'matrix', {'bs': [[3, 2], [2, 1], [2, 3]], 'bidx': [[[0, 0], [2, 1]], [[0, 0], [1, 0]], [[0, 2], [1, 1]]], 'seed': 7}
    # row/column numbers beyond 2^32 (the products in the index arithmetic must be formed in 64 bits)
    for bs, ent in (([[70000, 70000]] * 2, [[69999, 69999], [0, 5], [65536, 65537]]), ([[66000, 70000], [70000, 66000]], [[65999, 65999], [1, 0]]),
                    ([[2000, 2000]] * 3, [[1999, 1999], [0, 1999], [1700, 3]]), ([[3000, 1700], [1700, 3000], [1000, 1000]], [[999, 999], [998, 0]])):
        yield 'large', {'bs': bs, 'bidx': [ent] * len(bs), 'seed': 0}
    # knot-vector sparsity
    kvs = list(kvgen.knotvec_arrays(pmax=3 if quick else 5, max_break=3))
    for (p1, kv1) in kvs:
        for (p2, kv2) in kvs:
            if sorted(set(kv1)) == sorted(set(kv2)) and (not quick or (len(kv1) + len(kv2) + p1) % 3 == 0):
                yield 'sparsity', {'p1': p1, 'kv1': kv1, 'p2': p2, 'kv2': kv2}
    # nested meshes
    yield 'sparsity', {'p1': 2, 'kv1': [0, 0, 0, 0.5, 1, 1, 1], 'p2': 1, 'kv2': [0, 0, 0.25, 0.5, 0.75, 1, 1]}
    yield 'sparsity', {'p1': 1, 'kv1': [0, 0, 0.25, 0.5, 0.75, 1, 1], 'p2': 3, 'kv2': [0, 0, 0, 0, 0.5, 0.5, 1, 1, 1, 1]}
    for nn in range(1, 6):
        for bw in range(0, 4):
            yield 'banded', {'n': nn, 'bw': bw, 'm': 1 + (nn + bw) % 3}


if __name__ == '__main__':
    import sys
    common.main(sys.modules[__name__])
