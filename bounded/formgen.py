"""Enumerated variational forms over the documented vform grammar (shared by the C01/C06/C13 bounded modules).

A form is a JSON spec {dim, arity, boundary, surface, spacetime, components, spaces, inputs, params, expr}; `expr` is
evaluated in a namespace holding the vform functions, the basis functions u (and v), the declared inputs and
parameters, dx/ds, n (normal), x (geometry), gw."""
import copy
import itertools


def build(spec, vform=None, add=True):
    """build the VForm of a spec with the given vform module (default: the installed pyiga.vform); with add=False return
    (V, expression) without adding it"""
    if vform is None:
        from pyiga import vform
    if spec.get('predefined'):
        # a form constructed by the library itself (e.g. stiffness_vf uses a symmetric let-variable)
        V = getattr(vform, spec['predefined'])(spec['dim'])
        if not add:
            raise ValueError('predefined forms are returned complete')
        return V
    dim = spec['dim']
    geo_dim = dim + 1 if spec.get('surface') else dim
    V = vform.VForm(dim, geo_dim=geo_dim, boundary=bool(spec.get('boundary')), arity=spec.get('arity', 2), spacetime=bool(spec.get('spacetime')))
    comps = tuple(spec.get('components', (None, None)))
    spaces = tuple(spec.get('spaces', (0, 0)))
    ns = {k: getattr(vform, k) for k in ('grad', 'hess', 'div', 'curl', 'inner', 'dot', 'cross', 'outer', 'det', 'inv', 'tr', 'norm', 'sqrt', 'exp',
                                          'log', 'sin', 'cos', 'tan', 'Dx', 'Dt', 'dx', 'ds', 'as_vector', 'as_matrix', 'minor')}
    if spec.get('arity', 2) == 1:
        ns['u'] = V.basisfuns(components=comps, spaces=spaces)
        ns['v'] = ns['u']
    else:
        ns['u'], ns['v'] = V.basisfuns(components=comps, spaces=spaces)
    for (name, shape, physical, updatable) in spec.get('inputs', []):
        ns[name] = V.input(name, shape=tuple(shape), physical=bool(physical), updatable=bool(updatable))
    for (name, shape) in spec.get('params', []):
        ns[name] = V.parameter(name, shape=tuple(shape))
    ns['V'] = V
    ns['abs'] = abs
    if 'n' in spec['expr'].replace('inner', '').replace('norm', '').replace('sin', '').replace('tan', '').replace('inv', '') and (spec.get('surface') or spec.get('boundary')):
        try:
            ns['n'] = V.normal
        except Exception:
            pass
    ns['x'] = V.Geo
    ns['gw'] = V.GaussWeight if 'gw' in spec['expr'] else None
    e = eval(spec['expr'], ns)
    if not add:
        return V, e
    V.add(e)
    return V


BASE = [
    {'dim': 2, 'expr': 'u*v*dx'},
    {'dim': 3, 'expr': 'u*v*dx'},
    {'dim': 1, 'expr': 'u*v*dx'},
    {'dim': 2, 'expr': 'inner(grad(u), grad(v))*dx'},
    {'dim': 3, 'expr': 'inner(grad(u), grad(v))*dx'},
    {'dim': 2, 'expr': '(inner(grad(u), grad(v)) + 2.0*u*v)*dx'},
    {'dim': 2, 'expr': 'f*u*v*dx', 'inputs': [['f', [], False, False]]},
    {'dim': 2, 'expr': 'f*u*v*dx', 'inputs': [['f', [], True, False]]},
    {'dim': 2, 'expr': 'sin(f)*u*v*dx', 'inputs': [['f', [], False, False]]},
    {'dim': 2, 'expr': '(sin(f)+cos(f))*u*v*dx', 'inputs': [['f', [], False, False]]},
    {'dim': 2, 'expr': 'exp(f)*inner(grad(u), grad(v))*dx', 'inputs': [['f', [], True, False]]},
    {'dim': 2, 'expr': 'inner(dot(K, grad(u)), grad(v))*dx', 'inputs': [['K', [2, 2], False, False]]},
    {'dim': 2, 'expr': 'inner(b, grad(u))*v*dx', 'inputs': [['b', [2], True, False]]},
    {'dim': 2, 'expr': 'c*u*v*dx', 'params': [['c', []]]},
    {'dim': 2, 'expr': 'inner(c, grad(u))*v*dx', 'params': [['c', [2]]]},
    {'dim': 2, 'arity': 1, 'expr': 'f*v*dx', 'inputs': [['f', [], True, False]]},
    {'dim': 2, 'arity': 1, 'expr': 'inner(grad(f), grad(v))*dx', 'inputs': [['f', [], False, False]]},
    {'dim': 2, 'arity': 1, 'expr': 'inner(grad(f), grad(v))*dx', 'inputs': [['f', [], True, False]]},
    {'dim': 2, 'expr': 'tr(hess(u))*tr(hess(v))*dx'},
    {'dim': 2, 'expr': 'tr(hess(f))*u*v*dx', 'inputs': [['f', [], False, False]]},
    {'dim': 2, 'expr': 'div(u)*div(v)*dx', 'components': [2, 2]},
    {'dim': 2, 'expr': 'inner(grad(u), grad(v))*dx', 'components': [2, 2]},
    {'dim': 2, 'expr': 'div(u)*v*dx', 'components': [2, 1], 'spaces': [0, 1]},
    {'dim': 3, 'expr': 'inner(curl(u), curl(v))*dx', 'components': [3, 3]},
    {'dim': 3, 'expr': 'inner(cross(b, grad(u)), grad(v))*dx', 'inputs': [['b', [3], False, False]]},
    {'dim': 2, 'expr': 'u*v*ds', 'boundary': True},
    {'dim': 2, 'expr': 'inner(grad(u), n)*v*ds', 'boundary': True},
    {'dim': 2, 'arity': 1, 'expr': 'f*v*ds', 'boundary': True, 'inputs': [['f', [], True, False]]},
    {'dim': 2, 'expr': 'u*v*ds', 'surface': True},
    {'dim': 1, 'expr': 'u*v*ds', 'surface': True},
    {'dim': 2, 'expr': 'det(K)*u*v*dx', 'inputs': [['K', [2, 2], False, False]]},
    {'dim': 2, 'expr': 'inner(dot(inv(K), grad(u)), grad(v))*dx', 'inputs': [['K', [2, 2], False, False]]},
    {'dim': 2, 'expr': 'abs(f)*sqrt(g)*u*v/(1.0+g)*dx', 'inputs': [['f', [], False, False], ['g', [], False, False]]},
    {'dim': 2, 'expr': 'u.dx(0)*v.dx(1)*dx'},
    {'dim': 2, 'expr': 'Dx(u, 0, parametric=True)*Dx(v, 0, parametric=True)*dx'},
    {'dim': 2, 'spacetime': True, 'expr': '(inner(grad(u), grad(v)) + u.dt()*v)*dx'},
    {'dim': 3, 'spacetime': True, 'expr': '(u.dt(2)*v.dt() + inner(grad(u), grad(v).dt()))*dx'},
    # mixed space/time derivatives with time order >= 2 (the rewriting of physical derivatives must keep the time order)
    {'dim': 2, 'spacetime': True, 'expr': 'inner(grad(u).dt(2), grad(v).dt())*dx'},
    {'dim': 3, 'spacetime': True, 'expr': '(inner(grad(u.dt(2)), grad(v)) + u.dt(3)*v)*dx'},
    {'dim': 2, 'expr': 'inner(outer(b, b), hess(u))*v*dx', 'inputs': [['b', [2], False, False]]},
    {'dim': 2, 'expr': 'f**2*u*v*dx', 'inputs': [['f', [], False, False]]},
    {'dim': 2, 'expr': 'tan(f)*log(2.0+g*g)*u*v*dx', 'inputs': [['f', [], False, False], ['g', [], True, False]]},
    {'dim': 3, 'expr': 'inner(dot(K, grad(u)), grad(v))*dx', 'inputs': [['K', [3, 3], True, False]]},
    {'dim': 2, 'expr': 'f*u*v*dx', 'inputs': [['f', [], False, True]]},
    {'dim': 2, 'expr': 'inner(hess(u), hess(v))*dx'},
    {'dim': 2, 'arity': 1, 'expr': 'inner(hess(f), hess(v))*dx', 'inputs': [['f', [], False, False]]},
    {'dim': 2, 'expr': 'stiffness_vf', 'predefined': 'stiffness_vf'},
    {'dim': 3, 'expr': 'stiffness_vf', 'predefined': 'stiffness_vf'},
    # both orientations of non-commutative operations on the same operands (CSE must not merge them)
    {'dim': 2, 'expr': '((f*f*f - g*g*g)*f + (g*g*g - f*f*f)*g + 5.0)*u*v*dx', 'inputs': [['f', [], False, False], ['g', [], False, False]]},
    {'dim': 2, 'expr': '((f*f+1.0)/(g*g+2.0) + (g*g+2.0)/(f*f+1.0))*u*v*dx', 'inputs': [['f', [], False, False], ['g', [], True, False]]},
]


def _norm(spec):
    s = {'dim': spec['dim'], 'arity': spec.get('arity', 2), 'boundary': bool(spec.get('boundary')), 'surface': bool(spec.get('surface')),
         'spacetime': bool(spec.get('spacetime')), 'components': list(spec.get('components', [None, None])), 'spaces': list(spec.get('spaces', [0, 0])),
         'inputs': [list(i) for i in spec.get('inputs', [])], 'params': [list(p) for p in spec.get('params', [])], 'expr': spec['expr']}
    if spec.get('predefined'):
        s['predefined'] = spec['predefined']
    return s


def base_forms():
    return [_norm(s) for s in BASE]


_TOKEN_SWAPS = [('sin(', 'cos('), ('cos(', 'sin('), ('exp(', 'log('), ('sqrt(', 'abs('), ('tan(', 'sin('), ('2.0', '3.0'), ('1.0+', '2.0+'),
                ('*u*v', '*u*u') , ('grad(u)', 'grad(v)'), ('.dx(0)', '.dx(1)'), ('.dt()', '.dt(2)'), ('inner(grad(u), grad(v))', 'u*v'),
                (' + ', ' - '), ('det(', 'tr('), ('inv(K)', 'K'), ('hess(u)', 'hess(v)'), ('u.dx(0)*v.dx(1)', 'u.dx(1)*v.dx(0)'),
                ('parametric=True)*Dx(v, 0, parametric=True)', 'parametric=True)*Dx(v, 1, parametric=True)'), ('f**2', 'f**3'), ('/(', '*('),
                # physical <-> parametric derivative of the same order
                ('grad(u)', 'grad(u, parametric=True)'), ('grad(v)', 'grad(v, parametric=True)'), ('hess(u)', 'hess(u, parametric=True)'),
                ('u.dx(0)', 'u.dx(0, parametric=True)'), ('div(u)', 'div(u, parametric=True)'), ('grad(f)', 'grad(f, parametric=True)'),
                ('Dx(u, 0, parametric=True)', 'Dx(u, 0)'), ('hess(f)', 'hess(f, parametric=True)')]


def neighbours(spec):
    """one-token mutation neighbours: (description, spec)"""
    out = []
    for a, b in _TOKEN_SWAPS:
        if a in spec['expr']:
            s = copy.deepcopy(spec)
            s['expr'] = spec['expr'].replace(a, b, 1)
            out.append(('token %s->%s' % (a, b), s))
    for k, inp in enumerate(spec['inputs']):
        s = copy.deepcopy(spec)
        s['inputs'][k][2] = not inp[2]
        out.append(('input %s physical flag' % inp[0], s))
        s = copy.deepcopy(spec)
        s['inputs'][k][3] = not inp[3]
        out.append(('input %s updatable flag' % inp[0], s))
    if spec['expr'].endswith('*dx') and not spec['spacetime']:
        s = copy.deepcopy(spec)
        s['expr'] = spec['expr'][:-3] + '*ds'
        s['boundary'] = True
        out.append(('measure dx->ds (boundary)', s))
    if spec['boundary']:
        s = copy.deepcopy(spec)
        s['boundary'] = False
        s['surface'] = True
        out.append(('boundary flag -> surface form', s))
    if spec['arity'] == 2 and spec['components'] == [None, None] and 'grad(u)' not in spec['expr'] and 'u*v' in spec['expr'] and not spec['spacetime']:
        s = copy.deepcopy(spec)
        s['spaces'] = [0, 1]
        out.append(('space index of v', s))
    if spec['components'] == [2, 2] and 'div' in spec['expr']:
        pass
    return out


def is_multilinear(spec, vform=None):
    """a well-formed variational form is linear in every basis function it declares (the assemblers rely on it: pairs without common
    support are skipped): checked on the denotation -- vanishing when a basis function is replaced by 0 and homogeneous of degree 1"""
    import sympy as sp
    from pyvc.exprsem import Sem
    if vform is None:
        from pyiga import vform
    V = build(spec, vform=vform)
    S = Sem(V, vform)
    t = sp.Symbol('t_scale')
    for e in V.exprs:
        d = S.den(e)
        comps = list(d) if isinstance(d, sp.MatrixBase) else [d]
        for bf in V.basis_funs:
            f = sp.Function('bf_' + bf.name)(*S.xi)
            for c in comps:
                if sp.simplify(c.subs(f, 0).doit()) != 0:
                    return False
                if sp.simplify((c.subs(f, t * f).doit() - t * c)) != 0:
                    return False
    return True
