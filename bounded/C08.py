"""C08 bounded tier: the assembled operator does not depend on symmetry flag, sparse format, vector layout, index
subset, on-demand bounding box, update-vs-fresh construction, object reuse, thread count and chunking (real code)."""
import itertools

import numpy as np

from . import common

COVERS = ['*']
DOMAIN = {'quick': 'forms: mass/stiffness 2D+3D, heat/wave space-time 2D, div-div 2D+3D (shipped assemblers), and compiled forms: 1D mass with parameter, '
                   '2D non-symmetric 2x2 vector form, 2D Petrov-Galerkin div(u)*v with 2x1 component blocks on two spaces, 2D updatable field; '
                   'spaces: degrees 1-3 mixed per axis, 2-5 spans, repeated interior knots; geometries: quarter annulus, perturbed square/cube; '
                   'formats csr/csc/coo/bsr(/mlb), layouts blocked/packed, symmetric F/T, thread settings 1,2,3,5,16 (chunking of the thread pool and '
                   'OpenMP num_threads; the pool itself has the size it was created with), random index subsets incl. duplicates/empty/unsorted, '
                   'row subsets, on-demand bounding boxes, update sequences',
          'thorough': 'same with more spaces, seeds and thread settings 1..16'}
RULE = 'case = (form, space, configuration); distinct by input'

TOL = 1e-12


def _kv(spec):
    from pyiga import bspline
    p, br, mult = spec
    kv = [br[0]] * (p + 1)
    for b, m in zip(br[1:-1], mult):
        kv += [b] * m
    kv += [br[-1]] * (p + 1)
    return bspline.KnotVector(np.array(kv, dtype=float), p)


def _geo(name, dim):
    from pyiga import geometry, bspline
    if name == 'annulus' and dim == 2:
        return geometry.quarter_annulus()
    if name == 'cube':
        return geometry.unit_cube(dim=dim)
    # perturbed unit square/cube: identity plus a smooth bump (Jacobian stays positive)
    from pyiga import approx
    kv = bspline.make_knots(2, 0.0, 1.0, 2)
    if dim == 2:
        f = lambda x, y: np.stack(np.broadcast_arrays(x + 0.1 * np.sin(2 * y) * x * (1 - x), y + 0.15 * x * y * (1 - y)), axis=-1)
    elif dim == 3:
        f = lambda x, y, z: np.stack(np.broadcast_arrays(x + 0.1 * y * x * (1 - x) + 0 * z, y + 0.1 * z * y * (1 - y) + 0 * x, z + 0.1 * x * z * (1 - z) + 0 * y), axis=-1)
    else:
        f = lambda x: np.stack((x + 0.2 * x * (1 - x),), axis=-1)
    return bspline.BSplineFunc(dim * (kv,), approx.interpolate(dim * (kv,), f))


_FORMS = {}


def _form(name):
    """(problem, kwargs for assemble(), number of spaces, symmetric?, vector?)"""
    from pyiga import vform
    if name in _FORMS:
        return _FORMS[name]
    if name == 'mass1c':
        r = ('c * u * v * dx', {'c': 1.7}, 1, True)
    elif name.startswith('mass'):
        r = (vform.mass_vf(int(name[-1])), {}, 1, True)
    elif name.startswith('stiff'):
        r = (vform.stiffness_vf(int(name[-1])), {}, 1, True)
    elif name == 'heat2':
        r = (vform.heat_st_vf(2), {}, 1, False)
    elif name == 'wave2':
        r = (vform.wave_st_vf(2), {}, 1, False)
    elif name.startswith('divdiv'):
        r = (vform.divdiv_vf(int(name[-1])), {}, 1, True)
    elif name == 'nonsym22':
        r = ('inner(as_matrix([[2,1],[0,3]]).dot(u), v) * dx + u[0].dx(0) * v[1] * dx', {'bfuns': [('u', 2), ('v', 2)]}, 1, False)
    elif name == 'pg21':
        r = ('(div(u) * v + 0.5 * u[0] * v) * dx', {'bfuns': [('u', 2, 0), ('v', 1, 1)]}, 2, False)
    elif name == 'pg12':
        r = ('(u * div(v) + 0.5 * u * v[1]) * dx', {'bfuns': [('u', 1, 0), ('v', 2, 1)]}, 2, False)
    elif name == 'sym22':
        r = ('(inner(grad(u), grad(v)) + div(u) * div(v)) * dx', {'bfuns': [('u', 2), ('v', 2)]}, 1, True)
    else:
        raise KeyError(name)
    _FORMS[name] = r
    return r


def _spaces(c):
    kvs = tuple(_kv(s) for s in c['kvs'])
    if 'kvs2' in c:
        return (kvs, tuple(_kv(s) for s in c['kvs2']))
    return kvs


def _dense(A):
    if hasattr(A, 'asmatrix'):
        A = A.asmatrix()
    return A.toarray() if hasattr(A, 'toarray') else np.asarray(A)


def _assemble(c, **over):
    from pyiga import assemble
    problem, kw, nsp, sym = _form(c['form'])
    kvs = _spaces(c)
    dim = len(c['kvs'])
    args = dict(kw)
    bf = args.pop('bfuns', None)
    args['geo'] = _geo(c.get('geo', 'bump'), dim)
    opts = {'symmetric': False, 'format': 'csr', 'layout': 'blocked'}
    opts.update(over)
    return assemble.assemble(problem, kvs, bfuns=bf, args=args, **opts)


def _assemble_cls(c, symmetric=False, format='csr', layout='blocked'):
    """the same matrix through the reusable Assembler object"""
    from pyiga import assemble
    problem, kw, nsp, sym = _form(c['form'])
    args = dict(kw)
    bf = args.pop('bfuns', None)
    args['geo'] = _geo(c.get('geo', 'bump'), len(c['kvs']))
    return assemble.Assembler(problem, _spaces(c), bfuns=bf, args=args, symmetric=symmetric).assemble(format=format, layout=layout)


def _close(A, B, what):
    A, B = np.asarray(A), np.asarray(B)
    assert A.shape == B.shape, '%s: shape %r vs %r' % (what, A.shape, B.shape)
    scale = max(1.0, np.abs(B).max() if B.size else 1.0)
    err = np.abs(A - B).max() if A.size else 0.0
    assert err <= TOL * scale, '%s: max difference %g (scale %g)' % (what, err, scale)


def _ncomp(c):
    problem, kw, nsp, sym = _form(c['form'])
    if isinstance(problem, str):
        bf = kw.get('bfuns')
        if not bf:
            return None
        d = {b[0]: b[1] for b in bf}
        return d.get('u', 1), d.get('v', 1)
    if problem.vec:
        return tuple(b.numcomp for b in problem.basis_funs)
    return None


def _perm_blocked_to_packed(n, ncomp):
    """index map: blocked position comp*n + dof  ->  packed position dof*ncomp + comp"""
    idx = np.arange(n * ncomp)
    comp, dof = idx // n, idx % n
    return dof * ncomp + comp


def chk_formats(c):
    """all formats x layouts x symmetric agree with csr/blocked/unsymmetric"""
    ref = _dense(_assemble(c))
    sym = _form(c['form'])[3]
    nc = _ncomp(c)
    fmts = ['csr', 'csc', 'coo', 'bsr'] + (['mlb'] if nc else [])
    dim = len(c['kvs'])
    # MLStructure.nonzero(lower_tri=True) is explicitly not implemented in 1D (assertion with that message): outside the domain
    for symmetric in ([False, True] if sym and dim > 1 else [False]):
        for layout in (['blocked', 'packed'] if nc else ['blocked']):
            for fmt in fmts:
                A = _assemble(c, symmetric=symmetric, format=fmt, layout=layout)
                if fmt != 'mlb':
                    assert A.format == fmt, 'requested format %s, got %s' % (fmt, A.format)
                D = _dense(A)
                if layout == 'packed':
                    nu, nv = nc
                    Nv, Nu = ref.shape[0] // nv, ref.shape[1] // nu
                    pr, pc = _perm_blocked_to_packed(Nv, nv), _perm_blocked_to_packed(Nu, nu)
                    E = np.zeros_like(ref)
                    E[np.ix_(pr, pc)] = ref
                else:
                    E = ref
                _close(D, E, 'symmetric=%s format=%s layout=%s' % (symmetric, fmt, layout))
                if fmt in ('csr', 'bsr', 'mlb'):
                    # a reusable Assembler object honours format and layout like the one-shot assemble()
                    D2 = _dense(_assemble_cls(c, symmetric=symmetric, format=fmt, layout=layout))
                    assert D2.shape == D.shape and np.array_equal(D2, D), 'Assembler(...).assemble(format=%s, layout=%s, symmetric=%s) differs from assemble(...) with the same options' % (fmt, layout, symmetric)


def chk_threads(c):
    """bitwise identical for every thread setting"""
    import pyiga
    nc = _ncomp(c)
    old = pyiga.get_max_threads()
    try:
        res = []
        for t in c['threads']:
            pyiga.set_max_threads(t)
            A = _assemble(c, symmetric=c.get('symmetric', False), layout=c.get('layout', 'blocked'))
            A.sum_duplicates()
            A.sort_indices()
            res.append((t, A.indptr.copy(), A.indices.copy(), A.data.copy()))
        t0, ip0, ix0, d0 = res[0]
        for t, ip, ix, d in res[1:]:
            assert np.array_equal(ip, ip0) and np.array_equal(ix, ix0), 'sparsity pattern differs between %d and %d threads' % (t0, t)
            assert np.array_equal(d, d0), 'values differ bitwise between %d and %d threads (max diff %g)' % (t0, t, np.abs(d - d0).max())
    finally:
        pyiga.set_max_threads(old)


def _asm_object(c, on_demand=False, bbox=None, updatable=()):
    from pyiga import assemble, vform, compile, bspline
    problem, kw, nsp, sym = _form(c['form'])
    kvs = _spaces(c)
    dim = len(c['kvs'])
    args = {k: v for k, v in kw.items() if k != 'bfuns'}
    args['geo'] = _geo(c.get('geo', 'bump'), dim)
    if on_demand:
        if isinstance(problem, str):
            problem = vform.parse_vf(problem, kvs if nsp == 1 else kvs[0], args=args, bfuns=kw.get('bfuns'))
        cls = compile.compile_vform(problem, on_demand=True)
        used = {k: args[k] for k in list(cls.inputs().keys()) + list(cls.parameters().keys())}
        return cls(kvs, bbox=bbox, **used)
    return assemble.instantiate_assembler(problem, kvs, args, kw.get('bfuns'))


def chk_subset(c):
    """multi_entries / multi_blocks / entry on arbitrary index lists == entries of the full matrix"""
    import pyiga
    rng = np.random.RandomState(c['seed'])
    nc = _ncomp(c)
    asm = _asm_object(c)
    old = pyiga.get_max_threads()
    try:
        pyiga.set_max_threads(c.get('nthreads', 3))
        if nc is None:
            A = _dense(_assemble(c))
            m, n = A.shape
            for size in (0, 1, 7, 64):
                I = rng.randint(0, m, size=size)
                J = rng.randint(0, n, size=size)
                if size == 7:
                    I[3], J[3] = I[0], J[0]                 # duplicate
                idx = np.column_stack((I, J)).astype(np.uintp) if size else np.zeros((0, 2), dtype=np.uintp)
                vals = asm.multi_entries(idx)
                _close(vals, A[I, J], 'multi_entries on %d random index pairs (ndarray)' % size)
                if size:
                    vals2 = asm.multi_entries([(int(i), int(j)) for i, j in zip(I, J)])
                    assert np.array_equal(np.asarray(vals2), np.asarray(vals)), 'multi_entries(list) differs from multi_entries(ndarray)'
                    assert abs(asm.entry(int(I[0]), int(J[0])) - A[I[0], J[0]]) <= TOL * max(1.0, np.abs(A).max()), 'entry() differs from the matrix'
            # a second pass over the same object gives the same numbers (reuse)
            idx = np.column_stack((rng.randint(0, m, size=33), rng.randint(0, n, size=33))).astype(np.uintp)
            v1 = np.array(asm.multi_entries(idx))
            v2 = np.array(asm.multi_entries(idx[::-1].copy()))[::-1]
            assert np.array_equal(v1, v2), 'multi_entries depends on the order / earlier calls'
        else:
            nu, nv = nc
            P = _dense(_assemble(c, layout='packed'))
            Nv, Nu = P.shape[0] // nv, P.shape[1] // nu
            for size in (1, 9):
                I = rng.randint(0, Nv, size=size)
                J = rng.randint(0, Nu, size=size)
                blocks = np.asarray(asm.multi_blocks(np.column_stack((I, J)).astype(np.uintp)))
                for k in range(size):
                    E = P[I[k] * nv:(I[k] + 1) * nv, J[k] * nu:(J[k] + 1) * nu]
                    B = blocks[k]
                    assert B.size == E.size, 'block size %r vs %r' % (B.shape, E.shape)
                    assert B.shape == E.shape, 'multi_blocks returns blocks of shape %r, the matrix block (test x trial components) has shape %r' % (B.shape, E.shape)
                    _close(B, E, 'multi_blocks block (%d,%d)' % (I[k], J[k]))
    finally:
        pyiga.set_max_threads(old)


def chk_rows(c):
    """_assemble_partial_rows == the selected rows of the full matrix"""
    from pyiga import _hdiscr
    rng = np.random.RandomState(c['seed'])
    A = _dense(_assemble(c))
    asm = _asm_object(c)
    m = A.shape[0]
    for size in (1, 3, m):
        rows = sorted(set(rng.randint(0, m, size=size).tolist())) if size < m else list(range(m))
        R = _dense(_hdiscr._assemble_partial_rows(asm, np.array(rows)))
        E = np.zeros_like(A)
        E[rows] = A[rows]
        _close(R, E, 'partial rows %r' % (rows[:5],))


def chk_bbox(c):
    """an on-demand assembler restricted to a bounding box of cells gives the full-matrix entries for all pairs of basis
    functions supported inside the box"""
    from pyiga import bspline
    rng = np.random.RandomState(c['seed'])
    A = _dense(_assemble(c))
    kvs = _spaces(c)
    dim = len(kvs)
    for trial in range(3):
        bbox = []
        for kv in kvs:
            ns = kv.numspans
            a = rng.randint(0, ns)
            b = rng.randint(a + 1, ns + 1)
            bbox.append((a, b))
        asm = _asm_object(c, on_demand=True, bbox=tuple(bbox))
        # functions whose support lies inside the box, per axis
        inside = []
        for kv, (a, b) in zip(kvs, bbox):
            lo, hi = kv.mesh[a], kv.mesh[b]
            inside.append([j for j in range(kv.numdofs) if kv.kv[j] >= lo and kv.kv[j + kv.p + 1] <= hi])
        funcs = [np.ravel_multi_index(t, tuple(kv.numdofs for kv in kvs)) for t in itertools.product(*inside)]
        if not funcs:
            continue
        pairs = [(i, j) for i in funcs for j in funcs]
        if len(pairs) > 400:
            sel = rng.choice(len(pairs), size=400, replace=False)
            pairs = [pairs[k] for k in sel]
        idx = np.array(pairs, dtype=np.uintp)
        vals = np.asarray(asm.multi_entries(idx))
        _close(vals, A[idx[:, 0].astype(int), idx[:, 1].astype(int)], 'on-demand entries with bbox %r' % (bbox,))


def chk_update(c):
    """update() of an updatable field == constructing afresh; the object can be reused and updated back"""
    from pyiga import assemble, bspline, geometry
    kvs = _spaces(c)
    dim = len(kvs)
    geo = _geo(c.get('geo', 'bump'), dim)
    fs = [lambda *x: 1.0 + x[0] * x[-1], lambda *x: np.exp(x[0]) - 0.3 * x[-1], lambda *x: 2.0 + 0 * x[0]]
    problem = 'f * inner(grad(u), grad(v)) * dx + f * f * u * v * dx'
    sym = c.get('symmetric', False)
    if c.get('gradf'):
        # the updatable field enters through several array variables (value and gradient): all of them must be refreshed
        problem = 'f * u * v * dx + inner(grad(f), grad(v)) * u * dx'
        sym = False
        rs = np.random.RandomState(17)
        shape = tuple(kv.numdofs for kv in kvs)
        fs = [bspline.BSplineFunc(kvs, rs.uniform(-1.0, 2.0, size=shape)) for _ in range(3)]

    def fresh(f):
        return _dense(assemble.assemble(problem, kvs, geo=geo, f=f, symmetric=sym))
    only = c.get('only')
    if only not in (None, 0):
        fs_only = True
    asm = assemble.Assembler(problem, kvs, geo=geo, f=fs[0], symmetric=sym, updatable=['f']) if only in (None, 0) else None
    if asm is not None:
        _close(_dense(asm.assemble()), fresh(fs[0]), 'updatable assembler, initial field')
    for k in c['sequence']:
        if c.get('via_kwargs'):
            A = asm.assemble(f=fs[k])
        else:
            asm.update(f=fs[k])
            A = asm.assemble(format='csc')
        _close(_dense(A), fresh(fs[k]), 'after update to field %d' % k)
        _close(_dense(asm.assemble()), fresh(fs[k]), 'second assemble() after update to field %d' % k)
    # constant parameters: update_params() == constructing afresh (also where the parameter enters precomputed fields)
    if only == 0:
        return
    for kk, (problem2, par) in enumerate((('c * u * v * dx', {'c': 1.5}), ('c * f * inner(grad(u), grad(v)) * dx + sin(c) * f * f * u * v * dx', {'c': 0.7}),
                          ('inner(b, grad(u)) * v * c * dx', {'c': 2.0, 'b': (0.5, -1.0)}),
                          # constants DERIVED from a parameter and shared between terms are hoisted out of the kernel: they must follow an update too
                          ('norm(b) * norm(b) * u * v * dx', {'b': (3.0, 4.0)}),
                          ('(sin(c) + cos(c)) * u * v * dx + (sin(c) + cos(c)) * inner(grad(u), grad(v)) * dx', {'c': 0.3}))):
        if only is not None and only != kk + 1:
            continue
        extra = {'f': fs[0]} if ' f ' in problem2 or '* f' in problem2 else {}
        a0 = assemble.instantiate_assembler(problem2, kvs, dict(par, geo=geo, **extra), None)
        A0 = _dense(assemble.assemble_entries(a0))
        _close(A0, _dense(assemble.assemble(problem2, kvs, geo=geo, **par, **extra)), 'parameter form, initial values')
        new = {k: (tuple(2.5 * x for x in v) if isinstance(v, tuple) else v + 1.25) for k, v in par.items()}
        a0.update_params(**new)
        _close(_dense(assemble.assemble_entries(a0)), _dense(assemble.assemble(problem2, kvs, geo=geo, **new, **extra)), 'after update_params(%r)' % (new,))
        a0.update_params(**par)
        _close(_dense(assemble.assemble_entries(a0)), A0, 'after updating the parameters back')


def chk_vector_layout(c):
    """arity-1 vector-valued: packed = blocked with the component axis moved"""
    from pyiga import assemble
    kvs = _spaces(c)
    dim = len(kvs)
    geo = _geo(c.get('geo', 'bump'), dim)
    f = lambda *x: x[0] * x[-1] + 1.0
    p = assemble.assemble('f * div(v) * dx', kvs, bfuns=[('v', dim)], geo=geo, f=f, layout='packed')
    b = assemble.assemble('f * div(v) * dx', kvs, bfuns=[('v', dim)], geo=geo, f=f, layout='blocked')
    assert p.shape == tuple(kv.numdofs for kv in kvs) + (dim,), 'packed shape %r' % (p.shape,)
    assert b.shape == (dim,) + tuple(kv.numdofs for kv in kvs), 'blocked shape %r' % (b.shape,)
    assert np.array_equal(np.moveaxis(p, -1, 0), b), 'packed and blocked vectors differ'


def chk_max_threads(c):
    import pyiga
    old = pyiga.get_max_threads()
    try:
        for t in c['values']:
            pyiga.set_max_threads(t)
            assert pyiga.get_max_threads() == t, 'get_max_threads() = %r after set_max_threads(%r)' % (pyiga.get_max_threads(), t)
    finally:
        pyiga.set_max_threads(old)
    from pyiga import assemble_tools_cy as at
    for n, k in c['chunks']:
        tasks = np.arange(n)
        parts = list(at.chunk_tasks(tasks, k))
        cat = np.concatenate(parts) if parts else np.zeros(0, dtype=int)
        assert np.array_equal(cat, tasks), 'chunk_tasks(%d, %d) does not partition the tasks in order' % (n, k)
        assert all(len(p) > 0 for p in parts) and len(parts) <= max(k, 1), 'chunk_tasks(%d, %d) gives %d chunks' % (n, k, len(parts))
        other = list(at.chunk_tasks(np.zeros((n, 2)), k))
        assert [len(p) for p in other] == [len(p) for p in parts], 'chunking of two arrays of equal length differs'


CHECKS = {'formats': chk_formats, 'threads': chk_threads, 'subset': chk_subset, 'rows': chk_rows, 'bbox': chk_bbox, 'update': chk_update,
          'vector_layout': chk_vector_layout, 'max_threads': chk_max_threads}


def _kvspecs(rng, dim, quick):
    brs = [[0.0, 0.5, 1.0], [0.0, 0.3, 0.55, 1.0], [0.0, 0.25, 0.5, 0.75, 1.0], [0.0, 0.1, 0.4, 0.7, 0.85, 1.0]]
    out = []
    for _ in range(dim):
        p = rng.choice([1, 2, 3])
        br = rng.choice(brs[:3] if dim == 3 else brs)
        mult = [rng.choice([1, 1, min(2, p)]) for _ in br[1:-1]]
        out.append([p, br, mult])
    return out


def generate(tier, rng):
    quick = tier == 'quick'
    threads_small = [1, 2, 3, 5, 16]
    threads_all = list(range(1, 17))
    scal = ['mass2', 'stiff2', 'heat2', 'wave2', 'mass3', 'stiff3']
    vec = ['divdiv2', 'divdiv3', 'nonsym22', 'sym22']
    yield 'max_threads', {'values': [1, 2, 7, 16], 'chunks': [[n, k] for n in (0, 1, 2, 5, 16, 17, 100) for k in (1, 2, 3, 16, 17)]}
    nrep = 2 if quick else 6
    for form in scal + vec:
        dim = int(form[-1]) if form[-1] in '23' and form not in ('nonsym22', 'sym22') else 2
        for r in range(nrep if dim == 2 else max(1, nrep // 2)):
            kv = _kvspecs(rng, dim, quick)
            if dim == 3:
                kv = [[min(s[0], 2), s[1][:3], s[2][:1]] for s in kv]
            geo = ['bump', 'annulus', 'cube'][r % 3] if dim == 2 else ['bump', 'cube'][r % 2]
            base = {'form': form, 'kvs': kv, 'geo': geo}
            yield 'formats', base
            yield 'threads', dict(base, threads=threads_small if quick else threads_all, symmetric=bool(r % 2) and _is_sym(form), layout=['blocked', 'packed'][r % 2] if form in vec else 'blocked')
            yield 'subset', dict(base, seed=r, nthreads=[3, 16, 2][r % 3])
            if form in ('mass2', 'stiff2', 'heat2', 'mass3'):
                yield 'rows', dict(base, seed=r)
            if form in ('mass2', 'stiff2', 'mass3') and (r == 0 or not quick):
                yield 'bbox', dict(base, seed=r)
    # Petrov-Galerkin forms with non-square component blocks on two different spaces
    for form in ('pg21', 'pg12'):
        for r in range(nrep):
            kv, kv2 = _kvspecs(rng, 2, quick), _kvspecs(rng, 2, quick)
            # the two spaces share the mesh (breakpoints) but not degree / multiplicities: the interior multiplicities of the second
            # space are chosen independently (different smoothness: the sparsity pattern of the pair is not that of either space)
            for ax, (a, b) in enumerate(zip(kv, kv2)):
                b[1] = a[1]
                b[2] = [int(rng.choice([1, min(2, b[0]), b[0]])) for _ in b[1][1:-1]]
                if ax == 0 and b[2] == a[2] and a[0] >= 2 and len(a[2]) >= 1:
                    a[2][0] = 1 if a[2][0] != 1 else 2
            base = {'form': form, 'kvs': kv, 'kvs2': kv2, 'geo': ['bump', 'annulus'][r % 2]}
            yield 'formats', base
            yield 'subset', dict(base, seed=r)
            yield 'threads', dict(base, threads=threads_small, layout=['blocked', 'packed'][r % 2])
    for r in range(nrep):
        yield 'formats', {'form': 'mass1c', 'kvs': _kvspecs(rng, 1, quick), 'geo': 'bump'}
    for r in range(2 if quick else 6):
        yield 'update', {'kvs': _kvspecs(rng, 2, quick), 'geo': ['bump', 'annulus'][r % 2], 'sequence': [[1, 2, 0], [2, 2, 1, 0]][r % 2], 'symmetric': bool(r % 2), 'via_kwargs': bool(r // 2 % 2) or r == 1}
        yield 'update', {'kvs': _kvspecs(rng, 2, quick), 'geo': ['bump', 'annulus'][r % 2], 'sequence': [[1, 2, 0], [2, 1]][r % 2], 'gradf': True, 'only': 0, 'via_kwargs': bool(r % 2)}
        yield 'vector_layout', {'kvs': _kvspecs(rng, 2 + (r % 2 if not quick else 0), quick), 'geo': 'bump'}


def warmup(tier):
    """compile every form the cases need (one process each; results land in the on-disk module cache)"""
    kv2 = [[2, [0.0, 0.5, 1.0], [1]], [2, [0.0, 0.5, 1.0], [1]]]
    jobs = []
    for form in ('nonsym22', 'sym22'):
        jobs.append(lambda form=form: _assemble({'form': form, 'kvs': kv2}))
    for form in ('pg21', 'pg12'):
        jobs.append(lambda form=form: _assemble({'form': form, 'kvs': kv2, 'kvs2': kv2}))
    jobs.append(lambda: _assemble({'form': 'mass1c', 'kvs': kv2[:1]}))
    for form in ('mass2', 'stiff2'):
        jobs.append(lambda form=form: _asm_object({'form': form, 'kvs': kv2}, on_demand=True, bbox=((0, 1), (0, 1))))
    jobs.append(lambda: _asm_object({'form': 'mass3', 'kvs': kv2 + kv2[:1]}, on_demand=True, bbox=((0, 1), (0, 1), (0, 1))))
    jobs.append(lambda: chk_update({'kvs': kv2, 'sequence': [], 'symmetric': False, 'only': 0}))
    jobs.append(lambda: chk_update({'kvs': kv2, 'sequence': [], 'gradf': True, 'only': 0}))
    for k in (1, 2, 3, 4, 5):
        jobs.append(lambda k=k: chk_update({'kvs': kv2, 'sequence': [], 'only': k}))
    jobs.append(lambda: chk_vector_layout({'kvs': kv2}))
    if tier != 'quick':
        jobs.append(lambda: chk_vector_layout({'kvs': kv2 + kv2[:1]}))
    return jobs


def _is_sym(form):
    return form in ('mass2', 'stiff2', 'mass3', 'stiff3', 'divdiv2', 'divdiv3', 'sym22')


if __name__ == '__main__':
    import sys
    common.main(sys.modules[__name__])
