"""C01 bounded tier: compiled assemblers compute the integrand the variational form denotes (real code, real compiler).

Reference: the denotation of the un-finalized form (pyvc/exprsem.py: physical derivatives by the chain rule, dx/ds by the
Jacobian, ...) is evaluated numerically on the tensor Gauss-Legendre grid (max degree + 1 nodes per knot span, nodes and
weights from numpy.polynomial.legendre) with basis-function jets from collocation_derivs, geometry / parametric-field
jets from the B-spline coefficients and 1D derivative matrices (not from grid_jacobian/grid_hessian), physical fields
called at the mapped points; summed per pair of basis functions.  The compiled assembler's matrix/vector must agree."""
import itertools

import numpy as np

from . import common, formgen

COVERS = ['*']
DOMAIN = {'quick': 'the 44 enumerated forms of formgen (scalar/vector, mass/stiffness/convection/curl/div/Hessian/space-time/surface, parametric and physical '
                   'fields, parameters, builtin functions, Petrov-Galerkin on two spaces) minus boundary forms and forms needing derivatives of callables; '
                   'spaces: mixed degrees 1-3 per axis, 2-4 spans, repeated interior knots (smoothness permitting the derivative order); geometries: '
                   'B-spline bump maps and affine maps, graph surfaces; 1 space x 1 geometry per form (2 for the first 12)',
          'thorough': 'all one-token neighbour forms as well, 3 spaces per form'}
RULE = 'case = (form, space, geometry, field data); distinct by input'
TOL = 1e-9


def _kv(spec):
    from pyiga import bspline
    p, br, mult = spec
    kv = [br[0]] * (p + 1)
    for b, m in zip(br[1:-1], mult):
        kv += [b] * m
    kv += [br[-1]] * (p + 1)
    return bspline.KnotVector(np.array(kv, dtype=float), p)


def _gauss(kvs, nqp=None):
    """per kv axis: nodes and weights of the composite Gauss rule with nqp (default max(p)+1) points per span"""
    if nqp is None:
        nqp = max(kv.p for kv in kvs) + 1
    x, w = np.polynomial.legendre.leggauss(nqp)
    out = []
    for kv in kvs:
        m = np.unique(kv.kv)
        nodes, weights = [], []
        for a, b in zip(m[:-1], m[1:]):
            nodes.extend((a + b) / 2 + (b - a) / 2 * x)
            weights.extend((b - a) / 2 * w)
        out.append((np.array(nodes), np.array(weights)))
    return out


def _bspline_jet(func, grid, D):
    """derivative D (indexed by coordinate k, coordinate k <-> kv axis dim-1-k) of a BSplineFunc on the tensor grid, independent of
    the library's grid_jacobian/grid_hessian: contraction of the coefficient array with 1D derivative collocation matrices"""
    from pyiga import bspline
    kvs = func.kvs
    dim = len(kvs)
    C = np.asarray(func.coeffs, dtype=float)
    for ax in range(dim):
        d = D[dim - 1 - ax]
        B = bspline.collocation_derivs(kvs[ax], grid[ax], derivs=d)[d].toarray()      # (npts, ndofs)
        C = np.moveaxis(np.tensordot(B, C, axes=(1, ax)), 0, ax)
    return C      # grid shape (+ component axes)


def _geo(name, dim, geo_dim):
    from pyiga import bspline, approx, geometry
    kv = bspline.make_knots(2, 0.0, 1.0, 2)
    if geo_dim == dim + 1:
        # graph surface / curve in one more dimension
        if dim == 1:
            f = lambda x: np.stack(np.broadcast_arrays(x + 0.1 * x * x, 0.5 * x * (1 - x) + 0.2 * x), axis=-1)
        else:
            f = lambda x, y: np.stack(np.broadcast_arrays(x + 0.1 * y * x, y + 0.05 * x, 0.3 * x * y + 0.1 * x * x), axis=-1)
        return bspline.BSplineFunc(dim * (kv,), approx.interpolate(dim * (kv,), f))
    if name == 'affine':
        kv1 = bspline.make_knots(1, 0.0, 1.0, 1)
        if dim == 1:
            f = lambda x: np.stack((0.5 + 1.5 * x,), axis=-1)
        elif dim == 2:
            f = lambda x, y: np.stack(np.broadcast_arrays(1.0 + 1.5 * x + 0.25 * y, -0.5 + 0.5 * x + 2.0 * y), axis=-1)
        else:
            f = lambda x, y, z: np.stack(np.broadcast_arrays(1.0 + 1.5 * x + 0.25 * y, 2.0 * y + 0.1 * z, -z * 1.25 + 0.2 * x + 3), axis=-1)
        return bspline.BSplineFunc(dim * (kv1,), approx.interpolate(dim * (kv1,), f))
    if dim == 1:
        f = lambda x: np.stack((x + 0.2 * x * (1 - x),), axis=-1)
    elif dim == 2:
        f = lambda x, y: np.stack(np.broadcast_arrays(x + 0.1 * np.sin(2 * y) * x * (1 - x) + 0.1 * y, y + 0.15 * x * y * (1 - y)), axis=-1)
    else:
        f = lambda x, y, z: np.stack(np.broadcast_arrays(x + 0.1 * y * x * (1 - x) + 0 * z, y + 0.1 * z * y * (1 - y) + 0 * x, z + 0.1 * x * z * (1 - z) + 0.05 * y), axis=-1)
    return bspline.BSplineFunc(dim * (kv,), approx.interpolate(dim * (kv,), f))


def _spacetime_geo(dim):
    """space-time cylinder: spatial map independent of time, time mapped to itself"""
    from pyiga import bspline, approx
    kv = bspline.make_knots(2, 0.0, 1.0, 2)
    if dim == 2:
        f = lambda t, x: np.stack(np.broadcast_arrays(x + 0.2 * x * (1 - x) + 0 * t, t + 0 * x), axis=-1)
    else:
        f = lambda t, y, x: np.stack(np.broadcast_arrays(x + 0.1 * np.sin(2 * y) * x * (1 - x) + 0 * t, y + 0.15 * x * y * (1 - y) + 0 * t, t + 0 * x + 0 * y), axis=-1)
    # NB: callables passed to approx.interpolate receive the coordinates in xy.. order; time is the LAST coordinate
    if dim == 2:
        f = lambda x, t: np.stack(np.broadcast_arrays(x + 0.2 * x * (1 - x) + 0 * t, t + 0 * x), axis=-1)
    else:
        f = lambda x, y, t: np.stack(np.broadcast_arrays(x + 0.1 * np.sin(2 * y) * x * (1 - x) + 0 * t, y + 0.15 * x * y * (1 - y) + 0 * t, t + 0 * x + 0 * y), axis=-1)
    return bspline.BSplineFunc(dim * (kv,), approx.interpolate(dim * (kv,), f))


def _field(name, shape, physical, dim, seed):
    """input data for a declared field: parametric fields are B-spline functions, physical fields python callables"""
    from pyiga import bspline, approx
    rng = np.random.RandomState(seed)
    n = int(np.prod(shape)) if shape else 1
    if physical:
        cf = rng.rand(n, dim + 1) + 0.5

        def f(*X):
            X = np.broadcast_arrays(*X)
            vals = [cf[k, 0] + sum(cf[k, d + 1] * X[d] for d in range(dim)) + 0.1 * X[0] * X[-1] for k in range(n)]
            out = np.stack(vals, axis=-1)
            if tuple(shape) == (dim, dim) or len(shape) == 2:
                # keep matrix fields symmetric positive definite-ish: A + A^T + 4 I
                M = out.reshape(out.shape[:-1] + tuple(shape))
                M = M + np.swapaxes(M, -1, -2) + 4 * np.eye(shape[0])
                return M
            return out.reshape(out.shape[:-1] + tuple(shape)) if shape else out[..., 0]
        return f
    kv = bspline.make_knots(2, 0.0, 1.0, 2)
    C = rng.rand(*(dim * (kv.numdofs,) + tuple(shape))) + 0.5
    if len(shape) == 2:
        C = C + np.swapaxes(C, -1, -2) + 4 * np.eye(shape[0])
    return bspline.BSplineFunc(dim * (kv,), C)


def _reference(spec, kvs_spaces, geo, data):
    """numeric evaluation of the form's denotation on the Gauss grid"""
    import sympy as sp
    from pyiga import vform as m, bspline
    from pyvc.exprsem import Sem
    V = formgen.build(spec, vform=m)
    S = Sem(V, m)
    dim = V.dim
    exprs = [S.den(e) for e in V.exprs]
    kvs0 = kvs_spaces[0]
    # max degree over ALL spaces the form uses + 1 nodes per span (the spaces share the mesh)
    used = sorted({bf.space for bf in V.basis_funs})
    allkvs = [kv for sp_ in used for kv in kvs_spaces[sp_]]
    nqp = max(kv.p for kv in allkvs) + 1
    gauss = _gauss(kvs0, nqp)
    grid = [g[0] for g in gauss]
    gshape = tuple(len(g) for g in grid)
    npts = int(np.prod(gshape))

    def on_grid(arr):      # flatten the grid axes
        return np.asarray(arr, dtype=float).reshape((npts,) + np.shape(arr)[dim:])

    # ---- numeric environment
    xi = S.xi
    cache = {}

    def bf_jets(name, D):
        bf = [b for b in V.basis_funs if b.name == name][0]
        kvs = kvs_spaces[bf.space]
        mats = []
        for ax in range(dim):
            d = D[dim - 1 - ax]
            mats.append(bspline.collocation_derivs(kvs[ax], grid[ax], derivs=d)[d].toarray())     # (npts_ax, ndofs_ax)
        T = mats[0]
        for M in mats[1:]:
            T = np.einsum('ai,bj->abij', T, M).reshape(T.shape[0] * M.shape[0], T.shape[1] * M.shape[1])
        return T.T            # (ndofs, npts), both raveled with kv axis 0 as the major index

    def order_of(dv):
        D = [0] * dim
        if isinstance(dv, sp.Derivative):
            for v, cnt in dv.variable_count:
                D[xi.index(v)] += int(cnt)
            return dv.expr, tuple(D)
        return dv, tuple(D)

    def value_of_atom(a):
        base, D = order_of(a)
        nm = base.func.__name__
        if nm.startswith('bf_'):
            name = nm[3:]
            J = bf_jets(name, D)
            return ('bf', name, J)
        if nm.startswith('G') and nm[1:].isdigit():
            comp = int(nm[1:])
            if len(base.args) < dim:          # space-time: spatial components do not depend on time
                D = D[:len(base.args)] + (0,) * (dim - len(base.args)) if False else D
            return ('pt', None, on_grid(_bspline_jet(geo, grid, D)[..., comp]))
        if nm.startswith('fld_'):
            parts = nm[4:].split('_')
            fname = parts[0]
            I = tuple(int(x) for x in parts[1:])
            f = data[fname]
            vals = _bspline_jet(f, grid, D)
            return ('pt', None, on_grid(vals[(Ellipsis,) + I] if I else vals))
        raise KeyError('atom %s' % a)

    # physical coordinates at the points (for physical fields)
    Xphys = [on_grid(_bspline_jet(geo, grid, (0,) * dim)[..., mm]) for mm in range(V.geo_dim)]

    refs = []
    for d in exprs:
        comps = list(d) if isinstance(d, sp.MatrixBase) else [d]
        out = []
        for e in comps:
            e = e.doit()
            atoms = sorted(e.atoms(sp.Derivative) | {f for f in e.atoms(sp.Function) if isinstance(f, sp.core.function.AppliedUndef)}, key=str)
            # derivative atoms first (so that their base functions are not replaced inside them)
            atoms = [a for a in atoms if isinstance(a, sp.Derivative)] + [a for a in atoms if not isinstance(a, sp.Derivative)]
            sub, vals = {}, {}
            for k, a in enumerate(atoms):
                dmy = sp.Dummy('a%d' % k)
                sub[a] = dmy
                vals[dmy] = value_of_atom(a)
            e2 = e.xreplace({a: sub[a] for a in atoms if isinstance(a, sp.Derivative)})
            e2 = e2.xreplace({a: sub[a] for a in atoms if not isinstance(a, sp.Derivative)})
            syms = sorted(e2.free_symbols, key=str)
            args, arrs = [], []
            for s_ in syms:
                if s_ in vals:
                    kind, name, A = vals[s_]
                    if kind == 'bf':
                        A = A[None, :, :] if name == 'u' and V.arity == 2 else A[:, None, :]
                        if V.arity == 1:
                            A = vals[s_][2][:, None, :]
                    else:
                        A = A[None, None, :]
                elif s_.name.startswith('gw'):
                    k = int(s_.name[2:])
                    w = [np.ones(n_) for n_ in gshape]
                    w[dim - 1 - k] = gauss[dim - 1 - k][1]
                    W = w[0]
                    for x in w[1:]:
                        W = np.multiply.outer(W, x)
                    A = W.reshape(1, 1, npts)
                elif s_.name.startswith('par_'):
                    parts = s_.name[4:].split('_')
                    val = np.asarray(data[parts[0]], dtype=float)
                    I = tuple(int(x) for x in parts[1:])
                    A = np.full((1, 1, 1), float(val[I] if I else val))
                elif s_.name.startswith('phys_'):
                    body, Dtxt = s_.name[5:].split('__D')
                    assert set(Dtxt) <= {'0'}, 'derivative of a python callable field is not available'
                    parts = body.split('_')
                    f = data[parts[0]]
                    I = tuple(int(x) for x in parts[1:])
                    fv = np.asarray(f(*Xphys))
                    A = (fv[(Ellipsis,) + I] if I else fv).reshape(1, 1, npts)
                else:
                    raise KeyError('symbol %s' % s_)
                args.append(s_)
                arrs.append(A)
            fn = sp.lambdify(args, e2, modules='numpy')
            val = fn(*arrs) if args else np.full((1, 1, 1), float(e2))
            val = np.asarray(val, dtype=float)
            nv = bf_jets('v' if V.arity == 2 else 'u', (0,) * dim).shape[0]
            nu = bf_jets('u', (0,) * dim).shape[0] if V.arity == 2 else 1
            val = np.broadcast_to(val, (nv, nu, npts))
            out.append(val.sum(axis=-1))
        refs.append(out)
    # sum of all added expressions (formgen adds exactly one)
    assert len(refs) == 1
    return refs[0], V


def chk_assemble(c):
    from pyiga import assemble, vform as m
    spec = c['spec']
    dim = spec['dim']
    geo_dim = dim + 1 if spec.get('surface') else dim
    kvs = tuple(_kv(s) for s in c['kvs'])
    two = len(set(spec.get('spaces', [0, 0]))) > 1 and spec.get('arity', 2) == 2
    kvs2 = tuple(_kv(s) for s in c['kvs2']) if two else kvs
    geo = _spacetime_geo(dim) if spec.get('spacetime') else _geo(c.get('geo', 'bump'), dim, geo_dim)
    data = {}
    for (name, shape, physical, updatable) in spec.get('inputs', []):
        data[name] = _field(name, tuple(shape), physical, geo_dim if physical else dim, c.get('seed', 0) + len(data))
    for (name, shape) in spec.get('params', []):
        rng = np.random.RandomState(7 + len(data))
        data[name] = rng.rand(*shape) + 0.5 if shape else 1.7
    comps, V = _reference(spec, (kvs, kvs2), geo, data)
    Vc = formgen.build(spec, vform=m)
    args = dict(data, geo=geo)
    space = (kvs, kvs2) if two else kvs
    A = assemble.assemble(Vc, space, args=dict(args), layout='blocked')
    if V.arity == 2:
        A = A.toarray()
        ncu, ncv = (V.basis_funs[0].numcomp or 1), (V.basis_funs[1].numcomp or 1)
        Nv, Nu = comps[0].shape
        assert A.shape == (ncv * Nv, ncu * Nu), 'matrix shape %r, expected %r' % (A.shape, (ncv * Nv, ncu * Nu))
        for i in range(ncv):
            for j in range(ncu):
                E = comps[i * ncu + j] if len(comps) > 1 else comps[0]
                B = A[i * Nv:(i + 1) * Nv, j * Nu:(j + 1) * Nu]
                scale = max(1.0, np.abs(E).max())
                err = np.abs(B - E)
                k = np.unravel_index(np.argmax(err), err.shape)
                assert err.max() <= TOL * scale, ('component block (%d,%d): max difference %g at entry %r (assembled %g, denotation %g)'
                                                  % (i, j, err.max(), tuple(int(x) for x in k), B[k], E[k]))
    else:
        A = np.asarray(A)
        nc = V.basis_funs[0].numcomp or 1
        for i in range(nc):
            E = (comps[i] if len(comps) > 1 else comps[0])[:, 0]
            B = (A[i] if nc > 1 else A).ravel()
            assert B.shape == E.shape, 'vector shape %r vs %r' % (B.shape, E.shape)
            scale = max(1.0, np.abs(E).max())
            assert np.abs(B - E).max() <= TOL * scale, 'component %d: max difference %g' % (i, np.abs(B - E).max())


def chk_vector_blocks(c):
    """meaning of the surface syntax for vector-valued functions whose number of components differs from the space dimension (the
    Jacobians are non-square): component-wise forms assemble to block-diagonal matrices of the scalar form -- a reference that does not
    go through the form's own expression tree"""
    from pyiga import assemble, bspline, geometry
    import scipy.sparse
    dim, nc = c['dim'], c['ncomp']
    kvs = tuple(bspline.make_knots(1 + (d + c['seed']) % 2, 0.0, 1.0, 2 + d % 2) for d in range(dim))
    geo = geometry.unit_square().rotate_2d(0.3).scale((1.5, 0.75)) if dim == 2 else geometry.twisted_box()
    scalar = {'laplace': 'inner(grad(u), grad(v)) * dx', 'mass': 'u * v * dx'}[c['form']]
    vec = {'laplace': 'inner(grad(u), grad(v)) * dx', 'mass': 'inner(u, v) * dx'}[c['form']]
    K = assemble.assemble(scalar, kvs, geo=geo)
    A = assemble.assemble(vec, kvs, bfuns=[('u', nc), ('v', nc)], geo=geo, layout='blocked')
    ref = scipy.sparse.block_diag([K] * nc).toarray()
    A = A.toarray() if hasattr(A, 'toarray') else np.asarray(A)
    assert A.shape == ref.shape, 'vector form with %d components in %dD has shape %r, expected %r' % (nc, dim, A.shape, ref.shape)
    err = np.max(np.abs(A - ref))
    assert err <= 1e-11 * max(1.0, np.max(np.abs(ref))), '%s with %d components in %dD differs from blockdiag of the scalar form: max error %g' % (vec, nc, dim, err)


_SEQ_BASES = [('inner(grad(u), grad(v))*dx', 2, 4), ('u.dx(0)*v.dx(1)*dx', 2, 3), ('Dx(u, 0, parametric=True)*Dx(v, 0, parametric=True)*dx', 2, 2),
              ('(inner(grad(u), grad(v)) + u.dt()*v)*dx', 2, 2), ('f*u*v*dx', 2, 2)]
_seq_memo = {}


def _sequence_groups(tier):
    """a form followed by its one-token neighbours (physical <-> parametric derivative, another derivative direction or order, another
    flag of an input field) and the form again: compiled and assembled in ONE process, where compile_vform serves assembler classes
    from a cache keyed by VForm.hash() -- forms that differ in one attribute must not be served each other's assembler"""
    if tier in _seq_memo:
        return _seq_memo[tier]
    from pyiga import vform as m
    groups = []
    for expr, dim, cap in _SEQ_BASES:
        for b in formgen.base_forms():
            if b['expr'] == expr and b['dim'] == dim and _usable(b):
                break
        else:
            continue
        seq, seen = [b], {repr(b)}
        for desc, nb in formgen.neighbours(b):
            if repr(nb) in seen or not _usable(nb) or 'updatable' in desc:
                continue
            try:
                formgen.build(nb, vform=m).finalize()
                if not formgen.is_multilinear(nb, vform=m):
                    continue
            except Exception:
                continue
            seen.add(repr(nb))
            seq.append(nb)
            if tier == 'quick' and len(seq) > cap:
                break
        if len(seq) > 1:
            groups.append(seq + [b])
    _seq_memo[tier] = groups
    return groups


def _seq_case(s, k):
    import random
    rng = random.Random(1000 + k)
    return {'spec': s, 'kvs': _kvs_for(s, rng, k), 'kvs2': _second_space(_kvs_for(s, rng, k), k + 1), 'geo': 'bump', 'seed': k}


def chk_sequence(c):
    for k, s in enumerate(c['specs']):
        try:
            chk_assemble(_seq_case(s, k % 3))
        except AssertionError as e:
            raise AssertionError('form %d of the sequence (%s), assembled after %r in the same process: %s' % (
                k, s['expr'], [t['expr'] for t in c['specs'][:k]], e))


def chk_boundary_seq(c):
    """boundary integrals on several sides in sequence with ONE shared args dict (the assembler writes the side's tangent selector into it):
    every side's load vector / mass matrix equals the line integral over that side, whatever was assembled before.  Reference: the same Gauss
    rule applied to B_i(t) |gamma'(t)| (and B_i B_j |gamma'|) with gamma = geo.boundary(side), independent of the generated code"""
    from pyiga import assemble, bspline, geometry
    kvs = tuple(_kv(s_) for s_ in c['kvs'])
    geo = {'annulus': geometry.quarter_annulus, 'bannulus': geometry.bspline_quarter_annulus}[c['geo']]()
    args = {'geo': geo}
    for side in c['order']:
        ax, sd = bspline._parse_bdspec(side, 2)
        kvt = kvs[1 - ax]                                  # knot vector along the side
        nq = max(kv.p for kv in kvs) + 1                   # the assembler's rule: max degree + 1 Gauss nodes per span (the integrand is not polynomial)
        gx, gw = np.polynomial.legendre.leggauss(nq)
        mesh = np.unique(kvt.kv)
        nodes = np.concatenate([(a + b) / 2 + (b - a) / 2 * gx for a, b in zip(mesh[:-1], mesh[1:])])
        wts = np.concatenate([(b - a) / 2 * gw for a, b in zip(mesh[:-1], mesh[1:])])
        bd = geo.boundary(side)
        speed = np.linalg.norm(np.asarray(bd.grid_jacobian((nodes,))).reshape(len(nodes), -1), axis=1)
        Bm = bspline.collocation(kvt, nodes).toarray()
        ref_v = Bm.T @ (wts * speed)
        got_v = np.asarray(assemble.assemble('v * ds', kvs, args=args, boundary=side)).ravel()
        assert got_v.shape == ref_v.shape, "'v * ds' on side %s: shape %r vs %r" % (side, got_v.shape, ref_v.shape)
        err = np.max(np.abs(got_v - ref_v))
        assert err <= 1e-8 * max(1.0, np.max(np.abs(ref_v))), "'v * ds' on side %s, assembled after the sides %r with the same args dict: max deviation %g (length %g vs %g)" % (
            side, c['order'][:c['order'].index(side)], err, got_v.sum(), ref_v.sum())
        ref_m = Bm.T @ (Bm * (wts * speed)[:, None])
        got_m = assemble.assemble('u * v * ds', kvs, args=args, boundary=side).toarray()
        errm = np.max(np.abs(got_m - ref_m))
        assert got_m.shape == ref_m.shape and errm <= 1e-8 * max(1.0, np.max(np.abs(ref_m))), "'u * v * ds' on side %s after %r: max deviation %g" % (
            side, c['order'][:c['order'].index(side)], errm)


CHECKS = {'assemble': chk_assemble, 'vector_blocks': chk_vector_blocks, 'sequence': chk_sequence, 'boundary_seq': chk_boundary_seq}


def _usable(spec):
    if spec.get('boundary'):
        return False
    # derivatives of physical (callable) fields cannot be supplied
    for (name, shape, physical, upd) in spec.get('inputs', []):
        if physical and any(t in spec['expr'] for t in ('grad(%s' % name, 'hess(%s' % name, 'div(%s' % name, '%s.dx' % name, 'Dx(%s' % name)):
            return False
    return True


def _kvs_for(spec, rng, variant):
    dim = spec['dim']
    need = 2 if 'hess' in spec['expr'] or '.dt(2)' in spec['expr'] else 1
    brs = [[0.0, 0.5, 1.0], [0.0, 0.3, 0.55, 1.0], [0.0, 0.25, 0.5, 0.75, 1.0]]
    out = []
    for k in range(dim):
        p = max(need, [2, 3, 1, 2][(variant + k) % 4]) if need > 1 else [2, 3, 1, 2][(variant + k) % 4]
        if dim == 3:
            p = min(p, 2) if need == 1 else 2
        br = brs[(variant + 2 * k) % (2 if dim == 3 else 3)]
        maxm = max(1, p - need)          # keep C^(need-1) smoothness... and at least C^0 for first derivatives
        mult = [1 + ((variant + j + k) % maxm if maxm > 1 else 0) for j in range(len(br) - 2)]
        out.append([p, br, mult])
    return out


def _second_space(kvs, variant):
    """a second space on the same mesh (the assemblers require a common mesh): other degrees and multiplicities"""
    out = []
    for k, (p, br, mult) in enumerate(kvs):
        p2 = 1 + (p + variant + k) % 3
        out.append([p2, br, [min(m, p2) for m in mult]])
    return out


def specs(tier):
    from pyiga import vform as m
    base = [s for s in formgen.base_forms() if _usable(s)]
    out = list(base)
    if tier != 'quick':
        seen = {repr(s) for s in out}
        for s in base:
            for desc, nb in formgen.neighbours(s):
                if repr(nb) in seen or not _usable(nb):
                    continue
                seen.add(repr(nb))
                try:
                    formgen.build(nb, vform=m).finalize()
                    if not formgen.is_multilinear(nb, vform=m):
                        continue          # e.g. u*u: not a bilinear form, outside the property
                except Exception:
                    continue
                out.append(nb)
    # two-space forms also with the space indices exchanged (trial function in space 1, test function in space 0): which space a function
    # lives in is the user's choice, the matrix is (test dofs) x (trial dofs) either way
    for s in list(out):
        if s.get('arity', 2) == 2 and list(s.get('spaces', [0, 0])) == [0, 1]:
            out.append(dict(s, spaces=[1, 0]))
    return out


def warmup(tier):
    """compile all forms in parallel (one process per form)"""
    import random
    jobs = []
    for k, s in enumerate(specs(tier)):
        rng = random.Random(k)
        case = {'spec': s, 'kvs': _kvs_for(s, rng, 0), 'kvs2': _second_space(_kvs_for(s, rng, 0), 1), 'geo': 'bump'}
        jobs.append(lambda case=case: chk_assemble(case))
    for case in _vector_block_cases(tier):
        jobs.append(lambda case=case: chk_vector_blocks(case))
    for g in _sequence_groups(tier):
        for k, s_ in enumerate(g[1:-1]):
            jobs.append(lambda case=_seq_case(s_, (k + 1) % 3): chk_assemble(case))
    return jobs


def _vector_block_cases(tier):
    out = [{'dim': 3, 'ncomp': 2, 'form': 'laplace', 'seed': 0}, {'dim': 2, 'ncomp': 3, 'form': 'laplace', 'seed': 1}]
    if tier != 'quick':
        out += [{'dim': 2, 'ncomp': 3, 'form': 'mass', 'seed': 0}, {'dim': 3, 'ncomp': 2, 'form': 'mass', 'seed': 1}, {'dim': 2, 'ncomp': 1, 'form': 'laplace', 'seed': 0}]
    return out


def generate(tier, rng):
    quick = tier == 'quick'
    for case in _vector_block_cases(tier):
        yield 'vector_blocks', case
    for g in _sequence_groups(tier):
        yield 'sequence', {'specs': g}
    for k, order in enumerate((['left', 'bottom', 'right', 'top'], ['top', 'right', 'bottom', 'left'], ['bottom', 'top', 'left', 'right'])):
        yield 'boundary_seq', {'kvs': [[2, [0.0, 0.3, 0.55, 1.0], [1, 2]], [3 - k % 2, [0.0, 0.5, 1.0], [1]]], 'geo': ['annulus', 'bannulus'][k % 2], 'order': order}
    # two-space (Petrov-Galerkin) forms: degree gaps in both directions on the non-affine map (the node count is max degree over BOTH spaces + 1)
    brs = [[0.0, 0.5, 1.0], [0.0, 0.3, 0.55, 1.0]]
    for s in specs(tier):
        if len(set(s.get('spaces', [0, 0]))) > 1 and s.get('arity', 2) == 2:
            for (p0, p1) in ((1, 3), (3, 1), (2, 3)):
                kvs = [[p0, brs[k % 2], [1] * (len(brs[k % 2]) - 2)] for k in range(s['dim'])]
                kvs2 = [[p1, brs[k % 2], [1] * (len(brs[k % 2]) - 2)] for k in range(s['dim'])]
                yield 'assemble', {'spec': s, 'kvs': kvs, 'kvs2': kvs2, 'geo': 'bump', 'seed': p0 * 10 + p1}
    for k, s in enumerate(specs(tier)):
        nvar = (2 if k < 12 else 1) if quick else 3
        for v in range(nvar):
            yield 'assemble', {'spec': s, 'kvs': _kvs_for(s, rng, v + k), 'kvs2': _second_space(_kvs_for(s, rng, v + k), v + k + 1), 'geo': ['bump', 'affine'][v % 2], 'seed': v}


if __name__ == '__main__':
    import sys
    common.main(sys.modules[__name__])
