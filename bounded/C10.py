"""C10 bounded tier: elimination of Dirichlet dofs and boundary-condition computation on the real code."""
import itertools

import numpy as np
import scipy.sparse

from . import common

COVERS = ['*']
DOMAIN = {'quick': 'RestrictedLinearSystem: all ordered subsets of the dofs for n<=4 and sampled ones for n=5,6 (incl. empty, all-but-one, unsorted) x '
                   'dense/CSR matrices with small integer entries (exact arithmetic) x scalar/array values and right-hand sides x elim_rows; '
                   'slice_indices for every axis/index/flip combination of shapes up to 3x3x3; boundary conditions on all faces of 1D-3D spaces '
                   'with scalar/vector/constant data on affine and one NURBS geometry; combine_bcs on overlapping index sets',
          'thorough': 'all ordered subsets for n<=5, sampled for n<=8'}
RULE = 'case = (check, input); distinct by input'


def chk_restricted(c):
    from pyiga import assemble
    rng = np.random.RandomState(c['seed'])
    n = c['n']
    idx = np.array(c['indices'], dtype=int)
    m = c.get('m', n)           # number of equations (Petrov-Galerkin: may differ from the number n of dofs; then elim_rows is given)
    A = rng.randint(-4, 5, size=(m, n)).astype(float)
    if c['sparse']:
        A = scipy.sparse.csr_matrix(A)
    Ad = A.toarray() if c['sparse'] else A
    b = 0.0 if c['rhs'] == 'zero' else (3.0 if c['rhs'] == 'scalar' else rng.randint(-5, 6, size=m).astype(float))
    bd = np.broadcast_to(b, m) if np.isscalar(b) else b
    vals = 2.0 if c['values'] == 'scalar' else rng.randint(-7, 8, size=len(idx)).astype(float) * 1.0
    vd = np.broadcast_to(vals, len(idx)) if np.isscalar(vals) else vals
    elim_rows = None
    if c.get('elim_rows') is not None:
        elim_rows = list(c['elim_rows'])
    idx_arg = idx
    if c.get('index_form') == 'negative':
        # numpy-style negative indices for some of the dofs (they count from the end)
        idx_arg = np.array([i - n if k % 2 == 0 else i for k, i in enumerate(idx)], dtype=int)
    elif c.get('index_form') == 'list':
        idx_arg = [int(i) for i in idx]
    elif c.get('index_form') == 'tuple':
        idx_arg = tuple(int(i) for i in idx)
    L = assemble.RestrictedLinearSystem(A, b, (idx_arg, vals), elim_rows=elim_rows)
    nfree = n - len(idx)
    u = rng.randint(-5, 6, size=nfree).astype(float)
    x = L.complete(u)
    assert x.shape == (n,)
    for k, i in enumerate(idx):
        assert x[i] == vd[k], 'constrained dof %d takes value %r, prescribed %r' % (i, x[i], vd[k])
    free = [i for i in range(n) if i not in set(idx.tolist())]
    assert np.array_equal(x[free], u), 'free dofs are not in increasing order / not preserved'
    assert np.array_equal(L.restrict(x), u) and np.array_equal(L.restrict(L.extend(u)), u)
    assert np.array_equal(L.extend(u)[free], u) and np.all(L.extend(u)[idx] == 0)
    rows = free if elim_rows is None else [i for i in range(m) if i not in set(elim_rows)]
    # residual identity: restricted residual == residual of the completed vector on the non-eliminated equations
    lhs = L.A.dot(u) - L.b
    rhs = (Ad.dot(x) - bd)[rows]
    assert np.array_equal(np.asarray(lhs).ravel(), rhs), 'restricted system is not the original system on the non-eliminated equations'
    B = rng.randint(-3, 4, size=(m, n)).astype(float)
    RB = L.restrict_matrix(scipy.sparse.csr_matrix(B) if c['seed'] % 2 else B)
    assert np.array_equal(RB.toarray(), B[np.ix_(rows, free)])
    f = rng.randint(-3, 4, size=m).astype(float)
    assert np.array_equal(L.restrict_rhs(f), f[rows])
    if nfree == len(rows) and nfree > 0:
        M = L.A.toarray()
        if abs(np.linalg.det(M)) > 1e-9:
            us = np.linalg.solve(M, L.b)
            xs = L.complete(us)
            assert np.max(np.abs((Ad.dot(xs) - bd)[rows])) <= 1e-9 * max(1.0, np.max(np.abs(xs))) * 50
            assert all(xs[i] == vd[k] for k, i in enumerate(idx))


def chk_slice(c):
    from pyiga import assemble
    shape = tuple(c['shape'])
    ax, idx, flip = c['ax'], c['idx'], c['flip']
    got = assemble.slice_indices(ax, idx, shape, ravel=False, flip=flip)
    eidx = idx % shape[ax]
    axes = []
    fl = None
    if flip is not None:
        fl = list(flip)
        fl.insert(ax, False)
    for d, nd in enumerate(shape):
        r = list(range(nd))
        if fl is not None and fl[d]:
            r = r[::-1]
        axes.append([eidx] if d == ax else r)
    exp = [list(t) for t in itertools.product(*axes)]
    assert got.tolist() == exp, 'slice_indices multi-indices'
    rav = assemble.slice_indices(ax, idx, shape, ravel=True, flip=flip)
    assert rav.tolist() == [int(np.ravel_multi_index(t, shape)) for t in exp]


def chk_bc(c):
    from pyiga import assemble, bspline, geometry
    dim = c['dim']
    kvs = tuple(bspline.make_knots(c['p'], 0.0, 1.0, 2 + d) for d in range(dim))
    if c['geo'] == 'affine':
        geo = {1: geometry.line_segment(1.0, 3.0), 2: geometry.unit_square().scale((2.0, 1.0)).translate((1.0, -1.0)),
               3: geometry.unit_cube().translate((1.0, 2.0, 3.0))}[dim]
    else:
        geo = {2: geometry.quarter_annulus(), 3: geometry.twisted_box()}[dim]
    N = tuple(kv.numdofs for kv in kvs)
    NN = int(np.prod(N))
    names = ['left', 'right', 'bottom', 'top', 'front', 'back'][:2 * dim]
    lin = {1: lambda x: 2 * x + 1, 2: lambda x, y: 2 * x - y + 1, 3: lambda x, y, z: x + 2 * y - z + 1}[dim]
    seen = {}
    for spec in names + [(ax, s) for ax in range(dim) for s in (0, 1)]:
        ax, side = bspline._parse_bdspec(spec, dim)
        idx, val = assemble.compute_dirichlet_bc(kvs, geo, spec, lin)
        exp = assemble.slice_indices(ax, 0 if side == 0 else -1, N, ravel=True)
        assert sorted(idx.tolist()) == sorted(exp.tolist()) and len(set(idx.tolist())) == len(idx), 'dofs on face %r' % (spec,)
        seen[(ax, side)] = (idx, val)
        # boundary values interpolate the data on the physical face: evaluate the boundary spline
        bdkvs = tuple(kv for d, kv in enumerate(kvs) if d != ax)
        if dim >= 2:
            coeffs = np.zeros(NN)
            coeffs[idx] = val
            f = bspline.BSplineFunc(kvs, coeffs.reshape(N))
            grid = [np.linspace(0, 1, 4) for _ in range(dim)]
            grid[ax] = np.array([0.0 if side == 0 else 1.0])
            V = f.grid_eval(grid)
            X = geo.grid_eval(grid)
            ref = lin(*[X[..., d] for d in range(dim)])
            if c['geo'] == 'affine':
                assert np.max(np.abs(V - ref)) <= 1e-10, 'boundary values do not reproduce linear data on face %r' % (spec,)
        cidx, cval = assemble.compute_dirichlet_bc(kvs, geo, spec, 2.5)
        assert np.allclose(cval, 2.5) and sorted(cidx.tolist()) == sorted(exp.tolist())
    # names map to the documented (axis, side)
    for k, nm in enumerate(names):
        assert bspline._parse_bdspec(nm, dim) == (dim - 1 - k // 2, k % 2)
    # vector data: blocked numbering
    if dim == 2:
        vec = lambda x, y: np.stack((x, y + 1), axis=-1)
        idx, val = assemble.compute_dirichlet_bc(kvs, geo, 'left', vec)
        base = assemble.slice_indices(1, 0, N, ravel=True)
        assert sorted(idx.tolist()) == sorted(base.tolist() + (base + NN).tolist()), 'blocked numbering of vector data'
    # any number of components (independent of the space dimension): component j of the data lands on the dofs base + j*NN with the
    # values of the scalar computation for that component
    if dim >= 2:
        comps = [lambda *x: 1.0 + x[0], lambda *x: x[-1] - 2.0 * x[0], lambda *x: 0.5 + 0 * x[0], lambda *x: x[0] + x[-1]]
        for ncomp in (1, 2, 3, 4):
            for spec in (names[0], names[-1]):
                vecf = lambda *x, ncomp=ncomp: np.stack([g(*x) + 0 * x[0] for g in comps[:ncomp]], axis=-1)
                idx, val = assemble.compute_dirichlet_bc(kvs, geo, spec, vecf)
                ax, side = bspline._parse_bdspec(spec, dim)
                base = assemble.slice_indices(ax, 0 if side == 0 else -1, N, ravel=True)
                want = sorted(int(b) + j * NN for j in range(ncomp) for b in base)
                assert sorted(idx.tolist()) == want, '%d-component data on face %r: dofs %d returned, %d expected (blocked numbering, every component)' % (
                    ncomp, spec, len(idx), len(want))
                got = dict(zip(idx.tolist(), val.tolist()))
                for j in range(ncomp):
                    sidx, sval = assemble.compute_dirichlet_bc(kvs, geo, spec, comps[j] if j != 2 else (lambda *x: 0.5 + 0 * x[0]))
                    for i, v in zip(sidx.tolist(), sval.tolist()):
                        assert abs(got[i + j * NN] - v) <= 1e-12, 'component %d of %d-component data differs from the scalar computation' % (j, ncomp)
    # several conditions: every dof once; 'all' shorthand
    bcs = [(nm, lin) for nm in names]
    idx, val = assemble.compute_dirichlet_bcs(kvs, geo, bcs)
    allb = sorted(set(i for (ax, s) in seen for i in seen[(ax, s)][0].tolist()))
    assert idx.tolist() == allb, 'combined conditions do not list each boundary dof exactly once'
    idx2, val2 = assemble.compute_dirichlet_bcs(kvs, geo, ('all', lin))
    assert idx2.tolist() == allb and np.allclose(val2, val)
    if len(names) == 2:
        # a two-element list of conditions must not be mistaken for the ('all', f) shorthand
        idx3, _ = assemble.compute_dirichlet_bcs(kvs, geo, [(names[0], lin), (names[1], lin)])
        assert idx3.tolist() == allb


def chk_mp_bc(c):
    """Multipatch.compute_dirichlet_bcs: glued numbering, every listed face, any order of the conditions"""
    from pyiga import assemble, bspline, geometry
    rng = np.random.RandomState(c['seed'])
    kvs = tuple(bspline.make_knots(c['p'], 0.0, 1.0, n) for n in c['n'])
    offs = [(0, 0), (1, 0), (0, 1)] if c['shape'] == 'L' else [(0, 0), (1, 0), (0, 1), (1, 1)]
    if c.get('perm'):          # patch numbering is the user's choice (e.g. the patch touching all others numbered last)
        offs = [offs[k] for k in c['perm']]
    geos = [geometry.unit_square().translate((float(a), float(b))) for (a, b) in offs]
    # conforming but different patches: the x knot vector depends on the column, the y knot vector on the row
    pk = [kvs] * len(offs)
    if c.get('hetero'):
        pk = [(bspline.make_knots(c['p'], 0.0, 1.0, c['n'][0] + b), bspline.make_knots(c['p'], 0.0, 1.0, c['n'][1] + 2 * a)) for (a, b) in offs]
    if c.get('manual') is None:
        MP = assemble.Multipatch([(k_, g) for k_, g in zip(pk, geos)], automatch=True)
    else:
        # the interfaces joined by hand, in an arbitrary order (joins that merge already shared dofs at a cross point included)
        MP = assemble.Multipatch([(k_, g) for k_, g in zip(pk, geos)])
        ifaces = []
        for p_, (a, b) in enumerate(offs):
            for q_, (a2, b2) in enumerate(offs):
                if (a2, b2) == (a + 1, b):
                    ifaces.append((p_, 'right', q_, 'left'))
                elif (a2, b2) == (a, b + 1):
                    ifaces.append((p_, 'top', q_, 'bottom'))
        order_ = list(np.random.RandomState(c['manual']).permutation(len(ifaces)))
        if c['manual'] % 2 == 1 and len(ifaces) == 4:
            # two interfaces without a common patch first: the third join then merges two classes of already shared dofs (cross point)
            first = order_[0]
            opp = [k_ for k_ in order_[1:] if not ({ifaces[k_][0], ifaces[k_][2]} & {ifaces[first][0], ifaces[first][2]})]
            order_ = [first] + opp + [k_ for k_ in order_[1:] if k_ not in opp]
        for k_ in order_:
            p_, f1, q_, f2 = ifaces[k_]
            if (k_ + c['manual']) % 2:
                MP.join_boundaries(q_, f2, p_, f1)
            else:
                MP.join_boundaries(p_, f1, q_, f2)
        MP.finalize()
    # the glued space has one dof per distinct dof position of the conforming patches
    allpts = set()
    for p, (a, b) in enumerate(offs):
        for y in pk[p][0].greville():
            for x in pk[p][1].greville():
                allpts.add((round(float(x) + a, 9), round(float(y) + b, 9)))
    assert MP.numdofs == len(allpts), 'the glued space has %d dofs, the patches have %d distinct dof positions' % (MP.numdofs, len(allpts))
    used = set()
    for p in range(len(offs)):
        used |= set(int(g) for g in np.asarray(MP.patch_to_global_idx(p)).ravel())
    assert used == set(range(MP.numdofs)), 'glued numbering is not gap-free: %d global dofs, local dofs map onto %d numbers in [%d, %d]' % (
        MP.numdofs, len(used), min(used), max(used))
    lin = lambda x, y: 1.0 + x + 2.0 * y
    conds = [(p, face) for p in range(len(geos)) for face in ('left', 'right', 'bottom', 'top')]
    # keep only faces on the outer boundary of the union (an interface face is not a Dirichlet face)
    def outer(p, face):
        a, b = offs[p]
        nb = {'left': (a - 1, b), 'right': (a + 1, b), 'bottom': (a, b - 1), 'top': (a, b + 1)}[face]
        return nb not in offs
    conds = [cf for cf in conds if outer(*cf)]
    order = list(rng.permutation(len(conds)))
    conds = [conds[k] for k in order][:c['ncond']]
    idx, val = MP.compute_dirichlet_bcs([(p, face, lin) for (p, face) in conds])
    idx = np.asarray(idx)
    assert len(set(idx.tolist())) == len(idx), 'a global dof is listed twice'
    ug = np.zeros(MP.numdofs)
    ug[idx] = val
    expected = set()
    for (p, face) in conds:
        li, lv = assemble.compute_dirichlet_bc(pk[p], geos[p], face, lin)
        up = MP.global_to_patch(p) @ ug
        assert np.allclose(up[li], lv, atol=1e-12), 'patch %d face %s: prescribed values are not the boundary data (max error %g)' % (p, face, np.max(np.abs(up[li] - lv)))
        expected |= set(np.asarray(MP.patch_to_global_idx(p))[li].tolist())
    assert set(idx.tolist()) == expected, 'constrained dofs: %d missing, %d spurious' % (len(expected - set(idx.tolist())), len(set(idx.tolist()) - expected))
    # glued numbering, independently of the Multipatch tables: the constrained global dofs are in bijection with the distinct physical
    # positions (Greville points) of the face dofs -- a vertex shared by several patches is ONE dof
    pts = set()
    for (p, face) in conds:
        li, _ = assemble.compute_dirichlet_bc(pk[p], geos[p], face, lin)
        G = np.stack(np.meshgrid(*[kv.greville() for kv in pk[p]], indexing='ij'), axis=-1).reshape(-1, 2)      # (y, x) parameters per local dof
        a, b = offs[p]
        for q in np.asarray(li):
            pts.add((round(float(G[q, 1]) + a, 9), round(float(G[q, 0]) + b, 9)))
    assert len(idx) == len(pts), 'the faces carry %d distinct dof positions, but %d global dofs are constrained (a shared vertex or edge dof is not glued)' % (len(pts), len(idx))
    idx2, val2 = MP.compute_dirichlet_bcs([(p, face, lin) for (p, face) in sorted(conds)])
    o1, o2 = np.argsort(idx), np.argsort(np.asarray(idx2))
    assert np.array_equal(idx[o1], np.asarray(idx2)[o2]) and np.allclose(np.asarray(val)[o1], np.asarray(val2)[o2]), 'result depends on the order of the conditions'


def chk_combine(c):
    from pyiga import assemble
    parts = [(np.array(i, dtype=int), np.array(v, dtype=float)) for i, v in c['parts']]
    idx, val = assemble.combine_bcs(parts)
    allowed = {}
    for i, v in parts:
        for a, b in zip(i.tolist(), v.tolist()):
            allowed.setdefault(a, set()).add(b)
    assert idx.tolist() == sorted(allowed), 'indices are not the sorted union'
    assert all(v in allowed[i] for i, v in zip(idx.tolist(), val.tolist())), 'value not among those given for its dof'


def chk_initial(c):
    """space-time initial/final conditions on the cylinder G(x, t) = (G~(x), t): parametric time = physical time, so the time knot vector
    spans the real time interval [t0, t1] (not necessarily [0, 1]); value and time derivative are reproduced on the chosen face"""
    from pyiga import assemble, bspline, geometry
    p = c['p']
    t0, t1 = c.get('tint', [0.0, 1.0])
    kvs = (bspline.make_knots(p, t0, t1, 3), bspline.make_knots(p, 0.0, 1.0, 4))      # (t, x)
    geo = geometry.tensor_product(geometry.line_segment(t0, t1, support=(t0, t1)), geometry.line_segment(0.0, 1.0))
    side = c['side']
    g0 = lambda x, t: 1 + 2 * x
    g1 = lambda x, t: 3 - x
    idx, val = assemble.compute_initial_condition_01(kvs, geo, (0, side), g0, g1)
    N = tuple(kv.numdofs for kv in kvs)
    # the two slices of dofs next to the chosen face, each dof once
    want = np.concatenate([assemble.slice_indices(0, k, N, ravel=True) for k in ((0, 1) if side == 0 else (N[0] - 2, N[0] - 1))])
    assert sorted(idx.tolist()) == sorted(want.tolist()), 'constrained dofs are not the two time slices next to the face'
    coeffs = np.zeros(int(np.prod(N)))
    coeffs[idx] = val
    f = bspline.BSplineFunc(kvs, coeffs.reshape(N))
    xs = np.linspace(0, 1, 5)
    t = np.array([t0 if side == 0 else t1])
    V = f.grid_eval((t, xs))[0]
    J = f.grid_jacobian((t, xs))[0]
    assert np.all(np.isfinite(val)) and np.max(np.abs(V - (1 + 2 * xs))) <= 1e-9, 'values on the face of the time interval %r (side %d): max error %r' % ([t0, t1], side, np.max(np.abs(V - (1 + 2 * xs))))
    assert np.max(np.abs(J[..., 1] - (3 - xs))) <= 1e-8, 'time derivative on the face of the time interval %r (side %d)' % ([t0, t1], side)


def chk_bc1d(c):
    """1D space: the two faces are the end points"""
    from pyiga import assemble, bspline, geometry
    kv = bspline.make_knots(2, 0.0, 1.0, 3)
    geo = geometry.line_segment(1.0, 3.0)
    for spec, i in (('left', 0), ('right', kv.numdofs - 1), ((0, 0), 0), ((0, 1), kv.numdofs - 1)):
        idx, val = assemble.compute_dirichlet_bc((kv,), geo, spec, lambda x: 2 * x + 1)
        assert idx.tolist() == [i] and np.allclose(val, [3.0 if i == 0 else 7.0])


CHECKS = {'mp_bc': chk_mp_bc, 'bc1d': chk_bc1d, 'restricted': chk_restricted, 'slice': chk_slice, 'bc': chk_bc, 'combine': chk_combine, 'initial': chk_initial}


def generate(tier, rng):
    quick = tier == 'quick'
    for k in range(12 if quick else 60):
        yield 'mp_bc', {'seed': k, 'p': 1 + k % 3, 'n': [3 + k % 2, 4], 'shape': ['L', 'square'][k % 2], 'ncond': 3 + k % 6, 'hetero': bool(k % 3)}
    import itertools as _it
    for k, perm in enumerate(list(_it.permutations(range(3))) + list(_it.permutations(range(4)))[::3]):
        yield 'mp_bc', {'seed': k, 'p': 1 + k % 3, 'n': [3 + k % 2, 4], 'shape': 'L' if len(perm) == 3 else 'square', 'ncond': 8, 'hetero': bool(k % 3), 'perm': list(perm)}
        for ms in ((k // 2,) if len(perm) == 3 else (0, 1, 2, 3, 5)) if k % 2 == 0 else ():
            yield 'mp_bc', {'seed': k, 'p': 1 + k % 3, 'n': [3 + k % 2, 4], 'shape': 'L' if len(perm) == 3 else 'square', 'ncond': 8, 'hetero': bool(k % 3), 'perm': list(perm), 'manual': ms}
    seed = 0
    for n in range(1, 5 if quick else 6):
        for r in range(0, n + 1):
            for sub in itertools.permutations(range(n), r):
                seed += 1
                yield 'restricted', {'n': n, 'indices': list(sub), 'sparse': bool(seed % 2), 'rhs': ['array', 'zero', 'scalar'][seed % 3],
                                     'values': 'array' if seed % 4 else 'scalar', 'seed': seed}
    for _ in range(150 if quick else 1500):
        n = rng.randint(5, 6 if quick else 8)
        r = rng.randint(0, n)
        sub = rng.sample(range(n), r)
        seed += 1
        er = None
        if seed % 3 == 0:
            er = rng.sample(range(n), r)
        yield 'restricted', {'n': n, 'indices': sub, 'sparse': bool(seed % 2), 'rhs': ['array', 'zero', 'scalar'][seed % 3],
                             'values': 'array' if seed % 4 else 'scalar', 'seed': seed, 'elim_rows': er}
        if seed % 3 == 1 and r:
            # the index set as a list / tuple / with numpy-style negative entries, with scalar and per-dof values
            yield 'restricted', {'n': n, 'indices': sub, 'sparse': bool(seed % 2), 'rhs': 'array', 'values': ['array', 'scalar'][seed % 2], 'seed': seed,
                                 'index_form': ['negative', 'list', 'tuple'][seed // 3 % 3]}
    # Petrov-Galerkin systems: m equations for n dofs (m != n), elim_rows chosen so that the restricted system is square or not; all index forms
    for k, (m_, n_) in enumerate(((6, 8), (8, 6), (5, 7), (7, 9), (9, 7), (4, 5))):
        for form in (None, 'negative', 'list'):
            seed += 1
            r = 1 + (k + seed) % 3
            sub = rng.sample(range(n_), r)
            er = rng.sample(range(m_), max(0, m_ - (n_ - r))) if m_ >= n_ - r else []
            yield 'restricted', {'n': n_, 'm': m_, 'indices': sub, 'sparse': bool(seed % 2), 'rhs': ['array', 'scalar'][seed % 2], 'values': ['array', 'scalar'][k % 2],
                                 'seed': seed, 'elim_rows': er, 'index_form': form}
    for shape in ([3], [2, 3], [3, 3], [2, 3, 2], [3, 3, 3]):
        d = len(shape)
        for ax in range(d):
            for idx in (0, -1, 1, shape[ax] - 1, -shape[ax]):
                flips = [None] + [list(f) for f in itertools.product((False, True), repeat=d - 1)]
                for fl in flips:
                    yield 'slice', {'shape': shape, 'ax': ax, 'idx': idx, 'flip': fl}
    yield 'bc1d', {}
    for dim in (2, 3):
        for p in (1, 2, 3):
            yield 'bc', {'dim': dim, 'p': p, 'geo': 'affine'}
    for dim in (2, 3):
        yield 'bc', {'dim': dim, 'p': 2, 'geo': 'nurbs'}
    for _ in range(60 if quick else 600):
        parts = []
        for _ in range(rng.randint(1, 4)):
            m = rng.randint(0, 5)
            parts.append((rng.sample(range(8), m), [float(rng.randint(-3, 3)) for _ in range(m)]))
        yield 'combine', {'parts': parts}
    for p in (1, 2, 3):
        for side in (0, 1):
            yield 'initial', {'p': p, 'side': side}
            for tint in ([0.0, 2.0], [1.0, 3.0], [-0.5, 0.25], [0.0, 0.1]):
                yield 'initial', {'p': p, 'side': side, 'tint': tint}


if __name__ == '__main__':
    import sys
    common.main(sys.modules[__name__])
