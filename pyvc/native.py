"""Native side: a scratch build of /repo's *current working tree* (outside /repo and /verif), used by the
bounded tier and by counterexample replay.

The tree lives in $PYIGA_VERIF_CACHE (default /var/tmp/pyiga-verif-cache/tree); sources are synchronised
by content on every call (files whose content changed are rewritten, which makes the repository's own
`setup.py build_ext --inplace` rebuild exactly the affected extensions with the repository's own compiler
flags), so a check never runs stale binaries.  The directory is a cache: it is rebuilt when missing and
can be deleted at any time (`./check clean`)."""
import fcntl
import hashlib
import json
import os
import shutil
import subprocess
import sys
import time

from . import REPO

CACHE = os.environ.get('PYIGA_VERIF_CACHE', '/var/tmp/pyiga-verif-cache')
PY = os.path.join(os.path.dirname(os.path.dirname(os.path.abspath(__file__))), '.venv', 'bin', 'python')

_SRC_EXT = ('.py', '.pyx', '.pxi', '.pxd', '.cc', '.h', '.hpp', '.cpp')
# generated C files are products, never copied
_DEPS = {  # included / cimported text: a change there must rebuild the dependants
    'pyiga/genericasm.pxi': ['pyiga/assemble_tools_cy.pyx', 'pyiga/assemblers.pyx'],
    'pyiga/assemble_tools_cy.pyx': ['pyiga/assemblers.pyx'],
    'pyiga/fast_assemble_cy.pxd': ['pyiga/fast_assemble_cy.pyx'],
    'pyiga/fastasm.cc': ['pyiga/fast_assemble_cy.pyx'],
    'setup.py': ['pyiga/bspline_cy.pyx', 'pyiga/lowrank_cy.pyx', 'pyiga/mlmatrix_cy.pyx',
                 'pyiga/assemble_tools_cy.pyx', 'pyiga/assemblers.pyx', 'pyiga/fast_assemble_cy.pyx',
                 'pyiga/relaxation_cy.pyx'],
}


def _sources(repo):
    out = ['setup.py']
    if os.path.isdir(os.path.join(repo, 'scripts')):
        out += [os.path.join('scripts', f) for f in sorted(os.listdir(os.path.join(repo, 'scripts'))) if f.endswith('.py')]
    for d in ('pyiga', 'pyiga/codegen'):
        full = os.path.join(repo, d)
        for f in sorted(os.listdir(full)):
            if f.endswith(_SRC_EXT) and not (f.endswith(('_cy.c', '_cy.cpp')) or f == 'assemblers.c'):
                if f.endswith('.cpp') and f.replace('.cpp', '.pyx') in os.listdir(full):
                    continue
                out.append(os.path.join(d, f))
    return out


def _sha(path):
    with open(path, 'rb') as f:
        return hashlib.sha256(f.read()).hexdigest()


def ensure_build(repo=None, log=None):
    """returns (tree_path, info dict).  Raises RuntimeError with the build log when the build fails."""
    repo = repo or REPO
    os.makedirs(CACHE, exist_ok=True)
    tree = os.path.join(CACHE, 'tree')
    t0 = time.time()
    with open(os.path.join(CACHE, 'lock'), 'w') as lk:
        fcntl.flock(lk, fcntl.LOCK_EX)
        os.makedirs(os.path.join(tree, 'pyiga', 'codegen'), exist_ok=True)
        os.makedirs(os.path.join(tree, 'scripts'), exist_ok=True)
        stamp_path = os.path.join(tree, '.stamp.json')
        try:
            stamp = json.load(open(stamp_path))
        except Exception:
            stamp = {}
        srcs = _sources(repo)
        new = {f: _sha(os.path.join(repo, f)) for f in srcs}
        changed = [f for f in srcs if stamp.get('files', {}).get(f) != new[f] or not os.path.exists(os.path.join(tree, f))]
        removed = [f for f in stamp.get('files', {}) if f not in new]
        for f in removed:
            try:
                os.unlink(os.path.join(tree, f))
            except OSError:
                pass
        for f in changed:
            shutil.copyfile(os.path.join(repo, f), os.path.join(tree, f))
        touch = set()
        for f in changed + removed:
            touch.update(_DEPS.get(f, []))
        now = time.time()
        for f in touch:
            p = os.path.join(tree, f)
            if os.path.exists(p):
                os.utime(p, (now, now))
        need = bool(changed or removed) or not stamp.get('built')
        sos = [f for f in os.listdir(os.path.join(tree, 'pyiga')) if f.endswith('.so')]
        if len(sos) < 7:
            need = True
        info = {'tree': tree, 'changed': changed, 'rebuilt': False, 'seconds': 0.0}
        if need:
            native_changed = [f for f in list(changed) + list(touch) + removed if not f.endswith('.py') or f == 'setup.py']
            if native_changed or len(sos) < 7:
                env = dict(os.environ)
                env.pop('PYTHONPATH', None)
                r = subprocess.run([PY, 'setup.py', '-q', 'build_ext', '--inplace', '-j16'], cwd=tree, env=env,
                                   capture_output=True, text=True)
                info['rebuilt'] = True
                # assemblers compiled by pyiga.compile link against the extension modules just rebuilt: drop them
                shutil.rmtree(os.path.join(CACHE, 'xdg'), ignore_errors=True)
                if r.returncode != 0:
                    json.dump({'files': {}, 'built': False}, open(stamp_path, 'w'))
                    raise RuntimeError('native build of the working tree failed:\n' + (r.stdout + r.stderr)[-4000:])
            json.dump({'files': new, 'built': True}, open(stamp_path, 'w'))
        info['seconds'] = round(time.time() - t0, 2)
        return tree, info


def run_native(module, args=(), repo=None, timeout=3600, input_json=None, env_extra=None):
    """run `python -m <module> args...` of /verif against the scratch build; returns CompletedProcess"""
    tree, info = ensure_build(repo)
    env = dict(os.environ)
    verif = os.path.dirname(os.path.dirname(os.path.abspath(__file__)))
    env['PYTHONPATH'] = tree + os.pathsep + verif
    env['PYIGA_NATIVE_TREE'] = tree
    env.setdefault('OMP_NUM_THREADS', '4')
    # compiled-form cache of pyiga.compile goes to a scratch dir too
    env['XDG_CACHE_HOME'] = os.path.join(CACHE, 'xdg')
    if env_extra:
        env.update(env_extra)
    return subprocess.run([PY, '-m', module] + list(args), cwd=verif, env=env, capture_output=True, text=True,
                          timeout=timeout, input=input_json), info


def clean():
    shutil.rmtree(CACHE, ignore_errors=True)
