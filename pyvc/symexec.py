"""Symbolic executor / verification-condition generator.

Forward symbolic execution of one function (python `ast` from the front end) against a Contract:
paths fork at `if`, loops are cut by invariants (or unrolled when their bounds are concrete), calls are
replaced by the callee's contract or inlined.  Every implicit exception / memory-safety condition, loop
obligation, call precondition and postcondition becomes an Obligation (assumptions |- goal).

Semantics assumed (reported in evidence): python int and C integers are mathematical integers with range
obligations at stores into C-typed variables/arrays; double is the real field; distinct array parameters do
not alias unless a contract builds them from the same Ref."""
import ast
import os
import re
from fractions import Fraction

import z3

from .frontend import OutOfSubset, CType, load
from .values import *
from .values import _counter
from . import spec as S


_QCACHE = {}


def _has_quantifier(f):
    if not z3.is_expr(f):
        return False
    key = f.get_id()
    hit = _QCACHE.get(key)
    if hit is not None and hit[0].eq(f):
        return hit[1]
    seen = set()
    stack = [f]
    res = False
    while stack:
        e = stack.pop()
        i = e.get_id()
        if i in seen:
            continue
        seen.add(i)
        if z3.is_quantifier(e):
            res = True
            break
        stack.extend(e.children())
    _QCACHE[key] = (f, res)
    return res


class Obligation:
    __slots__ = ('oid', 'kind', 'line', 'assumptions', 'goal', 'desc', 'status', 'backend', 'time', 'model',
                 'state', 'src', 'smt2', 'budget')

    def __init__(self, oid, kind, line, assumptions, goal, desc, state=None, src=''):
        self.oid, self.kind, self.line = oid, kind, line
        self.assumptions, self.goal, self.desc = assumptions, goal, desc
        self.status, self.backend, self.time, self.model = None, None, 0.0, None
        self.state = state
        self.src = src


class State:
    __slots__ = ('env', 'heap', 'pc', 'memo', 'ctypes', 'written')

    def __init__(self):
        self.env, self.heap, self.pc, self.memo, self.ctypes = {}, {}, [], {}, {}

    def fork(self):
        s = State()
        s.env = dict(self.env)
        s.heap = {k: v.copy() for k, v in self.heap.items()}
        s.pc = list(self.pc)
        s.memo = dict(self.memo)
        s.ctypes = self.ctypes
        return s


class View:
    """spec-level view of a state (see spec.py)"""

    def __init__(self, ex, st, old=None, extra=None):
        object.__setattr__(self, '_ex', ex)
        object.__setattr__(self, '_st', st)
        object.__setattr__(self, '_extra', extra or {})
        if old is not None:
            object.__setattr__(self, 'old', old)

    def __getattr__(self, name):
        ex, st = self._ex, self._st
        if name in self._extra:
            return self._extra[name]
        if name in st.env:
            return ex.spec_value(st, st.env[name])
        raise AttributeError('no program variable %r in spec view (have %s)' % (name, sorted(st.env)))

    def has(self, name):
        return name in self._st.env or name in self._extra


class _Return(Exception):
    pass


_MUTATORS = {'append', 'add', 'update', 'extend', 'insert', 'pop', 'remove', 'discard', 'clear', 'sort',
             'setdefault', 'fill', 'difference_update', 'intersection_update', 'popitem', 'reverse'}


class Executor:
    def __init__(self, fn, contract, instance=None, registry=None, prune=True, max_paths=4000):
        self.fn, self.contract = fn, contract
        self.instance = instance or {}
        self.registry = registry or {}
        self.obligations = []
        self.prune = prune
        self.max_paths = max_paths
        self.npaths = 0
        self.return_pcs = []
        self.returns = []
        self.directives = dict(getattr(fn, 'directives', {}))
        self.src = fn.srcfile
        self.loop_nodes = [n for n in ast.walk(fn) if isinstance(n, (ast.While, ast.For))]
        self.loop_nodes.sort(key=lambda n: (n.lineno, n.col_offset))
        self.loop_ord = {id(n): k for k, n in enumerate(self.loop_nodes)}
        self.used_loopspecs = set()
        self._prune_solver = None
        self.notes = []
        self.params0 = {}
        self.initial = None
        self.inline_stack = []
        self.cur_directives = self.directives
        self.cur_loops = contract.loops
        self.cur_callees = contract.callees
        self.cur_fn = fn
        self.oid_counts = {}
        self.used_checks = set()

    # ------------------------------------------------------------------ obligations
    def rel(self, node):
        return getattr(node, 'lineno', self.fn.lineno) - self.fn.lineno

    def oblige(self, st, kind, node, goal, desc='', label=None):
        if isinstance(goal, bool):
            if goal:
                return
            goal = z3.BoolVal(False)
        goal = z3.simplify(goal) if False else goal
        line = getattr(node, 'lineno', 0)
        fnname = self.cur_fn.name if self.cur_fn is not self.fn else None
        base = '%s:%s:%s' % (self.contract.name, kind, label if label else 'L+%d' % self.rel(node))
        if fnname:
            base += '@' + fnname
        k = self.oid_counts.get(base, 0)
        self.oid_counts[base] = k + 1
        oid = base if k == 0 else '%s#%d' % (base, k)
        src = self.cur_fn.srcfile.line(line).strip() if hasattr(self.cur_fn, 'srcfile') else ''
        self.obligations.append(Obligation(oid, kind, line, list(st.pc), goal, desc, state=st, src=src))

    def assume(self, st, f):
        if isinstance(f, bool):
            if not f:
                st.pc.append(z3.BoolVal(False))
            return
        st.pc.append(f)

    def feasible(self, st, extra=None):
        if not self.prune:
            return True
        s = z3.Solver()
        s.set('timeout', self.contract.options.get('prune_ms', 150))
        # pruning uses the quantifier-free part of the path condition only (an over-approximation: fewer paths are pruned, none
        # wrongly); satisfiable queries with quantifiers over arrays can make z3 build models past its time limit
        for a in st.pc:
            if not _has_quantifier(a):
                s.add(a)
        if extra is not None and not _has_quantifier(extra):
            s.add(extra)
        if os.environ.get('PYVC_TRACE'):
            with open('/var/tmp/pyvc-trace-%d.log' % os.getpid(), 'a') as tf:
                tf.write('feasible %d\n' % len(st.pc))
            if os.environ.get('PYVC_TRACE') == 'dump':
                open('/var/tmp/pyvc-last-%d.smt2' % os.getpid(), 'w').write(s.to_smt2())
        r = s.check()
        if r == z3.unknown:
            # a lapsed budget (busy machine) keeps the path, which is sound but costs obligations on dead code: one retry with more time
            s.set('timeout', 8 * self.contract.options.get('prune_ms', 150))
            r = s.check()
        return r != z3.unsat

    # ------------------------------------------------------------------ spec views
    def spec_value(self, st, v):
        if isinstance(v, Ref):
            c = st.heap[v.id]
            if isinstance(c, ArrContent):
                return S.SpecArr(c, v)
            if isinstance(c, ListContent):
                return [self.spec_value(st, x) for x in c.items]
            if isinstance(c, ObjContent):
                return S.SpecObj({a: self.spec_value(st, x) for a, x in c.attrs.items()})
            if isinstance(c, SeqContent):
                return S.SpecSeq(c, v)
            if isinstance(c, SetListContent):
                return S.SpecSetList(c)
            if isinstance(c, MapListContent):
                return S.SpecMapList(c)
            if isinstance(c, (SetContent, DictContent)):
                return c
            raise OutOfSubset('spec view of %r' % c)
        if isinstance(v, VTuple):
            return tuple(self.spec_value(st, x) for x in v)
        if isinstance(v, VStruct):
            return S.SpecObj({a: self.spec_value(st, x) for a, x in v.fields.items()})
        if isinstance(v, VPtr):
            return S.SpecObj({'arr': self.spec_value(st, v.ref), 'offset': v.offset, 'ref': v.ref})
        if isinstance(v, VFunc) and hasattr(v, 'z3fn'):
            return v.z3fn
        if isinstance(v, VSetVal):
            return v.arr
        if isinstance(v, VSetView):
            return z3.Select(st.heap[v.ref.id].data, to_z3(v.idx))
        if isinstance(v, VArrView):
            c = st.heap[v.ref.id]
            sub = ArrContent(c.shape[len(v.prefix):], arr_select(c.data, v.prefix), c.kind)
            return S.SpecArr(sub, v.ref)
        if v is _UNSET:
            return None
        return v

    def view(self, st, extra=None):
        old = View(self, self.initial) if self.initial is not None else None
        return View(self, st, old=old, extra=extra)

    # ------------------------------------------------------------------ value helpers
    def truth(self, st, v, node):
        """python truthiness as z3 Bool / python bool"""
        if isinstance(v, bool):
            return v
        if v is None:
            return False
        if isinstance(v, (int, Fraction)):
            return v != 0
        if is_z3(v):
            if z3.is_bool(v):
                return v
            if z3.is_int(v) or z3.is_real(v):
                return v != 0
        if isinstance(v, VTuple):
            return len(v) != 0
        if isinstance(v, str):
            return len(v) != 0
        sv = self.as_set(st, v, node)
        if sv is not None:
            # a set is true iff it is not empty
            return sv[0] != z3.EmptySet(sv[1])
        if isinstance(v, Ref):
            c = st.heap[v.id]
            if isinstance(c, ListContent):
                return len(c.items) != 0
            if isinstance(c, SeqContent):
                return c.length != 0
            if isinstance(c, ArrContent):
                # bool(ndarray) is an error unless it has exactly one element
                if c.numpy:
                    n = 1
                    for s_ in c.shape:
                        n = n * s_
                    self.oblige(st, 'safe:bool-of-array', node, to_z3(n) == 1 if is_z3(n) else n == 1,
                                'truth value of an array with more than one element is ambiguous')
                    return arr_select(c.data, [0] * c.ndim) != 0
                return True
            if isinstance(c, ObjContent):
                return True
        raise OutOfSubset('truth value of %r at line %s' % (v, getattr(node, 'lineno', '?')))

    def neg(self, b):
        if isinstance(b, bool):
            return not b
        return z3.Not(b)

    def ctype_assume(self, st, v, ct):
        """a variable of C integer type holds a value of that type"""
        if ct is not None and ct.kind == 'int' and is_z3(v):
            lo, hi = ct.int_range()
            st.pc.append(z3.And(v >= lo, v <= hi))

    def coerce_store(self, st, v, ct, node, what):
        """value stored into a C-typed slot: range obligation for ints, int->real promotion"""
        if ct is None:
            return v
        if ct.kind == 'int':
            if isinstance(v, bool):
                v = int(v)
            if is_z3(v) and z3.is_bool(v):
                v = z3.If(v, 1, 0)
            if is_real(v):
                raise OutOfSubset('real stored to C int %s' % what)
            if is_int(v) and self.contract.options.get('overflow', True):
                lo, hi = ct.int_range()
                if is_z3(v):
                    self.oblige(st, 'safe:range', node, z3.And(v >= lo, v <= hi),
                                '%s fits C type (%d bit %s)' % (what, ct.bits, 'signed' if ct.signed else 'unsigned'))
                else:
                    self.oblige(st, 'safe:range', node, lo <= v <= hi, what)
            return v
        if ct.kind == 'real':
            if is_int(v):
                return to_real(v)
            return v
        if ct.kind == 'bint':
            if is_int(v):
                return v != 0
            return v
        if ct.kind == 'ptr' and isinstance(v, Ref):
            return VPtr(v, 0)
        return v

    # ------------------------------------------------------------------ arithmetic
    def as_set(self, st, v, node):
        """(z3 set array, elem sort) of a set-like value, or None"""
        if isinstance(v, VSetVal):
            return v.arr, v.elem_sort
        if isinstance(v, VSetView):
            c = st.heap[v.ref.id]
            return z3.Select(c.data, to_z3(v.idx)), c.elem_sort
        if isinstance(v, Ref) and isinstance(st.heap.get(v.id), SetContent) and not isinstance(st.heap[v.id].elem_sort, str):
            return st.heap[v.id].data, st.heap[v.id].elem_sort
        return None

    def binop(self, st, op, a, b, node):
        sa, sb = self.as_set(st, a, node), self.as_set(st, b, node)
        if sa is not None or sb is not None:
            if sa is None or sb is None:
                # set() | x with an empty concrete container
                other = sa or sb
                def empty_like(v):
                    if isinstance(v, Ref) and isinstance(st.heap[v.id], ListContent) and not st.heap[v.id].items:
                        return z3.EmptySet(other[1]), other[1]
                    if isinstance(v, VTuple) and len(v) == 0:
                        return z3.EmptySet(other[1]), other[1]
                    raise OutOfSubset('set operation with a non-set operand (%r) at line %d' % (v, node.lineno))
                sa = sa or empty_like(a)
                sb = sb or empty_like(b)
            if isinstance(op, ast.BitOr):
                return VSetVal(z3.SetUnion(sa[0], sb[0]), sa[1])
            if isinstance(op, ast.BitAnd):
                return VSetVal(z3.SetIntersect(sa[0], sb[0]), sa[1])
            if isinstance(op, ast.Sub):
                return VSetVal(z3.SetDifference(sa[0], sb[0]), sa[1])
            raise OutOfSubset('set operator %s at line %d' % (type(op).__name__, node.lineno))
        if isinstance(a, VOpaque) or isinstance(b, VOpaque) or is_vec(a) or is_vec(b):
            # abstract vectors / unmodelled objects: an uninterpreted function of the operands
            for x in (a, b):
                if not (isinstance(x, VOpaque) or is_vec(x) or is_num(x) or isinstance(x, bool) or x is None):
                    raise OutOfSubset('arithmetic on unmodelled value at line %d' % node.lineno)
            return vec_op(type(op).__name__, a, b)
        if isinstance(op, ast.Add) and isinstance(a, VTuple) and isinstance(b, VTuple):
            return VTuple(tuple(a) + tuple(b))
        if isinstance(op, ast.Mult) and isinstance(a, int) and isinstance(b, Ref) and isinstance(st.heap[b.id], ListContent):
            a, b = b, a
        if isinstance(op, ast.Mult) and isinstance(a, Ref) and isinstance(st.heap[a.id], ListContent):
            if isinstance(b, int):
                r = Ref('list')
                st.heap[r.id] = ListContent(st.heap[a.id].items * b)
                return r
            raise OutOfSubset('list repetition with symbolic count at line %d' % node.lineno)
        if isinstance(op, ast.Add) and isinstance(a, Ref) and isinstance(b, Ref) and \
                isinstance(st.heap[a.id], ListContent) and isinstance(st.heap[b.id], ListContent):
            r = Ref('list')
            st.heap[r.id] = ListContent(st.heap[a.id].items + st.heap[b.id].items)
            return r
        if (isinstance(a, Ref) and isinstance(st.heap[a.id], ArrContent)) or (isinstance(b, Ref) and isinstance(st.heap[b.id], ArrContent)):
            return self.elementwise(st, op, a, b, node)
        if isinstance(a, bool):
            a = int(a)
        if isinstance(b, bool):
            b = int(b)
        if is_z3(a) and z3.is_bool(a):
            a = z3.If(a, 1, 0)
        if is_z3(b) and z3.is_bool(b):
            b = z3.If(b, 1, 0)
        if isinstance(a, VPtr) and is_int(b) and isinstance(op, (ast.Add, ast.Sub)):
            # C pointer arithmetic in units of elements; forming an address is not an access (bounds are checked at the load/store)
            return VPtr(a.ref, self.binop(st, op, a.offset, b, node))
        if not (is_num(a) and is_num(b)):
            raise OutOfSubset('binary operator on %r, %r at line %d' % (type(a).__name__, type(b).__name__, node.lineno))
        real = is_real(a) or is_real(b)
        if real:
            a, b = to_real(a), to_real(b)
        conc = is_concrete(a) and is_concrete(b)
        if isinstance(op, ast.Add):
            return a + b
        if isinstance(op, ast.Sub):
            return a - b
        if isinstance(op, ast.Mult):
            return a * b
        if isinstance(op, ast.Div):
            cdiv_int = (not real) and self.cur_directives.get('cdivision', False) and self.cur_fn.srcfile.is_cython
            if cdiv_int:
                return self.intdiv(st, a, b, node, trunc=True)
            a, b = to_real(a), to_real(b)
            if self.contract.options.get('float_div_raises', True):
                self.oblige(st, 'safe:div', node, (b != 0) if is_z3(b) else (b != 0), 'divisor is non-zero')
            if is_concrete(a) and is_concrete(b):
                return Fraction(a) / Fraction(b) if b != 0 else Fraction(0)
            return to_z3(a) / to_z3(b)
        if isinstance(op, ast.FloorDiv):
            if real:
                raise OutOfSubset('floor division of reals at line %d' % node.lineno)
            return self.intdiv(st, a, b, node, trunc=self.cur_directives.get('cdivision', False) and self.cur_fn.srcfile.is_cython)
        if isinstance(op, ast.Mod):
            if real:
                raise OutOfSubset('modulo of reals at line %d' % node.lineno)
            return self.intmod(st, a, b, node, trunc=self.cur_directives.get('cdivision', False) and self.cur_fn.srcfile.is_cython)
        if isinstance(op, ast.Pow):
            if isinstance(b, int) and 0 <= b <= 8:
                r = 1
                for _ in range(b):
                    r = r * a
                return r
            if is_num(a) and is_num(b):
                # real power: uninterpreted, positive for a positive base (assumed contract of pow)
                r = z3.Real(fresh_name('pow'))
                st.pc.append(z3.Implies(to_z3(to_real(a)) > 0, r > 0))
                return r
            raise OutOfSubset('power with non-constant exponent at line %d' % node.lineno)
        raise OutOfSubset('operator %s at line %d' % (type(op).__name__, node.lineno))

    def intdiv(self, st, a, b, node, trunc):
        self.oblige(st, 'safe:div', node, (to_z3(b) != 0) if is_z3(b) else (b != 0), 'divisor is non-zero')
        if is_concrete(a) and is_concrete(b):
            if b == 0:
                return 0
            if trunc:
                q = abs(a) // abs(b)
                return q if (a >= 0) == (b > 0) else -q
            return a // b
        return self.intdiv_nochk(a, b, trunc, st)

    def intmod(self, st, a, b, node, trunc):
        self.oblige(st, 'safe:div', node, (to_z3(b) != 0) if is_z3(b) else (b != 0), 'modulus is non-zero')
        if is_concrete(a) and is_concrete(b):
            if b == 0:
                return 0
            if trunc:
                r = abs(a) % abs(b)
                return r if a >= 0 else -r
            return a % b
        q = self.intdiv_nochk(a, b, trunc, st)
        return to_z3(a) - to_z3(b) * q

    def euclid(self, a, b, st):
        """(q, m) with a == b*q + m, 0 <= m < |b| (z3's div/mod).  For a symbolic divisor the pair is introduced
        by its defining equation (div/mod elimination), which the nonlinear solvers handle far better"""
        if z3.is_int_value(b):
            return a / b, a % b
        key = (a.get_id(), b.get_id())
        cache = getattr(self, '_euclid_cache', None)
        if cache is None:
            cache = self._euclid_cache = {}
        if key not in cache:
            q, m = z3.Int(fresh_name('q')), z3.Int(fresh_name('m'))
            cache[key] = (q, m, z3.Implies(b != 0, z3.And(a == b * q + m, m >= 0, m < z3.If(b > 0, b, -b))))
        q, m, ax = cache[key]
        if not any(ax.eq(c) for c in st.pc[-40:]):
            st.pc.append(ax)
        return q, m

    def intdiv_nochk(self, a, b, trunc, st):
        a, b = to_z3(a), to_z3(b)
        q, m = self.euclid(a, b, st)
        if trunc:
            return z3.If(z3.Or(a >= 0, m == 0), q, z3.If(b > 0, q + 1, q - 1))
        return z3.If(z3.Or(b > 0, m == 0), q, q - 1)

    def compare(self, st, op, a, b, node):
        if a is INF or b is INF:
            # a finite number against +inf (the other operand is an int/real of the model, hence finite)
            if a is INF and b is INF:
                return isinstance(op, (ast.Eq, ast.LtE, ast.GtE))
            if (is_num(a) or is_num(b)):
                fin_left = b is INF
                if isinstance(op, (ast.Lt, ast.LtE)):
                    return fin_left
                if isinstance(op, (ast.Gt, ast.GtE)):
                    return not fin_left
                if isinstance(op, ast.Eq):
                    return False
                if isinstance(op, ast.NotEq):
                    return True
            raise OutOfSubset('comparison with inf at line %d' % node.lineno)
        if isinstance(op, (ast.Is, ast.IsNot)):
            if a is None or b is None:
                r = (a is None and b is None)
                if not r and (is_z3(a) or is_z3(b)):
                    r = False
            elif isinstance(a, Ref) and isinstance(b, Ref):
                r = a is b
            elif is_num(a) and is_num(b):
                # `x is y` on small ints (used by the code for shape tests): identity == equality is
                # only guaranteed by CPython for small ints; treated as equality (listed assumption)
                self.notes.append('`is` on integers read as == (line %d)' % node.lineno)
                r = (to_z3(a) == to_z3(b)) if (is_z3(a) or is_z3(b)) else a == b
            else:
                r = False
            return r if isinstance(op, ast.Is) else self.neg(r)
        if isinstance(op, (ast.In, ast.NotIn)):
            r = self.contains(st, b, a, node)
            return r if isinstance(op, ast.In) else self.neg(r)
        if isinstance(a, VOpaque) or isinstance(b, VOpaque):
            raise OutOfSubset('comparison of unmodelled value at line %d' % node.lineno)
        if isinstance(a, str) or isinstance(b, str):
            if isinstance(a, str) and isinstance(b, str):
                return {ast.Eq: a == b, ast.NotEq: a != b}[type(op)]
            if isinstance(op, ast.Eq):
                return False
            if isinstance(op, ast.NotEq):
                return True
        if (a is None) != (b is None):
            if isinstance(op, ast.Eq):
                return False
            if isinstance(op, ast.NotEq):
                return True
        if a is None and b is None:
            return isinstance(op, ast.Eq)
        if isinstance(a, VTuple) and isinstance(b, VTuple):
            if isinstance(op, (ast.Eq, ast.NotEq)):
                if len(a) != len(b):
                    r = False
                else:
                    parts = [self.compare(st, ast.Eq(), x, y, node) for x, y in zip(a, b)]
                    if all(isinstance(p, bool) for p in parts):
                        r = all(parts)
                    else:
                        r = z3.And(*[to_z3(p) for p in parts])
                return r if isinstance(op, ast.Eq) else self.neg(r)
        if isinstance(a, bool):
            a = int(a)
        if isinstance(b, bool):
            b = int(b)
        if is_z3(a) and z3.is_bool(a) and is_z3(b) and z3.is_bool(b):
            if isinstance(op, ast.Eq):
                return a == b
            if isinstance(op, ast.NotEq):
                return a != b
        if is_z3(a) and z3.is_bool(a):
            a = z3.If(a, 1, 0)
        if is_z3(b) and z3.is_bool(b):
            b = z3.If(b, 1, 0)
        if not (is_num(a) and is_num(b)):
            raise OutOfSubset('comparison of %r and %r at line %d' % (type(a).__name__, type(b).__name__, node.lineno))
        if is_real(a) or is_real(b):
            a, b = to_real(a), to_real(b)
        if is_z3(a) or is_z3(b):
            a, b = to_z3(a), to_z3(b)
        return {ast.Eq: lambda: a == b, ast.NotEq: lambda: a != b, ast.Lt: lambda: a < b,
                ast.LtE: lambda: a <= b, ast.Gt: lambda: a > b, ast.GtE: lambda: a >= b}[type(op)]()

    def contains(self, st, cont, x, node):
        sc = self.as_set(st, cont, node)
        if sc is not None:
            return z3.IsMember(self.pack(x, sc[1]), sc[0])
        if isinstance(cont, VMapView):
            c = st.heap[cont.ref.id]
            return z3.Select(z3.Select(c.has, to_z3(cont.idx)), to_z3(x))
        if isinstance(cont, VTuple):
            parts = [self.compare(st, ast.Eq(), x, y, node) for y in cont]
            if all(isinstance(p, bool) for p in parts):
                return any(parts)
            return z3.Or(*[to_z3(p) for p in parts])
        if isinstance(cont, Ref):
            c = st.heap[cont.id]
            if isinstance(c, ListContent):
                return self.contains(st, VTuple(c.items), x, node)
            if isinstance(c, SetContent):
                return z3.Select(c.data, self.pack(x, c.elem_sort))
            if isinstance(c, DictContent):
                return z3.Select(c.keys, self.pack(x, c.key_sort))
            if isinstance(c, CDictContent):
                if getattr(c, 'unknown', False):
                    raise OutOfSubset('lookup in a dict of unknown content at line %d' % node.lineno)
                if not isinstance(x, (int, str, bool, tuple)) or isinstance(x, VTuple) and not all(isinstance(e, (int, str)) for e in x):
                    raise OutOfSubset('symbolic key in a concrete-key dict at line %d' % node.lineno)
                return (tuple(x) if isinstance(x, VTuple) else x) in c.items
        raise OutOfSubset('`in` on %r at line %d' % (cont, node.lineno))

    def pack(self, x, sort):
        """python-level value -> z3 term of `sort` (ints, or tuples of ints for tuple datatypes)"""
        if isinstance(x, (VTuple, tuple)):
            ctor = sort.constructor(0)
            return ctor(*[to_z3(e) for e in x])
        if is_z3(x) and x.sort() == sort:
            return x
        return to_z3(x)

    # ------------------------------------------------------------------ indexing
    def index_value(self, st, c, i, extent, node, what):
        """bounds obligation + effective index for one axis"""
        cy = self.cur_fn.srcfile.is_cython
        nowrap = cy and self.cur_directives.get('wraparound', True) is False
        nocheck = cy and self.cur_directives.get('boundscheck', True) is False
        if isinstance(i, bool):
            i = int(i)
        if not is_int(i):
            raise OutOfSubset('non-integer index at line %d' % node.lineno)
        if is_concrete(i) and is_concrete(extent):
            if nowrap or nocheck:
                self.oblige(st, 'safe:index', node, 0 <= i < extent, '%s index %d within [0,%d)' % (what, i, extent))
                return i
            self.oblige(st, 'safe:index', node, -extent <= i < extent, '%s index within bounds' % what)
            return i + extent if i < 0 else i
        iz, ez = to_z3(i), to_z3(extent)
        if nowrap or nocheck or (is_concrete(i) and i >= 0):
            self.oblige(st, 'safe:index', node, z3.And(iz >= 0, iz < ez),
                        '%s index within [0,extent) (no bounds check at run time)' % what if nocheck else '%s index within bounds' % what)
            return i
        if is_concrete(i) and i < 0:
            self.oblige(st, 'safe:index', node, ez >= -i, '%s negative index within bounds' % what)
            return ez + i
        self.oblige(st, 'safe:index', node, z3.And(iz >= -ez, iz < ez), '%s index within bounds' % what)
        return z3.If(iz < 0, iz + ez, iz)

    def subscript_load(self, st, base, idx, node):
        if isinstance(base, VOpaque):
            return VOpaque('subscript of ' + base.what)
        if isinstance(base, VFunc) and isinstance(base.fn, tuple) and base.fn[0] == 'vecmethod':
            return VOpaque('subscript of vec.' + base.fn[2])       # data attribute of an abstract vector (x.shape[0], ...)
        if is_vec(base):
            if isinstance(idx, slice) or isinstance(idx, VTuple):
                return fresh_vec('sub')
            return vec_op('getitem', base, idx)
        if isinstance(base, VTuple) or (isinstance(base, Ref) and isinstance(st.heap[base.id], ListContent)):
            items = base if isinstance(base, VTuple) else st.heap[base.id].items
            if isinstance(idx, slice):
                sl = items[idx]
                if isinstance(base, VTuple):
                    return VTuple(sl)
                r = Ref('list')
                st.heap[r.id] = ListContent(sl)
                return r
            if isinstance(idx, int):
                self.oblige(st, 'safe:index', node, -len(items) <= idx < len(items), 'sequence index in range')
                if -len(items) <= idx < len(items):
                    return items[idx]
                return VOpaque('out of range')
            if is_z3(idx) and len(items) > 0:
                self.oblige(st, 'safe:index', node, z3.And(idx >= -len(items), idx < len(items)), 'sequence index in range')
                # symbolic index into a concrete list of scalars
                if all(is_num(x) for x in items):
                    r = to_z3(items[-1])
                    for k in range(len(items) - 2, -1, -1):
                        r = z3.If(z3.Or(idx == k, idx == k - len(items)), to_z3(items[k]), r)
                    return r
            raise OutOfSubset('index %r into tuple/list at line %d' % (idx, node.lineno))
        if isinstance(base, VArrView):
            c = st.heap[base.ref.id]
            ix = idx if isinstance(idx, VTuple) else VTuple((idx,))
            k0 = len(base.prefix)
            if len(ix) != c.ndim - k0 or any(isinstance(i, slice) for i in ix):
                raise OutOfSubset('partial indexing of an array view at line %d' % node.lineno)
            eff = [self.index_value(st, c, i, c.shape[k0 + k], node, 'array axis %d' % (k0 + k)) for k, i in enumerate(ix)]
            return arr_select(c.data, list(base.prefix) + eff)
        if isinstance(base, VPtr):
            c = st.heap[base.ref.id]
            flat = self.binop(st, ast.Add(), base.offset, idx, node)
            return self.flat_load(st, c, flat, node)
        if isinstance(base, VMapView):
            c = st.heap[base.ref.id]
            self.oblige(st, 'safe:key', node, z3.Select(z3.Select(c.has, to_z3(base.idx)), to_z3(idx)), 'key present (KeyError otherwise)')
            return z3.Select(z3.Select(c.val, to_z3(base.idx)), to_z3(idx))
        if isinstance(base, Ref) and isinstance(st.heap[base.id], (SetListContent, MapListContent)):
            c = st.heap[base.id]
            if not is_int(idx):
                raise OutOfSubset('non-integer index into a list at line %d' % node.lineno)
            self.oblige(st, 'safe:index', node, z3.And(to_z3(idx) >= 0, to_z3(idx) < to_z3(c.length)), 'list index in range')
            return VSetView(base, idx) if isinstance(c, SetListContent) else VMapView(base, idx)
        if isinstance(base, Ref):
            c = st.heap[base.id]
            if isinstance(c, ArrContent):
                ix = idx if isinstance(idx, VTuple) else VTuple((idx,))
                if any(isinstance(i, slice) or i is Ellipsis for i in ix):
                    return self.array_slice(st, base, c, ix, node)
                if len(ix) > c.ndim:
                    self.oblige(st, 'safe:index', node, False, 'too many indices')
                    return VOpaque('bad index')
                eff = [self.index_value(st, c, i, c.shape[k], node, 'array axis %d' % k) for k, i in enumerate(ix)]
                if len(eff) < c.ndim:
                    # sub-array view: modelled as a copy-free view object
                    return self.array_view(st, base, c, eff, node)
                return arr_select(c.data, eff)
            if isinstance(c, SeqContent):
                eff = self.index_value(st, c, idx, c.length, node, 'sequence')
                return z3.Select(c.data, to_z3(eff))
            if isinstance(c, DictContent):
                k = self.pack(idx, c.key_sort)
                self.oblige(st, 'safe:key', node, z3.Select(c.keys, k), 'key present (KeyError otherwise)')
                return z3.Select(c.vals, k)
            if isinstance(c, CDictContent):
                key = tuple(idx) if isinstance(idx, VTuple) else idx
                if not isinstance(key, (int, str, bool, tuple)) or getattr(c, 'unknown', False):
                    raise OutOfSubset('symbolic key / unknown content of a concrete-key dict at line %d' % node.lineno)
                self.oblige(st, 'safe:key', node, key in c.items, 'key present (KeyError otherwise)')
                return c.items.get(key, VOpaque('missing'))
        raise OutOfSubset('subscript of %r at line %d' % (base, node.lineno))

    def flat_load(self, st, c, flat, node):
        total = 1
        for s_ in c.shape:
            total = total * s_
        fz = to_z3(flat)
        self.oblige(st, 'safe:index', node, z3.And(fz >= 0, fz < to_z3(total)) if (is_z3(flat) or is_z3(total)) else 0 <= flat < total,
                    'pointer access inside the underlying buffer')
        return arr_select(c.data, self.unflatten(c, flat))

    def unflatten(self, c, flat):
        if c.ndim == 1:
            return [flat]
        idx = []
        rem = flat
        for k in range(c.ndim - 1, 0, -1):
            n = c.shape[k]
            if is_concrete(rem) and is_concrete(n):
                idx.append(rem % n)
                rem = rem // n
            else:
                idx.append(to_z3(rem) % to_z3(n))
                rem = to_z3(rem) / to_z3(n)
        idx.append(rem)
        return list(reversed(idx))

    def array_view(self, st, base, c, eff, node):
        # a[i] of an n-d array: read-only copy of the sub-array (stores into it are out of subset)
        r = Ref('view')
        st.heap[r.id] = ArrContent(c.shape[len(eff):], arr_select(c.data, eff), c.kind, c.elem_ctype, c.numpy)
        st.heap[r.id].readonly = True
        return r

    def array_slice(self, st, base, c, ix, node):
        """a[i, :], a[:, j], a[i, j, :, :] ... with full slices only (read-only copies)"""
        ix = list(ix)
        if len(ix) < c.ndim:
            ix = ix + [slice(None, None, None)] * (c.ndim - len(ix))
        if len(ix) != c.ndim:
            raise OutOfSubset('slice with too many indices at line %d' % node.lineno)
        # leading integer indices followed by full slices: a writable view of the trailing axes
        nlead = 0
        while nlead < len(ix) and not isinstance(ix[nlead], slice):
            nlead += 1
        if 0 < nlead < len(ix) and all(isinstance(i, slice) and i.start is None and i.stop is None and i.step is None for i in ix[nlead:]) \
                and not getattr(c, 'readonly', False):
            pre = [self.index_value(st, c, i, c.shape[k], node, 'array axis %d' % k) for k, i in enumerate(ix[:nlead])]
            return VArrView(base, pre)
        if isinstance(ix[0], slice) and ix[0].start is not None and ix[0].step is None and \
                all(isinstance(i, slice) and i.start is None and i.stop is None and i.step is None for i in ix[1:]):
            # a[lo:hi] on the leading axis: python clips non-negative bounds to the length; negative bounds (counted from the
            # end) are excluded by an obligation
            n = to_z3(c.shape[0])
            lo = to_z3(ix[0].start)
            hi = to_z3(ix[0].stop) if ix[0].stop is not None else n
            self.oblige(st, 'safe:slice', node, z3.And(lo >= 0, hi >= 0), 'slice bounds are non-negative (no wrap-around)')
            lo_c = z3.If(lo < n, lo, n)
            hi_c = z3.If(hi < lo_c, lo_c, z3.If(hi < n, hi, n))
            return VRowRange(base, lo_c, hi_c)
        newshape, binders, sel = [], [], []
        for k, i in enumerate(ix):
            if isinstance(i, slice):
                if not (i.start is None and i.step is None):
                    raise OutOfSubset('partial slice at line %d' % node.lineno)
                b = z3.Int(fresh_name('sl'))
                binders.append(b)
                sel.append(b)
                if i.stop is None:
                    newshape.append(c.shape[k])
                else:
                    # a[:n]: python clamps; n < 0 counts from the end
                    n, e = to_z3(i.stop), to_z3(c.shape[k])
                    newshape.append(z3.If(n < 0, z3.If(e + n > 0, e + n, 0), z3.If(n < e, n, e)))
            else:
                sel.append(self.index_value(st, c, i, c.shape[k], node, 'array axis %d' % k))
        body = arr_select(c.data, sel)
        for b in reversed(binders):
            body = z3.Lambda([b], body)
        r = Ref('slice')
        st.heap[r.id] = ArrContent(tuple(newshape), body, c.kind, c.elem_ctype, c.numpy)
        st.heap[r.id].readonly = True
        return r

    def elementwise(self, st, op, a, b, node):
        """numpy broadcasting of a binary operator over 1-d arrays / scalars"""
        ca = st.heap[a.id] if isinstance(a, Ref) else None
        cb = st.heap[b.id] if isinstance(b, Ref) else None
        arrs = [c for c in (ca, cb) if c is not None]
        if any(not isinstance(c, ArrContent) or c.ndim != 1 for c in arrs):
            raise OutOfSubset('elementwise operation on non-1d operands at line %d' % node.lineno)
        if len(arrs) == 2:
            self.oblige(st, 'safe:broadcast', node, to_z3(ca.shape[0]) == to_z3(cb.shape[0]), 'operands have equal length')
        i = z3.Int(fresh_name('ew'))
        x = z3.Select(ca.data, i) if ca is not None else a
        y = z3.Select(cb.data, i) if cb is not None else b
        saved = len(self.obligations)
        val = self.binop(st, op, x, y, node)
        # obligations generated for the generic element (e.g. division) are quantified over the index
        for ob in self.obligations[saved:]:
            ob.goal = z3.ForAll([i], z3.Implies(z3.And(i >= 0, i < to_z3(arrs[0].shape[0])), ob.goal))
        kind = 'real' if is_real(val) else 'int'
        r = Ref('ndarray')
        st.heap[r.id] = ArrContent(arrs[0].shape, z3.Lambda([i], to_z3(val)), kind, None, True)
        return r

    def subscript_store(self, st, base, idx, val, node):
        if isinstance(base, Ref) and isinstance(st.heap[base.id], CDictContent):
            key = tuple(idx) if isinstance(idx, VTuple) else idx
            if not isinstance(key, (int, str, bool, tuple)):
                raise OutOfSubset('symbolic key in a concrete-key dict at line %d' % node.lineno)
            st.heap[base.id].items[key] = val
            return
        if isinstance(base, VArrView):
            c = st.heap[base.ref.id]
            ix = idx if isinstance(idx, VTuple) else VTuple((idx,))
            k0 = len(base.prefix)
            if len(ix) != c.ndim - k0 or any(isinstance(i, slice) for i in ix):
                raise OutOfSubset('partial store through an array view at line %d' % node.lineno)
            eff = [self.index_value(st, c, i, c.shape[k0 + k], node, 'array axis %d' % (k0 + k)) for k, i in enumerate(ix)]
            val = self.elem_coerce(st, c, val, node)
            c.data = arr_store(c.data, list(base.prefix) + eff, to_z3(val))
            return
        if isinstance(base, VMapView):
            c = st.heap[base.ref.id]
            p_ = to_z3(base.idx)
            c.has = z3.Store(c.has, p_, z3.Store(z3.Select(c.has, p_), to_z3(idx), z3.BoolVal(True)))
            c.val = z3.Store(c.val, p_, z3.Store(z3.Select(c.val, p_), to_z3(idx), to_z3(val)))
            return
        if isinstance(base, Ref) and isinstance(st.heap[base.id], SetListContent):
            c = st.heap[base.id]
            self.oblige(st, 'safe:index', node, z3.And(to_z3(idx) >= 0, to_z3(idx) < to_z3(c.length)), 'list index in range')
            sv = self.as_set(st, val, node)
            if sv is None and isinstance(val, VTuple) and len(val) == 0:
                sv = (z3.EmptySet(c.elem_sort), c.elem_sort)
            if sv is None:
                raise OutOfSubset('storing a non-set into a list of sets at line %d' % node.lineno)
            c.data = z3.Store(c.data, to_z3(idx), sv[0])
            return
        if isinstance(base, VPtr):
            c = st.heap[base.ref.id]
            flat = self.binop(st, ast.Add(), base.offset, idx, node)
            total = 1
            for s_ in c.shape:
                total = total * s_
            self.oblige(st, 'safe:index', node,
                        z3.And(to_z3(flat) >= 0, to_z3(flat) < to_z3(total)) if (is_z3(flat) or is_z3(total)) else 0 <= flat < total,
                        'pointer store inside the underlying buffer')
            val = self.elem_coerce(st, c, val, node)
            c.data = arr_store(c.data, self.unflatten(c, flat), to_z3(val))
            return
        if isinstance(base, Ref):
            c = st.heap[base.id]
            if isinstance(c, ArrContent):
                if getattr(c, 'readonly', False):
                    raise OutOfSubset('store through an array view at line %d' % node.lineno)
                ix = idx if isinstance(idx, VTuple) else VTuple((idx,))
                if len(ix) == c.ndim and any(isinstance(i, slice) for i in ix) and c.numpy and \
                        all(i == slice(None, None, None) for i in ix if isinstance(i, slice)) and (is_num(val) or isinstance(val, bool)):
                    # a[:, j] = scalar (broadcast over the full axes): every element whose fixed coordinates match is overwritten
                    val = self.elem_coerce(st, c, val, node)
                    c.data = self._axis_update(st, c, ix, node, lambda old: to_z3(val))
                    return
                if any(isinstance(i, slice) for i in ix) or len(ix) != c.ndim:
                    raise OutOfSubset('slice/partial store at line %d' % node.lineno)
                eff = [self.index_value(st, c, i, c.shape[k], node, 'array axis %d' % k) for k, i in enumerate(ix)]
                val = self.elem_coerce(st, c, val, node)
                c.data = arr_store(c.data, eff, to_z3(val))
                return
            if isinstance(c, ListContent):
                if isinstance(idx, int):
                    self.oblige(st, 'safe:index', node, -len(c.items) <= idx < len(c.items), 'list index in range')
                    if -len(c.items) <= idx < len(c.items):
                        c.items[idx] = val
                    return
                raise OutOfSubset('symbolic index store into python list at line %d' % node.lineno)
            if isinstance(c, SeqContent):
                eff = self.index_value(st, c, idx, c.length, node, 'sequence')
                c.data = z3.Store(c.data, to_z3(eff), to_z3(val))
                return
            if isinstance(c, DictContent):
                k = self.pack(idx, c.key_sort)
                c.keys = z3.Store(c.keys, k, z3.BoolVal(True))
                c.vals = z3.Store(c.vals, k, self.pack(val, c.val_sort))
                return
        raise OutOfSubset('store into %r at line %d' % (base, node.lineno))

    def _axis_update(self, st, c, ix, node, fn):
        """array data after  a[ix] = fn(a[ix])  where ix mixes full slices and integer indices"""
        fixed = {k: self.index_value(st, c, i, c.shape[k], node, 'array axis %d' % k) for k, i in enumerate(ix) if not isinstance(i, slice)}
        qs = [z3.Int(fresh_name('ax%d' % k)) for k in range(c.ndim)]
        old = arr_select(c.data, qs)
        hit = z3.And(*[qs[k] == to_z3(v) for k, v in fixed.items()]) if fixed else z3.BoolVal(True)
        body = z3.If(hit, fn(old), old)
        for q in reversed(qs):
            body = z3.Lambda([q], body)
        return body

    def elem_coerce(self, st, c, val, node):
        if c.kind == 'real':
            if not is_num(val):
                raise OutOfSubset('non-numeric store at line %d' % node.lineno)
            return to_real(val)
        if c.kind == 'int':
            if isinstance(val, bool):
                val = int(val)
            if not is_int(val):
                raise OutOfSubset('non-integer store into int array at line %d' % node.lineno)
            if c.elem_ctype is not None:
                self.coerce_store(st, val, c.elem_ctype, node, 'array element')
            return val
        return val

    # ------------------------------------------------------------------ expressions
    def ev(self, node, st):
        m = getattr(self, 'e_' + type(node).__name__, None)
        if m is None:
            raise OutOfSubset('expression %s at line %d' % (type(node).__name__, getattr(node, 'lineno', 0)))
        return m(node, st)

    def e_Constant(self, node, st):
        v = node.value
        if isinstance(v, float):
            txt = getattr(node, 'srctext', None)
            if txt is None and not self.cur_fn.srcfile.is_cython:
                txt = ast.get_source_segment(self.cur_fn.srcfile.text, node)
            try:
                return Fraction(txt) if txt else Fraction(v)
            except (ValueError, TypeError):
                return Fraction(v)
        return v

    def e_Name(self, node, st):
        if node.id in st.env:
            v = st.env[node.id]
            if v is _UNSET:
                raise OutOfSubset('read of unassigned local %s at line %d' % (node.id, node.lineno))
            return v
        if node.id in _BUILTINS:
            return VFunc(node.id, _BUILTINS[node.id])
        if node.id in ('np', 'numpy', 'scipy', 'itertools', 'math'):
            return VModule(node.id)
        if node.id in self.cur_callees:
            return VFunc(node.id, None)
        return VOpaque('global ' + node.id)

    def e_Tuple(self, node, st):
        return VTuple(self.ev(e, st) for e in node.elts)

    def e_List(self, node, st):
        r = Ref('list')
        st.heap[r.id] = ListContent([self.ev(e, st) for e in node.elts])
        return r

    def e_Dict(self, node, st):
        return VOpaque('dict literal')

    def e_JoinedStr(self, node, st):
        return 'fstring'

    def e_Lambda(self, node, st):
        return VOpaque('lambda')

    def e_UnaryOp(self, node, st):
        v = self.ev(node.operand, st)
        if isinstance(node.op, ast.Not):
            return self.neg(self.truth(st, v, node))
        if isinstance(node.op, ast.USub):
            if isinstance(v, bool):
                v = int(v)
            if is_vec(v) or isinstance(v, VOpaque):
                return vec_op('neg', v)
            if not is_num(v):
                raise OutOfSubset('negation of %r' % (v,))
            return -v
        if isinstance(node.op, ast.UAdd):
            return v
        raise OutOfSubset('unary %s' % type(node.op).__name__)

    def e_BinOp(self, node, st):
        a = self.ev(node.left, st)
        b = self.ev(node.right, st)
        r = self.binop(st, node.op, a, b, node)
        if isinstance(node.op, ast.Mult) and (self.contract.options.get('check_int_products') or os.environ.get('PYVC_ALL_INT_PRODUCTS')) and self.cur_fn.srcfile.is_cython and is_int(r):
            # C evaluates a product in the type of its (converted) operands, not in the type of the variable it is stored to: a product of
            # two 32-bit operands wraps at 2^32 before the store.  (Opt-in per contract; everywhere else C integers are mathematical.)
            t = self.c_int_type(node, st)
            if t is not None and t[0] <= 32:
                lo, hi = (-(1 << (t[0] - 1)), (1 << (t[0] - 1)) - 1) if t[1] else (0, (1 << t[0]) - 1)
                self.oblige(st, 'safe:int-product', node, z3.And(to_z3(r) >= lo, to_z3(r) <= hi) if is_z3(r) else lo <= r <= hi,
                            'product of %d-bit %s operands does not wrap' % (t[0], 'signed' if t[1] else 'unsigned'))
        return r

    def c_int_type(self, node, st):
        """(bits, signed) of a C integer expression by the usual arithmetic conversions, or None if not (known to be) one"""
        if isinstance(node, ast.Constant) and isinstance(node.value, int) and not isinstance(node.value, bool):
            return (32, True)
        if isinstance(node, ast.Name):
            ct = st.ctypes.get((self.cur_fn, node.id))
            return (ct.bits, ct.signed) if ct is not None and ct.kind == 'int' else None
        if isinstance(node, ast.Call) and isinstance(node.func, ast.Name) and node.func.id == '__cast__':
            ct = getattr(node, 'ctype', None)
            return (ct.bits, ct.signed) if ct is not None and ct.kind == 'int' else None
        if isinstance(node, ast.Subscript):
            try:
                base = self.ev(node.value, st)
            except OutOfSubset:
                return None
            ref = base.ref if isinstance(base, VPtr) else base
            c = st.heap.get(ref.id) if isinstance(ref, Ref) else None
            ect = getattr(c, 'elem_ctype', None)
            return (ect.bits, ect.signed) if ect is not None and ect.kind == 'int' else None
        if isinstance(node, ast.BinOp) and isinstance(node.op, (ast.Add, ast.Sub, ast.Mult)):
            ta, tb = self.c_int_type(node.left, st), self.c_int_type(node.right, st)
            if ta is None or tb is None:
                return None
            ta, tb = (max(ta[0], 32), ta[1]), (max(tb[0], 32), tb[1])      # integer promotion
            if ta[0] != tb[0]:
                return ta if ta[0] > tb[0] else tb
            return (ta[0], ta[1] and tb[1])                                   # same width: unsigned wins
        if isinstance(node, ast.UnaryOp) and isinstance(node.op, (ast.USub, ast.UAdd)):
            return self.c_int_type(node.operand, st)
        return None

    def e_BoolOp(self, node, st):
        # short-circuit: obligations in later operands are guarded by the earlier ones
        is_and = isinstance(node.op, ast.And)
        saved = len(st.pc)
        acc = None
        vals = []
        for e in node.values:
            v = self.ev(e, st)
            t = self.truth(st, v, e)
            vals.append(t)
            if isinstance(t, bool):
                if t != is_and:
                    # short-circuit definitively; later operands are never evaluated
                    break
                continue
            st.pc.append(t if is_and else z3.Not(t))
        del st.pc[saved:]
        zs = []
        for t in vals:
            if isinstance(t, bool):
                if t != is_and:
                    zs.append(t)
                    break
                continue
            zs.append(t)
        if not zs:
            return is_and
        if any(isinstance(t, bool) for t in zs):
            # ends with a definitive constant
            sym = [t for t in zs if not isinstance(t, bool)]
            if not sym:
                return not is_and
            return z3.And(*(sym + [z3.BoolVal(False)])) if is_and else z3.Or(*(sym + [z3.BoolVal(True)]))
        return z3.And(*zs) if is_and else z3.Or(*zs)

    def e_Compare(self, node, st):
        left = self.ev(node.left, st)
        res = []
        for op, c in zip(node.ops, node.comparators):
            right = self.ev(c, st)
            res.append(self.compare(st, op, left, right, node))
            left = right
        if len(res) == 1:
            return res[0]
        if all(isinstance(r, bool) for r in res):
            return all(res)
        return z3.And(*[to_z3(r) for r in res])

    def e_IfExp(self, node, st):
        t = self.truth(st, self.ev(node.test, st), node)
        if isinstance(t, bool):
            return self.ev(node.body if t else node.orelse, st)
        st.pc.append(t)
        a = self.ev(node.body, st)
        st.pc.pop()
        st.pc.append(z3.Not(t))
        b = self.ev(node.orelse, st)
        st.pc.pop()
        if is_num(a) and is_num(b):
            if is_real(a) or is_real(b):
                a, b = to_real(a), to_real(b)
            return z3.If(t, to_z3(a), to_z3(b))
        if is_bool(a) and is_bool(b):
            return z3.If(t, to_z3(a), to_z3(b))
        if is_vec(a) and is_vec(b):
            return z3.If(t, a, b)
        raise OutOfSubset('conditional expression over non-scalars at line %d' % node.lineno)

    def e_Attribute(self, node, st):
        base = self.ev(node.value, st)
        a = node.attr
        if isinstance(base, VModule):
            key = base.name + '.' + a
            if key in _MODFUNCS:
                return VFunc(key, _MODFUNCS[key])
            if key in ('np.linalg', 'scipy.linalg', 'scipy.sparse', 'numpy.linalg'):
                return VModule(key.replace('numpy', 'np'))
            if key == 'np.inf':
                return INF
            return VOpaque(key)
        if isinstance(base, VStruct):
            if a in base.fields:
                return base.fields[a]
            raise OutOfSubset('struct field %s' % a)
        if isinstance(base, Ref):
            c = st.heap[base.id]
            if isinstance(c, ObjContent):
                props = self.contract.options.get('properties')
                if props and a in props and a not in c.attrs:
                    # a python @property of the modelled class, given by its (one-line) definition over the modelled state
                    return props[a](self, st, base)
                if a in c.attrs:
                    return c.attrs[a]
                return VFunc('method:' + a, ('method', base, a))
            if isinstance(c, ArrContent):
                if a == 'shape':
                    return VTuple(c.shape)
                if a == 'dtype':
                    return VOpaque({'int': 'dtype int64', 'bool': 'dtype bool'}.get(c.kind, 'dtype float64'))
                if a == 'ndim':
                    return c.ndim
                if a == 'size':
                    n = 1
                    for s_ in c.shape:
                        n = n * s_
                    return n
            return VFunc('method:' + a, ('method', base, a))
        if isinstance(base, (VSetView, VSetVal)) and a in _PURE_SET_METHODS:
            return VFunc('setquery:' + a, ('setquery', base, a))
        if isinstance(base, VSetView):
            return VFunc('setmethod:' + a, ('setmethod', base, a))
        if isinstance(base, VOpaque):
            return VOpaque(base.what + '.' + a)
        if is_vec(base):
            if a == 'T':
                return vec_op('attr_T', base)         # transpose: an uninterpreted function of the operand
            return VFunc('vecmethod:' + a, ('vecmethod', base, a))
        raise OutOfSubset('attribute %s of %r at line %d' % (a, base, node.lineno))

    def e_Subscript(self, node, st):
        if node in st.memo:
            return st.memo[node]
        base = self.ev(node.value, st)
        idx = self.ev_index(node.slice, st)
        return self.subscript_load(st, base, idx, node)

    def ev_index(self, node, st):
        if isinstance(node, ast.Slice):
            f = lambda x: None if x is None else self.ev(x, st)
            lo, hi, step = f(node.lower), f(node.upper), f(node.step)
            if all(x is None or isinstance(x, int) for x in (lo, hi, step)):
                return slice(lo, hi, step)
            if (lo is None or (isinstance(lo, int) and lo == 0)) and step is None and is_int(hi):
                return slice(None, hi, None)     # a[:n] with symbolic n
            if step is None and is_int(lo) and (hi is None or is_int(hi)):
                return slice(lo, hi, None)       # a[lo:hi] with symbolic bounds (leading axis: see array_slice)
            return VOpaque('symbolic slice')     # only usable on unmodelled values
        if isinstance(node, ast.Tuple):
            return VTuple(self.ev_index(e, st) for e in node.elts)
        return self.ev(node, st)

    def e_Call(self, node, st):
        if node in st.memo:
            return st.memo[node]
        # special forms
        if isinstance(node.func, ast.Name):
            nm = node.func.id
            if nm == '__addr__':
                return self.address_of(node.args[0], st)
            if nm == '__cast__':
                v = self.ev(node.args[0], st)
                return self.coerce_store(st, v, getattr(node, 'ctype', None), node, 'cast')
            if nm == '__unsupported__':
                raise OutOfSubset('cython construct %s at line %d' % (node.args[0].value, node.lineno))
        # callee given as a plain python spec function: may be applied in any expression position (e.g. inside a
        # comprehension), as long as it has a single outcome
        cname = node.func.id if isinstance(node.func, ast.Name) else (node.func.attr if isinstance(node.func, ast.Attribute) else None)
        cspec = self.cur_callees.get(cname) if cname else None
        if cspec is not None and callable(cspec) and not isinstance(cspec, (S.Inline, S.Contract)):
            args = [self.ev(a, st) for a in node.args]
            kwargs = {k.arg: self.ev(k.value, st) for k in node.keywords}
            r = cspec(self, st, node, *args, **kwargs)
            if isinstance(r, (S.Outcomes, S.Raise)):
                raise OutOfSubset('callee %s with several outcomes in expression position (line %d)' % (cname, node.lineno))
            return r
        f = self.ev(node.func, st)
        args = []
        for a in node.args:
            if isinstance(a, ast.Starred):
                args.extend(self.iter_values(st, self.ev(a.value, st), node))
            else:
                args.append(self.ev(a, st))
        kwargs = {k.arg: self.ev(k.value, st) for k in node.keywords}
        if isinstance(f, VNested):
            # straight-line nested helper (closure over the enclosing frame): executed in place
            fn = f.node
            names = [a.arg for a in fn.args.args]
            saved = dict(st.env)
            for nme, v in zip(names, args):
                st.env[nme] = v
            outs = self.exec_block(fn.body, st)
            if len(outs) != 1 or outs[0][0] is not st:
                raise OutOfSubset('nested function %s forks at line %d' % (fn.name, node.lineno))
            out = outs[0][1]
            st.env = saved
            if out is None:
                return None
            if isinstance(out, tuple) and out[0] == 'return':
                return out[1]
            raise OutOfSubset('nested function %s ends with %r' % (fn.name, out))
        if isinstance(f, VFunc):
            if f.fn is None:
                raise OutOfSubset('call of %s outside a statement position at line %d' % (f.name, node.lineno))
            if isinstance(f.fn, tuple) and f.fn[0] == 'method':
                return self.call_method(st, f.fn[1], f.fn[2], args, kwargs, node)
            if isinstance(f.fn, tuple) and f.fn[0] == 'vecmethod':
                # methods of abstract matrices/vectors: uninterpreted functions of receiver and arguments
                vb, mname = f.fn[1], f.fn[2]
                if mname == 'dot' and len(args) == 1:
                    return vec_op('MatMult', vb, args[0])
                return vec_op('call_' + mname, vb, *args)
            if isinstance(f.fn, tuple) and f.fn[0] == 'setquery':
                sa = self.as_set(st, f.fn[1], node)
                mname = f.fn[2]
                if mname == 'copy' and not args:
                    return VSetVal(sa[0], sa[1])
                if len(args) != 1:
                    raise OutOfSubset('set.%s with %d arguments at line %d' % (mname, len(args), node.lineno))
                sb = self.as_set(st, args[0], node)
                if sb is None:
                    raise OutOfSubset('set.%s with a non-set argument at line %d' % (mname, node.lineno))
                if mname == 'issubset':
                    return z3.IsSubset(sa[0], sb[0])
                if mname == 'issuperset':
                    return z3.IsSubset(sb[0], sa[0])
                if mname == 'isdisjoint':
                    return z3.SetIntersect(sa[0], sb[0]) == z3.EmptySet(sa[1])
                op = {'union': z3.SetUnion, 'intersection': z3.SetIntersect, 'difference': z3.SetDifference}[mname]
                return VSetVal(op(sa[0], sb[0]), sa[1])
            if isinstance(f.fn, tuple) and f.fn[0] == 'setmethod':
                view, mname = f.fn[1], f.fn[2]
                c = st.heap[view.ref.id]
                cur = z3.Select(c.data, to_z3(view.idx))
                if mname == 'add':
                    c.data = z3.Store(c.data, to_z3(view.idx), z3.SetAdd(cur, self.pack(args[0], c.elem_sort)))
                    return None
                if mname == 'discard':
                    c.data = z3.Store(c.data, to_z3(view.idx), z3.SetDel(cur, self.pack(args[0], c.elem_sort)))
                    return None
                if mname == 'update':
                    sv = self.as_set(st, args[0], node)
                    if sv is None:
                        raise OutOfSubset('set.update with a non-set at line %d' % node.lineno)
                    c.data = z3.Store(c.data, to_z3(view.idx), z3.SetUnion(cur, sv[0]))
                    return None
                raise OutOfSubset('set method %s at line %d' % (mname, node.lineno))
            return f.fn(self, st, node, *args, **kwargs)
        if isinstance(f, VOpaque):
            self.notes.append('unmodelled call %s (line %d): result opaque' % (f.what, node.lineno))
            return VOpaque('call ' + f.what)
        raise OutOfSubset('call of %r at line %d' % (f, node.lineno))

    def call_method(self, st, obj, name, args, kwargs, node):
        c = st.heap[obj.id]
        if isinstance(c, ArrContent) and getattr(c, 'sparse_model', False) and name in ('tocsr', 'tocsc', 'tolil', 'tocoo', 'toarray'):
            # scipy.sparse format conversions keep the matrix (library model: a sparse matrix is its dense array of values)
            return obj
        if isinstance(c, ListContent):
            if name == 'append':
                c.items.append(args[0])
                return None
            if name == 'extend':
                c.items.extend(self.iter_values(st, args[0], node))
                return None
            if name == 'index':
                raise OutOfSubset('list.index at line %d' % node.lineno)
        if isinstance(c, SetListContent) and name == 'append' and len(args) == 1:
            sv = self.as_set(st, args[0], node)
            if sv is None and isinstance(args[0], VTuple) and len(args[0]) == 0:
                sv = (z3.EmptySet(c.elem_sort), c.elem_sort)
            if sv is None:
                raise OutOfSubset('appending a non-set to a list of sets at line %d' % node.lineno)
            c.data = z3.Store(c.data, to_z3(c.length), sv[0])
            c.length = to_z3(c.length) + 1
            return None
        if isinstance(c, SetListContent) and name == 'copy' and not args:
            # dict.copy(): a new level -> set map with the same sets (sets are values in this model)
            r = Ref(obj.label + '.copy')
            st.heap[r.id] = c.copy()
            return r
        if isinstance(c, SetListContent) and name == 'get':
            # a dict level -> set modelled as a total list of sets (absent key = empty set)
            idx = args[0]
            self.oblige(st, 'safe:index', node, z3.And(to_z3(idx) >= 0, to_z3(idx) < to_z3(c.length)), 'level within the modelled range')
            return VSetView(obj, idx)
        if isinstance(c, SeqContent) and name == 'index' and len(args) in (1, 2):
            # list.index(x[, start]): the smallest position >= start holding x; ValueError if there is none (an obligation)
            x = to_z3(args[0])
            start = to_z3(args[1]) if len(args) == 2 else z3.IntVal(0)
            n = to_z3(c.length)
            t = z3.Int(fresh_name('t'))
            lo = z3.If(start < 0, z3.If(start + n < 0, 0, start + n), start)
            self.oblige(st, 'safe:index-found', node, z3.Exists([t], z3.And(lo <= t, t < n, z3.Select(c.data, t) == x)),
                        'list.index finds the value at or after the start position (ValueError otherwise)')
            m = z3.Int(fresh_name('pos'))
            t2 = z3.Int(fresh_name('t'))
            self.assume(st, z3.And(lo <= m, m < n, z3.Select(c.data, m) == x,
                                   z3.ForAll([t2], z3.Implies(z3.And(lo <= t2, t2 < m), z3.Select(c.data, t2) != x))))
            return m
        if isinstance(c, SeqContent):
            if name == 'append':
                v = args[0]
                if isinstance(v, VOpaque):
                    v = fresh_vec('elem')
                c.data = z3.Store(c.data, to_z3(c.length), self.seq_elem(c, v, node))
                c.length = c.length + 1
                return None
        if isinstance(c, SetContent):
            if name == 'add':
                c.data = z3.Store(c.data, self.pack(args[0], c.elem_sort), z3.BoolVal(True))
                return None
            if name == 'discard':
                c.data = z3.Store(c.data, self.pack(args[0], c.elem_sort), z3.BoolVal(False))
                return None
            if name == 'update' and len(args) == 1:
                sv = self.as_set(st, args[0], node)
                if sv is None or sv[1] != c.elem_sort:
                    raise OutOfSubset('set.update with %r at line %d' % (args[0], node.lineno))
                c.data = z3.SetUnion(c.data, sv[0])
                return None
        if isinstance(c, DictContent):
            if name == 'get':
                k = self.pack(args[0], c.key_sort)
                dflt = args[1] if len(args) > 1 else None
                if dflt is None:
                    raise OutOfSubset('dict.get default None at line %d' % node.lineno)
                return z3.If(z3.Select(c.keys, k), z3.Select(c.vals, k), self.pack(dflt, c.val_sort))
        raise OutOfSubset('method %s on %s at line %d' % (name, type(c).__name__, node.lineno))

    def seq_elem(self, c, v, node):
        srt = c.data.sort().range()
        if srt == z3.RealSort():
            if not is_num(v):
                raise OutOfSubset('non-numeric element appended to a list of reals at line %d' % node.lineno)
            return to_z3(to_real(v))
        z = to_z3(v)
        if z.sort() != srt:
            raise OutOfSubset('element sort mismatch at line %d' % node.lineno)
        return z

    def list_to_seq(self, st, ref, node):
        """python list of known length -> symbolic-length sequence (needed when a loop appends to it)"""
        c = st.heap[ref.id]
        if not isinstance(c, ListContent):
            return
        items = [fresh_vec('elem') if isinstance(x, VOpaque) else x for x in c.items]
        if all(is_num(x) for x in items):
            srt = z3.RealSort() if any(is_real(x) for x in items) or not items else z3.IntSort()
            if not items:
                # element sort of a list that starts empty: reals unless the contract says its lists hold ints
                srt = z3.IntSort() if self.contract.options.get('empty_lists_int') else z3.RealSort()
        elif all(is_vec(x) for x in items):
            srt = VecSort
        else:
            raise OutOfSubset('list with mixed element kinds is appended to in a loop (line %d)' % node.lineno)
        data = z3.Const(fresh_name(ref.label), z3.ArraySort(z3.IntSort(), srt))
        for k, x in enumerate(items):
            data = z3.Store(data, k, to_z3(to_real(x)) if srt == z3.RealSort() else to_z3(x))
        st.heap[ref.id] = SeqContent(z3.IntVal(len(items)), data, 'seq')

    def address_of(self, node, st):
        if isinstance(node, ast.Subscript):
            base = self.ev(node.value, st)
            idx = self.ev_index(node.slice, st)
            if isinstance(base, Ref) and isinstance(st.heap[base.id], ArrContent):
                c = st.heap[base.id]
                ix = idx if isinstance(idx, VTuple) else VTuple((idx,))
                flat = 0
                for k, i in enumerate(ix):
                    # &a[0,0] on an empty array is formed by the code (and never dereferenced); the
                    # address itself is not an access
                    flat = flat * c.shape[k] + i if k else i
                for k in range(len(ix), c.ndim):
                    flat = flat * c.shape[k]
                p = VPtr(base, flat)
                if len(ix) == c.ndim:
                    p.midx = list(ix)       # structured form of the same address (for frame contracts of callees writing a row)
                return p
            if isinstance(base, VPtr):
                return VPtr(base.ref, self.binop(st, ast.Add(), base.offset, idx, node))
        raise OutOfSubset('address-of at line %d' % node.lineno)

    def iter_values(self, st, v, node):
        """concrete list of element values of an iterable of known length"""
        if isinstance(v, VTuple):
            return list(v)
        if isinstance(v, VRange):
            if all(isinstance(x, int) for x in (v.lo, v.hi, v.step)):
                return list(range(v.lo, v.hi, v.step))
            if v.step == 1:
                n = z3.simplify(to_z3(v.hi) - to_z3(v.lo))
                if z3.is_int_value(n) and 0 <= n.as_long() <= 16:
                    return [z3.simplify(to_z3(v.lo) + k) for k in range(n.as_long())]
            raise OutOfSubset('iteration over symbolic range without loop contract (line %d)' % node.lineno)
        if isinstance(v, Ref):
            c = st.heap[v.id]
            if isinstance(c, ListContent):
                return list(c.items)
            if isinstance(c, ArrContent) and c.ndim == 1 and isinstance(c.shape[0], int):
                return [arr_select(c.data, [k]) for k in range(c.shape[0])]
        if isinstance(v, list):
            return v
        raise OutOfSubset('iteration over %r at line %d' % (v, node.lineno))

    def e_ListComp(self, node, st):
        r = Ref('list')
        st.heap[r.id] = ListContent(self.comp_values(node, st))
        return r

    def e_GeneratorExp(self, node, st):
        sv = self.sym_set_comp(node, st)
        if sv is not None:
            return sv
        return VTuple(self.comp_values(node, st))

    def sym_set_comp(self, node, st):
        """(x for x in S if cond(x)) over a symbolic set S: the set {x in S : cond(x)} (only meaningful where the consumer is
        order- and multiplicity-insensitive: set(...), a set comprehension); None if the comprehension has another shape"""
        if len(node.generators) != 1:
            return None
        g = node.generators[0]
        if not (isinstance(g.target, ast.Name) and isinstance(node.elt, ast.Name) and node.elt.id == g.target.id):
            return None
        try:
            sv = self.as_set(st, self.ev(g.iter, st), node)
        except OutOfSubset:
            return None
        if sv is None or isinstance(sv[1], str):
            return None
        e = z3.Const(fresh_name(g.target.id), sv[1])
        saved = dict(st.env)
        npc, nobl = len(st.pc), len(self.obligations)
        st.env[g.target.id] = e
        conds = [z3.Select(sv[0], e)]
        for cond in g.ifs:
            t = self.truth(st, self.ev(cond, st), node)
            conds.append(t if is_z3(t) else z3.BoolVal(bool(t)))
        st.env = saved
        # side conditions raised while evaluating the filter (index obligations, ...) must not depend on the bound element:
        # they are then the same for every element and stand as generated
        def mentions(fm):
            return z3.is_expr(fm) and not z3.substitute(fm, (e, z3.Const(fresh_name('other'), sv[1]))).eq(fm)
        if any(mentions(fm) for fm in st.pc[npc:]) or any(mentions(o.goal) for o in self.obligations[nobl:]):
            raise OutOfSubset('comprehension filter with element-dependent side conditions at line %d' % node.lineno)
        return VSetVal(z3.Lambda([e], z3.And(*conds)), sv[1])

    def e_SetComp(self, node, st):
        sv = self.sym_set_comp(node, st)
        if sv is not None:
            return sv
        # a set built from finitely many symbolic elements: kept as the list of its generators' values
        r = Ref('setcomp')
        st.heap[r.id] = ListContent(self.comp_values(node, st))
        return r

    def e_Starred(self, node, st):
        raise OutOfSubset('starred expression at line %d' % node.lineno)

    def comp_values(self, node, st):
        out = []
        saved_env = dict(st.env)

        def rec(k):
            if k == len(node.generators):
                out.append(self.ev(node.elt, st))
                return
            g = node.generators[k]
            for v in self.iter_values(st, self.ev(g.iter, st), node):
                self.assign_target(st, g.target, v, node)
                ok = True
                for cond in g.ifs:
                    t = self.truth(st, self.ev(cond, st), node)
                    if not isinstance(t, bool):
                        raise OutOfSubset('symbolic comprehension filter at line %d' % node.lineno)
                    ok = ok and t
                if ok:
                    rec(k + 1)
        rec(0)
        st.env = saved_env
        return out

    # ------------------------------------------------------------------ assignment
    def assign_target(self, st, tgt, val, node):
        if isinstance(tgt, ast.Name):
            ct = st.ctypes.get((self.cur_fn, tgt.id))
            if ct is not None:
                val = self.coerce_store(st, val, ct, node, 'variable %s' % tgt.id)
                if ct.kind == 'struct' and isinstance(val, VStruct):
                    val = val.copy()
            st.env[tgt.id] = val
            return
        if isinstance(tgt, (ast.Tuple, ast.List)):
            if isinstance(val, VOpaque):
                for t in tgt.elts:
                    self.assign_target(st, t, VOpaque('item of ' + val.what), node)
                return
            vals = self.iter_values(st, val, node)
            if len(vals) != len(tgt.elts):
                self.oblige(st, 'safe:unpack', node, False, 'unpacking %d values into %d targets' % (len(vals), len(tgt.elts)))
                return
            for t, v in zip(tgt.elts, vals):
                self.assign_target(st, t, v, node)
            return
        if isinstance(tgt, ast.Subscript):
            base = self.ev(tgt.value, st)
            idx = self.ev_index(tgt.slice, st)
            self.subscript_store(st, base, idx, val, node)
            return
        if isinstance(tgt, ast.Attribute):
            base = self.ev(tgt.value, st)
            if isinstance(base, VStruct):
                # struct variables are values: update in place in the env binding
                base.fields[tgt.attr] = val
                return
            if isinstance(base, Ref) and isinstance(st.heap[base.id], ObjContent):
                st.heap[base.id].attrs[tgt.attr] = val
                return
        raise OutOfSubset('assignment target %s at line %d' % (type(tgt).__name__, node.lineno))

    # ------------------------------------------------------------------ statements
    def exec_block(self, stmts, st):
        """returns list of (state, outcome); outcome: None | 'break' | 'continue' | ('return', v) | ('raise', name)"""
        states = [(st, None)]
        for s in stmts:
            nxt = []
            for (cur, out) in states:
                if out is not None:
                    nxt.append((cur, out))
                    continue
                nxt.extend(self.exec_stmt(s, cur))
            states = nxt
            if len(states) > self.max_paths:
                raise OutOfSubset('path explosion (> %d paths) at line %d' % (self.max_paths, s.lineno))
        return states

    def find_inline_calls(self, node):
        """calls to contract/inline callees inside a statement, innermost first"""
        out = []
        inside_comp = set()
        for n in ast.walk(node):
            if isinstance(n, (ast.ListComp, ast.GeneratorExp, ast.SetComp, ast.DictComp)):
                for m in ast.walk(n):
                    if m is not n:
                        inside_comp.add(id(m))
        for n in ast.walk(node):
            if isinstance(n, ast.Call) and id(n) not in inside_comp:
                nm = None
                if isinstance(n.func, ast.Name):
                    nm = n.func.id
                elif isinstance(n.func, ast.Attribute):
                    nm = n.func.attr
                    if isinstance(n.func.value, ast.Name) and n.func.value.id == 'self':
                        nm = 'self.' + nm
                if nm in self.cur_callees:
                    out.append((n, nm))
        # innermost first = reverse of BFS order is good enough for nested calls
        return list(reversed(out))

    def exec_stmt(self, s, st):
        # statements that contain loops/bodies handle callee calls in their own sub-expressions
        if isinstance(s, (ast.Assign, ast.AugAssign, ast.AnnAssign, ast.Expr, ast.Return, ast.Assert)):
            scan = s
        elif isinstance(s, ast.If):
            scan = s.test
        elif isinstance(s, ast.While):
            scan = None
        else:
            scan = None
        if scan is not None and self.cur_callees:
            for (call, nm) in self.find_inline_calls(scan):
                if call in st.memo:
                    continue
                results = self.do_callee(call, nm, st)
                out = []
                for (st2, val) in results:
                    if isinstance(val, S.Raise):
                        st2.memo = {}
                        out.append((st2, ('raise', val.exc)))
                        continue
                    st2.memo[call] = val
                    out.extend(self.exec_stmt(s, st2))
                return out
        res = self.exec_stmt_inner(s, st)
        for (st2, _) in res:
            if st2.memo:
                st2.memo = {}
        return res

    def exec_stmt_inner(self, s, st):
        if self.contract.replace and self.cur_fn is self.fn and not isinstance(s, (ast.For, ast.While, ast.With, ast.Try)):
            line = self.cur_fn.srcfile.line(s.lineno)
            for (pat, fn) in self.contract.replace:
                # (a whole `if` statement is replaced only by a pattern that names it: one starting with `if `)
                if isinstance(s, ast.If) and not pat.startswith('if '):
                    continue
                if re.search(pat, line):
                    self.used_checks.add(pat)
                    self.notes.append('statement `%s` replaced by its contract' % line.strip())
                    fn(self, st)
                    return [(st, None)]
        if self.contract.checks and self.cur_fn is self.fn and not isinstance(s, (ast.If, ast.For, ast.While, ast.With, ast.Try)):
            line = self.cur_fn.srcfile.line(s.lineno)
            for (pat, fn) in self.contract.checks:
                if re.search(pat, line):
                    self.used_checks.add(pat)
                    for (lab, f) in S.labelled(fn(self.view(st)), 'chk'):
                        self.oblige(st, 'check', s, f, 'write-time contract at `%s`' % line.strip(), label=lab)
        m = getattr(self, 'x_' + type(s).__name__, None)
        if m is None:
            raise OutOfSubset('statement %s at line %d' % (type(s).__name__, s.lineno))
        res = m(s, st)
        stop = self.contract.options.get('stop_after')
        if stop and self.cur_fn is self.fn and re.search(stop, self.cur_fn.srcfile.line(s.lineno)):
            # the contract only concerns the code up to this statement
            res = [(s2, ('return', VOpaque('rest of the function not modelled')) if o is None else o) for (s2, o) in res]
        return res

    def x_Pass(self, s, st):
        return [(st, None)]

    def x_Global(self, s, st):
        return [(st, None)]

    def x_ImportFrom(self, s, st):
        for a in s.names:
            key = '%s.%s' % (s.module, a.name)
            if key in _MODFUNCS:
                st.env[a.asname or a.name] = VFunc(key, _MODFUNCS[key])
            else:
                st.env[a.asname or a.name] = VOpaque(key)
        return [(st, None)]

    def x_Import(self, s, st):
        return [(st, None)]

    def x_Nonlocal(self, s, st):
        return [(st, None)]

    def x_FunctionDef(self, s, st):
        if self.contract.options.get('inline_nested', False):
            st.env[s.name] = VNested(s)
        else:
            st.env[s.name] = VOpaque('nested function ' + s.name)
        return [(st, None)]

    def x_Try(self, s, st):
        if s.finalbody:
            # try/finally: the final body runs after every outcome of the protected part (normal, return, raise, break, continue);
            # an outcome of the final body itself (return/raise) would replace the pending one -- not modelled
            inner = ast.Try(body=s.body, handlers=s.handlers, orelse=s.orelse, finalbody=[])
            ast.copy_location(inner, s)
            res = []
            for (s2, o2) in (self.x_Try(inner, st) if (s.handlers or s.orelse) else self.exec_block(s.body, st)):
                for (s3, o3) in self.exec_block(s.finalbody, s2):
                    if o3 is not None:
                        raise OutOfSubset('control flow leaving a finally block at line %d' % s.lineno)
                    res.append((s3, o2))
            return res
        out = []
        for (s2, o2) in self.exec_block(s.body, st):
            if isinstance(o2, tuple) and o2[0] == 'raise':
                handled = False
                for h in s.handlers:
                    names = []
                    if h.type is None:
                        names = None
                    else:
                        ts = h.type.elts if isinstance(h.type, ast.Tuple) else [h.type]
                        names = [t.id if isinstance(t, ast.Name) else getattr(t, 'attr', None) for t in ts]
                    if names is None or o2[1] in names or 'Exception' in names or 'BaseException' in names:
                        if h.name:
                            s2.env[h.name] = VOpaque('exception')
                        out.extend(self.exec_block(h.body, s2))
                        handled = True
                        break
                if not handled:
                    out.append((s2, o2))
            elif o2 is None and s.orelse:
                out.extend(self.exec_block(s.orelse, s2))
            else:
                out.append((s2, o2))
        return out

    def x_Break(self, s, st):
        return [(st, 'break')]

    def x_Continue(self, s, st):
        return [(st, 'continue')]

    def x_Expr(self, s, st):
        if isinstance(s.value, ast.Constant):
            return [(st, None)]
        if isinstance(s.value, ast.Call) and isinstance(s.value.func, ast.Name) and s.value.func.id in ('print',):
            return [(st, None)]
        if isinstance(s.value, ast.Yield):
            # generator: the yielded values are collected in the ghost sequence `yielded`
            v = self.ev(s.value.value, st) if s.value.value is not None else None
            c = st.heap[st.env['yielded'].id]
            if isinstance(v, VRowRange):
                z = Pair.mk(to_z3(v.lo), to_z3(v.hi))
            elif is_int(v):
                z = Pair.mk(to_z3(v), to_z3(v))
            else:
                raise OutOfSubset('yield of %r at line %d' % (v, s.lineno))
            c.data = z3.Store(c.data, to_z3(c.length), z)
            c.length = c.length + 1
            self.ghost_hook(s, st)
            return [(st, None)]
        self.ev(s.value, st)
        self.ghost_hook(s, st)
        return [(st, None)]

    def x_Assign(self, s, st):
        v = self.ev(s.value, st)
        for t in s.targets:
            self.assign_target(st, t, v, s)
        self.ghost_hook(s, st)
        return [(st, None)]

    def x_AnnAssign(self, s, st):
        ct = getattr(s, 'ctype', None)
        name = s.target.id
        if ct is not None:
            st.ctypes[(self.cur_fn, name)] = ct
        if s.value is not None:
            v = self.ev(s.value, st)
            self.assign_target(st, s.target, v, s)
        elif ct is not None:
            st.env[name] = self.default_of_ctype(st, ct, name)
        return [(st, None)]

    def default_of_ctype(self, st, ct, name):
        if ct.kind == 'carray':
            if ct.elem.kind in ('int', 'real'):
                r = Ref(name)
                st.heap[r.id] = ArrContent((ct.size,), fresh_arr_data(name, ct.elem.kind, 1), ct.elem.kind,
                                           ct.elem if ct.elem.kind == 'int' else None)
                return r
            r = Ref(name)
            st.heap[r.id] = ListContent([_UNSET] * ct.size)
            return r
        if ct.kind == 'struct':
            fields = self.cur_fn.srcfile.structs.get(ct.name)
            if fields is not None:
                return VStruct(ct.name, {f: _UNSET for f in fields})
        return _UNSET

    def x_AugAssign(self, s, st):
        if isinstance(s.target, ast.Subscript) and isinstance(s.op, (ast.Add, ast.Sub, ast.Mult)):
            ix = self.ev_index(s.target.slice, st)
            ix = ix if isinstance(ix, VTuple) else VTuple((ix,))
            if any(isinstance(i, slice) for i in ix):
                base = self.ev(s.target.value, st)
                c = st.heap.get(base.id) if isinstance(base, Ref) else None
                v = self.ev(s.value, st)
                if isinstance(c, ArrContent) and c.numpy and len(ix) == c.ndim and is_num(v) and not getattr(c, 'readonly', False) and \
                        all(i == slice(None, None, None) for i in ix if isinstance(i, slice)):
                    # a[:, j] += scalar: element-wise on the selected hyperplane
                    c.data = self._axis_update(st, c, ix, s, lambda old: to_z3(self.binop(st, s.op, old, v, s)))
                    self.ghost_hook(s, st)
                    return [(st, None)]
        cur = self.ev(_as_load(s.target), st)
        v = self.ev(s.value, st)
        r = self.binop(st, s.op, cur, v, s)
        self.assign_target(st, s.target, r, s)
        self.ghost_hook(s, st)
        return [(st, None)]

    def x_With(self, s, st):
        for it in s.items:
            if it.optional_vars is not None and isinstance(it.optional_vars, ast.Name):
                st.env[it.optional_vars.id] = VOpaque('context manager')
        return self.exec_block(s.body, st)

    def x_Return(self, s, st):
        v = self.ev(s.value, st) if s.value is not None else None
        return [(st, ('return', v))]

    def x_Assert(self, s, st):
        t = self.truth(st, self.ev(s.test, st), s)
        if self.contract.options.get('assert_mode') != 'assume':
            self.oblige(st, 'safe:assert', s, t, 'assert statement holds')
        self.assume(st, t)
        self.ghost_hook(s, st)
        return [(st, None)]

    def x_Raise(self, s, st):
        name = None
        if s.exc is not None:
            e = s.exc
            if isinstance(e, ast.Call):
                e = e.func
            if isinstance(e, ast.Name):
                name = e.id
            elif isinstance(e, ast.Attribute):
                name = e.attr
        return [(st, ('raise', name or 'Exception'))]

    def x_If(self, s, st):
        t = self.truth(st, self.ev(s.test, st), s)
        if isinstance(t, bool):
            return self.exec_block(s.body if t else s.orelse, st)
        out = []
        st_f = st.fork()
        st.pc.append(t)
        if self.feasible(st):
            out.extend(self.exec_block(s.body, st))
        st_f.pc.append(z3.Not(t))
        if self.feasible(st_f):
            out.extend(self.exec_block(s.orelse, st_f))
        return out

    # ---------------------------------------------------------------- loops
    def loopspec_for(self, s):
        if self.cur_fn is self.fn:
            k = self.loop_ord[id(s)]
            table = self.contract.loops
        else:
            loops = [n for n in ast.walk(self.cur_fn) if isinstance(n, (ast.While, ast.For))]
            loops.sort(key=lambda n: (n.lineno, n.col_offset))
            k = [id(n) for n in loops].index(id(s))
            table = self.cur_loops
        spec = table.get(k)
        if spec is None:
            return None, k
        header = self.cur_fn.srcfile.line(s.lineno).strip()
        if not re.search(spec.match, header):
            raise ContractDrift('loop %d of %s: header %r no longer matches /%s/' % (k, self.cur_fn.name, header, spec.match))
        if self.cur_fn is self.fn:
            self.used_loopspecs.add(k)
        return spec, k

    def assigned_names(self, body):
        names, roots = set(), set()
        for stmt in body:
            for n in ast.walk(stmt):
                tg = []
                if isinstance(n, ast.Assign):
                    tg = n.targets
                elif isinstance(n, (ast.AugAssign, ast.AnnAssign)):
                    tg = [n.target]
                elif isinstance(n, ast.For):
                    tg = [n.target]
                elif isinstance(n, ast.Call):
                    # mutating method call or callee with out-parameters
                    if isinstance(n.func, ast.Attribute) and n.func.attr in _MUTATORS:
                        r = _root_path(n.func.value)
                        if r:
                            roots.add(r)
                    nm = n.func.id if isinstance(n.func, ast.Name) else (n.func.attr if isinstance(n.func, ast.Attribute) else None)
                    cs = self.cur_callees.get(nm) or self.cur_callees.get('self.%s' % nm)
                    if cs is not None:
                        written = self.callee_written_params(cs)
                        for k, a in enumerate(n.args):
                            if written is not None and k not in written:
                                continue
                            if isinstance(a, ast.Call) and isinstance(a.func, ast.Name) and a.func.id == '__addr__':
                                a = a.args[0]
                            r = _root_path(a)
                            if r:
                                roots.add(r)
                for t in tg:
                    for e in ast.walk(t):
                        if isinstance(e, ast.Name) and isinstance(e.ctx, ast.Store):
                            names.add(e.id)
                    stack = [t]
                    while stack:
                        e = stack.pop()
                        if isinstance(e, (ast.Tuple, ast.List)):
                            stack.extend(e.elts)
                        elif isinstance(e, (ast.Subscript, ast.Attribute)):
                            r = _root_path(e.value)
                            if r:
                                roots.add(r)
        for g in self.contract.ghost:
            if len(g) == 3:
                for stmt in body:
                    for n in ast.walk(stmt):
                        if hasattr(n, 'lineno') and isinstance(n, ast.stmt) and re.search(g[0], self.cur_fn.srcfile.line(n.lineno)):
                            names.update(g[1])
        return names, roots

    def appended_roots(self, body):
        out = set()
        for stmt in body:
            for n in ast.walk(stmt):
                if isinstance(n, ast.Call) and isinstance(n.func, ast.Attribute) and n.func.attr == 'append':
                    r = _root_path(n.func.value)
                    if r:
                        out.add(r)
        return out

    def callee_written_params(self, cs):
        """positions of the callee's parameters it may write through (None = unknown: all)"""
        try:
            if isinstance(cs, S.Contract):
                fn = load(cs.file, self.src.repo).find(cs.func)
                names = [a.arg for a in fn.args.args]
                if names and names[0] == 'self':
                    names = names[1:]
                return {k for k, nme in enumerate(names) if nme in cs.modifies}
            if isinstance(cs, S.Inline):
                fn = load(cs.file, self.src.repo).find(cs.func)
                names = [a.arg for a in fn.args.args]
                if names and names[0] == 'self':
                    names = names[1:]
                saved = self.cur_callees
                self.cur_callees = cs.callees
                try:
                    _, roots = self.assigned_names(fn.body)
                finally:
                    self.cur_callees = saved
                wr = {r[0] for r in roots}
                return {k for k, nme in enumerate(names) if nme in wr}
            if callable(cs) and hasattr(cs, 'writes'):
                # python spec callables may declare the positions of the arguments they write through
                return set(cs.writes)
        except KeyError:
            return None
        return None

    def resolve_root(self, st, path):
        v = st.env.get(path[0], None)
        for a in path[1:]:
            if isinstance(v, Ref) and isinstance(st.heap[v.id], ObjContent):
                v = st.heap[v.id].attrs.get(a)
            elif isinstance(v, VStruct):
                return ('struct', path[0])
            else:
                return None
        return v

    def havoc_value(self, st, v, name):
        """fresh value of the same shape/sort"""
        if v is _UNSET or v is None:
            return v
        if is_z3(v) and v.sort().kind() == z3.Z3_ARRAY_SORT:
            return z3.Const(fresh_name(name), v.sort())
        if isinstance(v, bool) or (is_z3(v) and z3.is_bool(v)):
            return z3.Bool(fresh_name(name))
        if is_int(v):
            nv = z3.Int(fresh_name(name))
            return nv
        if is_real(v):
            return z3.Real(fresh_name(name))
        if is_vec(v):
            return fresh_vec(name)
        if isinstance(v, VSetVal):
            return VSetVal(z3.Const(fresh_name(name), v.arr.sort()), v.elem_sort)
        if isinstance(v, (VSetView, VMapView, VNested)):
            return v
        if isinstance(v, VArrView):
            # the view variable is re-bound every iteration before use; its prefix is unknown at the loop head
            return _UNSET
        if isinstance(v, VFunc):
            return v
        if isinstance(v, VTuple):
            return VTuple(self.havoc_value(st, x, name) for x in v)
        if isinstance(v, VStruct):
            return VStruct(v.name, {a: self.havoc_value(st, x, name + '.' + a) for a, x in v.fields.items()})
        if isinstance(v, (Ref, VPtr)):
            return v    # identity handled by the caller
        if isinstance(v, (str, VOpaque)):
            return v
        raise OutOfSubset('cannot havoc %r' % (v,))

    def havoc_content(self, st, ref):
        c = st.heap[ref.id]
        if isinstance(c, ArrContent):
            c.data = z3.Const(fresh_name(ref.label), c.data.sort())
            if c.elem_ctype is not None and c.elem_ctype.kind == 'int':
                lo, hi = c.elem_ctype.int_range()
                idx = [z3.Int(fresh_name('q')) for _ in range(c.ndim)]
                e = arr_select(c.data, idx)
                st.pc.append(z3.ForAll(idx, z3.And(e >= lo, e <= hi)))
        elif isinstance(c, ListContent):
            c.items = [self.havoc_value(st, x, ref.label) for x in c.items]
        elif isinstance(c, SeqContent):
            c.data = z3.Const(fresh_name(ref.label), c.data.sort())
            c.length = z3.Int(fresh_name(ref.label + '.len'))
            st.pc.append(c.length >= 0)
        elif isinstance(c, SetContent):
            c.data = z3.Const(fresh_name(ref.label), c.data.sort())
        elif isinstance(c, DictContent):
            c.keys = z3.Const(fresh_name(ref.label + '.keys'), c.keys.sort())
            c.vals = z3.Const(fresh_name(ref.label + '.vals'), c.vals.sort())
        elif isinstance(c, ObjContent):
            pass
        elif isinstance(c, SetListContent):
            c.data = z3.Const(fresh_name(ref.label), c.data.sort())
            c.length = z3.Int(fresh_name(ref.label + '.len'))
            st.pc.append(c.length >= 0)
        elif isinstance(c, MapListContent):
            c.has = z3.Const(fresh_name(ref.label + '.has'), c.has.sort())
            c.val = z3.Const(fresh_name(ref.label + '.val'), c.val.sort())
        elif isinstance(c, CDictContent):
            # a concrete-key dict that may be written by a loop body / callee: its content becomes unknown (any later lookup is out of subset)
            c.items = {}
            c.unknown = True
        else:
            raise OutOfSubset('cannot havoc content %r' % c)

    def range_of_for(self, s, st):
        """(lo, hi, step) if the for loop iterates a range (possibly reversed), else None"""
        it = s.iter
        rev = False
        wrappers = self.contract.options.get('identity_wrappers', ())
        if isinstance(it, ast.Call) and isinstance(it.func, ast.Name) and it.func.id in wrappers and len(it.args) == 1:
            it = it.args[0]
        if isinstance(it, ast.Call) and isinstance(it.func, ast.Name) and it.func.id == 'reversed' and len(it.args) == 1:
            it = it.args[0]
            rev = True
        if isinstance(it, ast.Call) and isinstance(it.func, ast.Name) and it.func.id in ('range', 'prange', 'xrange'):
            args = [self.ev(a, st) for a in it.args]
            if len(args) == 1:
                lo, hi, step = 0, args[0], 1
            elif len(args) == 2:
                lo, hi, step = args[0], args[1], 1
            else:
                lo, hi, step = args
            if not isinstance(step, int):
                # symbolic step: must be positive (range() raises ValueError for 0; negative steps are not modelled)
                self.oblige(st, 'safe:range-step', s, to_z3(step) >= 1, 'range step is at least 1 (ValueError for 0)')
                return lo, hi, step
            if step == 0:
                raise OutOfSubset('range with step 0 at line %d' % s.lineno)
            if rev:
                if step != 1:
                    raise OutOfSubset('reversed range with step')
                lo, hi, step = self.binop(st, ast.Sub(), hi, 1, s), self.binop(st, ast.Sub(), lo, 1, s), -1
            return lo, hi, step
        return None

    def x_For(self, s, st):
        spec, k = self.loopspec_for(s)
        rng = self.range_of_for(s, st)
        if rng is not None:
            lo, hi, step = rng
            if spec is None or spec.unroll:
                if all(isinstance(x, int) for x in (lo, hi)):
                    return self.unroll(s, st, [v for v in range(lo, hi, step)])
                raise OutOfSubset('loop %d (line %d): symbolic range and no loop contract' % (k, s.lineno))
            return self.loop_with_inv(s, st, spec, k, rng=(lo, hi, step))
        if spec is not None and not spec.unroll:
            it = s.iter
            # zip(A, B, ...) / a single 1-d array with a loop contract: counter loop over the common length
            if isinstance(it, ast.Call) and isinstance(it.func, ast.Name) and it.func.id == 'zip':
                arrs = [self.ev(a, st) for a in it.args]
                tuple_target = True
            else:
                v = self.ev(it, st)
                sv = self.as_set(st, v, s)
                if sv is not None:
                    return self.loop_over_set(s, st, spec, k, sv)
                arrs = [v]
                tuple_target = False
            conts = []
            for a in arrs:
                if not (isinstance(a, Ref) and isinstance(st.heap[a.id], (ArrContent, SeqContent))):
                    raise OutOfSubset('loop %d (line %d): iteration over %r under a loop contract' % (k, s.lineno, a))
                conts.append(a)
            lens = [self._seq_len(st, a) for a in conts]
            n = lens[0]
            for m in lens[1:]:
                n = z3.If(to_z3(m) < to_z3(n), to_z3(m), to_z3(n))

            def bind(state, cval):
                vals = [self._seq_get(state, a, cval) for a in conts]
                self.assign_target(state, s.target, VTuple(vals) if tuple_target else vals[0], s)
            return self.loop_with_inv(s, st, spec, k, rng=(0, n, 1), ctr_name='_it%d' % k, bind_fn=bind)
        # iteration over a concrete-length iterable
        itv = self.ev(s.iter, st)
        vals = self.iter_values(st, itv, s)
        return self.unroll(s, st, vals)

    def _seq_len(self, st, ref):
        c = st.heap[ref.id]
        return c.shape[0] if isinstance(c, ArrContent) else c.length

    def _seq_get(self, st, ref, i):
        c = st.heap[ref.id]
        if isinstance(c, ArrContent):
            if c.ndim != 1:
                raise OutOfSubset('iteration over an n-d array')
            return z3.Select(c.data, to_z3(i))
        return z3.Select(c.data, to_z3(i))

    def loop_over_set(self, s, st, spec, k, sv):
        """for x in S with a loop contract: ghost set `_visited<k>` of the elements already iterated; one arbitrary
        unvisited element per iteration; exits when every element was visited"""
        arr0, es = sv
        tag = 'loop%d' % k
        vis = '_visited%d' % k
        names, roots = self.assigned_names(s.body)
        names.add(vis)
        st.env[vis] = VSetVal(z3.EmptySet(es), es)
        v0 = self.view(st)
        for (lab, f) in S.labelled(spec.inv(v0) if spec.inv else [], 'inv'):
            self.oblige(st, 'inv-init', s, f, 'loop invariant holds on entry', label='%s:%s' % (tag, lab))
        head = st.fork()
        for r in sorted(roots):
            v = self.resolve_root(head, r)
            if isinstance(v, Ref):
                self.havoc_content(head, v)
            elif isinstance(v, (VSetView, VMapView)):
                self.havoc_content(head, v.ref)
        for n in sorted(names):
            if n in head.env:
                head.env[n] = self.havoc_value(head, head.env[n], n)
        # the iterated set itself must not change while iterating
        vh = self.view(head)
        for (lab, f) in S.labelled(spec.inv(vh) if spec.inv else [], 'inv'):
            self.assume(head, f)
        visited = head.env[vis].arr
        self.assume(head, z3.IsSubset(visited, arr0))
        results = []
        # body
        hb = head.fork()
        e = z3.Const(fresh_name('elem'), es)
        self.assume(hb, z3.And(z3.IsMember(e, arr0), z3.Not(z3.IsMember(e, visited))))
        if es == Pair:
            val = VTuple((Pair.p(e), Pair.i(e)))
        elif isinstance(es, z3.DatatypeSortRef) and es.num_constructors() == 1:
            from .values import tuple_components
            val = VTuple(tuple_components(e))       # a set of integer tuples: the loop variable is the tuple of components
        else:
            val = e
        self.assign_target(hb, s.target, val, s)
        hb.env['_elem%d' % k] = e
        for (b2, out) in self.exec_block(s.body, hb):
            if out in (None, 'continue'):
                cur = self.as_set(b2, self.ev(s.iter, b2), s)
                self.oblige(b2, 'safe:set-changed-during-iteration', s, cur[0] == arr0, 'the iterated set is not modified by the loop body', label=tag)
                b2.env[vis] = VSetVal(z3.SetAdd(visited, e), es)
                vb = self.view(b2)
                for (lab, f) in S.labelled(spec.inv(vb) if spec.inv else [], 'inv'):
                    self.oblige(b2, 'inv-preserve', s, f, 'loop invariant preserved by the body', label='%s:%s' % (tag, lab))
            elif out == 'break':
                results.append((b2, None))
            else:
                results.append((b2, out))
        # exit
        he = head
        self.assume(he, z3.IsSubset(arr0, visited))
        results.append((he, None))
        return results

    def unroll(self, s, st, vals):
        states = [(st, None)]
        for v in vals:
            nxt = []
            for (cur, out) in states:
                if out is not None:
                    nxt.append((cur, out))
                    continue
                self.assign_target(cur, s.target, v, s)
                for (c2, o2) in self.exec_block(s.body, cur):
                    if o2 == 'continue':
                        o2 = None
                    if o2 == 'break':
                        o2 = 'broken'
                    nxt.append((c2, o2))
            states = nxt
            if len(states) > self.max_paths:
                raise OutOfSubset('path explosion in unrolled loop at line %d' % s.lineno)
        res = []
        for (cur, out) in states:
            if out == 'broken':
                res.append((cur, None))
            elif out is None and s.orelse:
                res.extend(self.exec_block(s.orelse, cur))
            else:
                res.append((cur, out))
        return res

    def x_While(self, s, st):
        spec, k = self.loopspec_for(s)
        if spec is None:
            raise OutOfSubset('while loop %d (line %d) has no loop contract' % (k, s.lineno))
        return self.loop_with_inv(s, st, spec, k, rng=None)

    def loop_with_inv(self, s, st, spec, k, rng, ctr_name=None, bind_fn=None):
        tag = 'loop%d' % k
        body = s.body
        names, roots = self.assigned_names(body)
        if any(isinstance(n, ast.Yield) for stmt in body for n in ast.walk(stmt)):
            roots = set(roots) | {('yielded',)}
        if bind_fn is not None:
            for e in ast.walk(s.target):
                if isinstance(e, ast.Name):
                    names.add(e.id)
        names.update(getattr(spec, 'ghost_names', ()))
        ctr = None
        if rng is not None:
            lo, hi, step = rng
            ctr = ctr_name or (s.target.id if isinstance(s.target, ast.Name) else None)
            if ctr is None:
                raise OutOfSubset('for loop with non-name target under a loop contract')
            names.add(ctr)
            st.env[ctr] = lo
            if (self.cur_fn, ctr) in st.ctypes:
                pass
        for r in sorted(self.appended_roots(body)):
            v = self.resolve_root(st, r)
            if isinstance(v, Ref):
                self.list_to_seq(st, v, s)
        # ---- init
        v0 = self.view(st)
        for (lab, f) in S.labelled(spec.inv(v0) if spec.inv else [], 'inv'):
            self.oblige(st, 'inv-init', s, f, 'loop invariant holds on entry', label='%s:%s' % (tag, lab))
        # ---- havoc
        head = st.fork()
        refs_to_havoc = []
        ptr_names = []
        for r in sorted(roots):
            v = self.resolve_root(head, r)
            if isinstance(v, tuple) and v[0] == 'struct':
                names.add(v[1])
            elif isinstance(v, Ref):
                refs_to_havoc.append(v)
            elif isinstance(v, VPtr):
                refs_to_havoc.append(v.ref)
            elif isinstance(v, (VSetView, VMapView, VArrView)):
                refs_to_havoc.append(v.ref)
        for n in sorted(names):
            if n in head.env and isinstance(head.env[n], (Ref, VPtr)):
                ptr_names.append(n)
        cand = []
        for n in ptr_names:
            v = head.env[n]
            r = v if isinstance(v, Ref) else v.ref
            if r not in cand:
                cand.append(r)
        if ptr_names:
            for r in cand:
                if r not in refs_to_havoc:
                    refs_to_havoc.append(r)
        seen = set()
        for r in refs_to_havoc:
            if r.id not in seen:
                seen.add(r.id)
                self.havoc_content(head, r)
        for n in sorted(names):
            if n in head.env and n not in ptr_names:
                head.env[n] = self.havoc_value(head, head.env[n], n)
                self.ctype_assume(head, head.env[n], head.ctypes.get((self.cur_fn, n)))
        # enumerate pointer bindings
        import itertools as _it
        bindings = [{}]
        if ptr_names:
            bindings = []
            # a pointer variable assigned in the loop body may point anywhere into any candidate array at the loop head:
            # both the target and the offset are havocked (the invariant has to pin them down)
            # ... but only for pointers the body advances by arithmetic (p += k, p = p + k); pointers that are merely re-seated
            # (a1, a2 = a2, a1; p = &a[i, 0]) keep the offsets they can take from those assignments
            walked = set()
            for stmt in body:
                for n_ in ast.walk(stmt):
                    if isinstance(n_, ast.AugAssign) and isinstance(n_.target, ast.Name):
                        walked.add(n_.target.id)
                    if isinstance(n_, ast.Assign) and isinstance(n_.value, ast.BinOp):
                        for t_ in n_.targets:
                            if isinstance(t_, ast.Name):
                                walked.add(t_.id)
            ofs = {n: (z3.Int(fresh_name(n + '.ofs')) if n in walked else head.env[n].offset) for n in ptr_names if isinstance(head.env[n], VPtr)}
            for combo in _it.product(cand, repeat=len(ptr_names)):
                bindings.append({n: (VPtr(r, ofs[n]) if isinstance(head.env[n], VPtr) else r)
                                 for n, r in zip(ptr_names, combo)})
        results = []
        for bind in bindings:
            h = head.fork() if len(bindings) > 1 else head
            h.env.update(bind)
            if rng is not None:
                c = h.env[ctr]
                symstep = not isinstance(step, int)
                if symstep:
                    # symbolic positive step: only lo <= c is assumed (the counter may overshoot hi by less than the step)
                    self.assume(h, to_z3(lo) <= c)
                elif step > 0:
                    self.assume(h, z3.And(to_z3(lo) <= c, z3.Or(c <= to_z3(hi), c == to_z3(lo))))
                else:
                    self.assume(h, z3.And(to_z3(lo) >= c, z3.Or(c >= to_z3(hi), c == to_z3(lo))))
                if not symstep and abs(step) != 1:
                    self.assume(h, (c - to_z3(lo)) % abs(step) == 0)
            vh = self.view(h)
            invs = S.labelled(spec.inv(vh) if spec.inv else [], 'inv')
            dead = False
            for (lab, f) in invs:
                if z3.is_false(f):
                    dead = True
                self.assume(h, f)
            if dead:
                continue
            dec0 = spec.dec(vh) if spec.dec else None
            # ---- condition
            if rng is not None:
                c = h.env[ctr]
                cond = (c < to_z3(hi)) if (symstep or step > 0) else (c > to_z3(hi))
            else:
                cond = None
            # body path
            hb = h.fork()
            if rng is None:
                t = self.truth(hb, self.ev(s.test, hb), s)
            else:
                t = cond
            he = h
            if isinstance(t, bool):
                tb, te = t, not t
            else:
                tb, te = t, z3.Not(t)
            self.assume(hb, tb)
            self.assume(he, te)
            if not (isinstance(tb, bool) and not tb) and self.feasible(hb):
                ctr0 = hb.env[ctr] if rng is not None else None
                if bind_fn is not None:
                    bind_fn(hb, ctr0)
                if spec.enter is not None:
                    for gname, gval in spec.enter(self.view(hb)).items():
                        hb.env[gname] = gval
                for (b2, out) in self.exec_block(body, hb):
                    if out in (None, 'continue') and spec.step is not None:
                        for gname, gval in spec.step(self.view(b2)).items():
                            b2.env[gname] = gval
                    if out in (None, 'continue'):
                        if rng is not None:
                            b2.env[ctr] = self.binop(b2, ast.Add(), ctr0, step, s)
                        vb = self.view(b2)
                        for (lab, f) in S.labelled(spec.inv(vb) if spec.inv else [], 'inv'):
                            self.oblige(b2, 'inv-preserve', s, f, 'loop invariant preserved by the body', label='%s:%s' % (tag, lab))
                        if spec.dec is not None:
                            d1 = spec.dec(vb)
                            self.oblige(b2, 'decreases', s, z3.And(to_z3(d1) >= 0, to_z3(d1) < to_z3(dec0)) if True else None,
                                        'variant decreases and stays non-negative', label=tag)
                    elif out == 'break':
                        results.append((b2, None))
                    else:
                        results.append((b2, out))
            if not (isinstance(te, bool) and not te):
                if rng is not None:
                    # at exit the counter equals hi when the loop ran; python leaves the loop variable at
                    # its last value -- modelled as `hi - step` when the range is non-empty
                    c = he.env[ctr]
                    nonempty = (to_z3(lo) < to_z3(hi)) if (symstep or step > 0) else (to_z3(lo) > to_z3(hi))
                    if symstep:
                        he.env[ctr] = z3.Int(fresh_name(ctr + '_after'))    # value of the loop variable after the loop: not modelled
                    elif abs(step) == 1:
                        self.assume(he, z3.Implies(nonempty, c == to_z3(hi)))
                        self.assume(he, z3.Implies(z3.Not(nonempty), c == to_z3(lo)))
                    he.env['__loopend_' + ctr] = c
                if s.orelse:
                    results.extend(self.exec_block(s.orelse, he))
                else:
                    results.append((he, None))
        return results

    def ghost_hook(self, s, st):
        for g in self.contract.ghost:
            pat, upd = g[0], g[-1]
            line = self.cur_fn.srcfile.line(s.lineno)
            if re.search(pat, line):
                for name, val in upd(self.view(st)).items():
                    st.env[name] = val

    # ---------------------------------------------------------------- callees
    def do_callee(self, call, nm, st):
        """returns list of (state, value)"""
        spec = self.cur_callees[nm]
        args = [self.ev(a, st) for a in call.args]
        kwargs = {k.arg: self.ev(k.value, st) for k in call.keywords}
        if isinstance(spec, S.Inline):
            return self.inline_call(spec, call, args, kwargs, st)
        if isinstance(spec, S.Contract):
            return self.contract_call(spec, call, args, kwargs, st)
        if callable(spec):
            r = spec(self, st, call, *args, **kwargs)
            if isinstance(r, S.Outcomes):
                res = []
                for k, alt in enumerate(r.alts):
                    s2 = st.fork() if k < len(r.alts) - 1 else st
                    if isinstance(alt, tuple) and len(alt) == 2 and not isinstance(alt, VTuple):
                        self.assume(s2, alt[0])
                        alt = alt[1]
                    res.append((s2, alt))
                return res
            return [(st, r)]
        raise OutOfSubset('callee spec for %s' % nm)

    def bind_args(self, fn, args, kwargs, st, node):
        a = fn.args
        names = [x.arg for x in a.args]
        if names and names[0] == 'self' and len(args) < len(names) and 'self' not in kwargs:
            # method call: bind self to the receiver (self.m(...) -> the caller's self, obj.m(...) -> obj)
            recv = st.env.get('self')
            f = getattr(node, 'func', None)
            if isinstance(f, ast.Attribute) and not (isinstance(f.value, ast.Name) and f.value.id == 'self'):
                try:
                    r = self.ev(f.value, st)
                    if isinstance(r, Ref):
                        recv = r
                except OutOfSubset:
                    pass
            args = [recv] + list(args)
        env = {}
        defaults = a.defaults
        nd = len(defaults)
        for k, nme in enumerate(names):
            if k < len(args):
                env[nme] = args[k]
            elif nme in kwargs:
                env[nme] = kwargs[nme]
            else:
                di = k - (len(names) - nd)
                if di >= 0:
                    env[nme] = self.ev(defaults[di], st)
                else:
                    raise OutOfSubset('missing argument %s at line %d' % (nme, node.lineno))
        return env

    def inline_call(self, spec, call, args, kwargs, st):
        if len(self.inline_stack) > 4:
            raise OutOfSubset('inline depth')
        fn = load(spec.file, self.src.repo).find(spec.func)
        env = self.bind_args(fn, args, kwargs, st, call)
        saved = (self.cur_fn, self.cur_directives, self.cur_loops, self.cur_callees, st.env)
        sub = st
        caller_env = st.env
        sub.env = {}
        for nme, v in env.items():
            ct = fn.ctypes.get(nme)
            if ct is not None:
                sub.ctypes[(fn, nme)] = ct
                v = self.coerce_store_arg(sub, v, ct, call, nme)
            sub.env[nme] = v
        self.cur_fn, self.cur_directives, self.cur_loops, self.cur_callees = fn, dict(fn.directives), spec.loops, spec.callees
        self.inline_stack.append(fn.name)
        try:
            outs = self.exec_block(fn.body, sub)
        finally:
            self.inline_stack.pop()
            self.cur_fn, self.cur_directives, self.cur_loops, self.cur_callees = saved[:4]
        res = []
        for (s2, out) in outs:
            s2.env = dict(caller_env) if len(outs) > 1 else caller_env
            if out is None:
                res.append((s2, None))
            elif isinstance(out, tuple) and out[0] == 'return':
                v = out[1]
                if fn.ret_ctype is not None:
                    v = self.coerce_store(s2, v, fn.ret_ctype, call, 'return value of %s' % fn.name)
                res.append((s2, v))
            else:
                raise OutOfSubset('inlined callee %s ends with %r' % (fn.name, out))
        return res

    def coerce_store_arg(self, st, v, ct, node, name):
        if ct.kind == 'carray' and isinstance(v, VPtr):
            return v
        if ct.kind in ('ptr',) and isinstance(v, Ref):
            return VPtr(v, 0)
        if ct.kind == 'struct' and isinstance(v, VStruct):
            return v.copy()
        return self.coerce_store(st, v, ct, node, 'argument %s' % name)

    def contract_call(self, spec, call, args, kwargs, st):
        fn = load(spec.file, self.src.repo).find(spec.func)
        env = self.bind_args(fn, args, kwargs, st, call)
        tmp = State()
        tmp.env, tmp.heap, tmp.pc, tmp.ctypes = env, st.heap, st.pc, st.ctypes
        pre_view = View(self, tmp)
        req = spec.call_requires or spec.requires
        for (lab, f) in S.labelled(req(pre_view) if req else [], 'pre'):
            self.oblige(st, 'pre', call, f, 'precondition of %s' % spec.func, label='%s:%s:L+%d' % (spec.func, lab, self.rel(call)))
        # snapshot old
        old = State()
        old.env, old.pc, old.ctypes = dict(env), st.pc, st.ctypes
        old.heap = {k: v.copy() for k, v in st.heap.items()}
        for nme in spec.modifies:
            path = nme.split('.')
            v = env.get(path[0])
            for a_ in path[1:]:
                # `self.attr`: the object stored in that attribute of the receiver
                v = st.heap[v.id].attrs.get(a_) if isinstance(v, Ref) and isinstance(st.heap[v.id], ObjContent) else None
            r = v.ref if isinstance(v, VPtr) else v
            if isinstance(r, Ref):
                self.havoc_content(st, r)
        result = spec.result.make(self, st, spec.func + '.result') if spec.result is not None else None
        post_view = View(self, tmp, old=View(self, old), extra={'result': self.spec_value(st, result)})
        for (lab, f) in S.labelled(spec.ensures(post_view) if spec.ensures else [], 'post'):
            self.assume(st, f)
        return [(st, result)]

    # ---------------------------------------------------------------- driver
    def make_params(self, st):
        fn, c = self.fn, self.contract
        for a in fn.args.args:
            name = a.arg
            sort = self.instance.get(name, c.params.get(name))
            if sort is None:
                ct = fn.ctypes.get(name)
                sort = sort_from_ctype(ct)
                if sort is None:
                    raise OutOfSubset('no sort for parameter %s of %s' % (name, fn.name))
            if not isinstance(sort, S.Sort):
                sort = S.Const(sort)
            st.env[name] = sort.make(self, st, name)
            ct = fn.ctypes.get(name)
            if ct is not None:
                st.ctypes[(fn, name)] = ct
                if ct.kind == 'int' and is_z3(st.env[name]):
                    self.ctype_assume(st, st.env[name], ct)
        argnames = {a.arg for a in fn.args.args} | {a.arg for a in fn.args.kwonlyargs}
        for a in fn.args.kwonlyargs:
            sort = self.instance.get(a.arg, c.params.get(a.arg))
            if sort is None:
                raise OutOfSubset('no sort for keyword-only parameter %s' % a.arg)
            if not isinstance(sort, S.Sort):
                sort = S.Const(sort)
            st.env[a.arg] = sort.make(self, st, a.arg)
        for name, sort in c.params.items():
            # closure variables of nested functions are given as extra parameters
            if name not in argnames:
                sort = self.instance.get(name, sort)
                if not isinstance(sort, S.Sort):
                    sort = S.Const(sort)
                st.env[name] = sort.make(self, st, name)

    def run(self, init=None):
        st = State()
        if init is not None:
            init(self, st)
            for a in self.fn.args.args:
                ct = self.fn.ctypes.get(a.arg)
                if ct is not None:
                    st.ctypes[(self.fn, a.arg)] = ct
        else:
            self.make_params(st)
        if any(isinstance(n, (ast.Yield, ast.YieldFrom)) for stmt in self.fn.body for n in ast.walk(stmt)):
            # generator function: ghost sequence of the yielded values (as pairs; a slice a[lo:hi] is the pair of its clipped bounds)
            r = Ref('yielded')
            st.heap[r.id] = SeqContent(z3.IntVal(0), z3.K(z3.IntSort(), Pair.mk(0, 0)), 'seq')
            st.env['yielded'] = r
        v = View(self, st)
        req = S.labelled(self.contract.requires(v) if self.contract.requires else [], 'req')
        for (lab, f) in req:
            self.assume(st, f)
        self.requires_pc = list(st.pc)
        self.initial = st.fork()
        self.params0 = dict(st.env)
        outs = self.exec_block(self.fn.body, st)
        for (s2, out) in outs:
            self.npaths += 1
            if out is None or (isinstance(out, tuple) and out[0] == 'return'):
                rv = out[1] if out else None
                if self.fn.ret_ctype is not None and rv is not None:
                    rv = self.coerce_store(s2, rv, self.fn.ret_ctype, self.fn, 'return value')
                self.return_pcs.append(list(s2.pc))
                self.returns.append((s2, rv))
                fv = self.view(s2, extra={'result': self.spec_value(s2, rv)})
                if self.contract.ensures:
                    node = _Line(self.fn.lineno)
                    try:
                        posts = S.labelled(self.contract.ensures(fv), 'post')
                    except (TypeError, AttributeError) as e:
                        if rv is not None:
                            raise
                        # the postcondition talks about a result this path does not return (`return None` / falling off the end): the
                        # path must be infeasible under the precondition -- an obligation for the full solvers, not for the quick path
                        # pruning (whose small time budget can lapse on a busy machine)
                        posts = [('returns-a-value', z3.BoolVal(False))]
                    for (lab, f) in posts:
                        self.oblige(s2, 'post', node, f, 'postcondition', label=lab)
                # frame: array parameters not listed in `modifies` are unchanged
                for name, v0 in self.params0.items():
                    if isinstance(v0, Ref) and name not in self.contract.modifies and v0.id in s2.heap:
                        c0, c1 = self.initial.heap[v0.id], s2.heap[v0.id]
                        if isinstance(c0, ArrContent) and not c0.data.eq(c1.data):
                            self.oblige(s2, 'frame', _Line(self.fn.lineno), c0.data == c1.data,
                                        'parameter %s is not modified' % name, label=name)
            elif isinstance(out, tuple) and out[0] == 'raise':
                exc = out[1]
                allowed = self.contract.raises.get(exc)
                node = _Line(self.fn.lineno)
                if allowed is None:
                    self.oblige(s2, 'safe:raise', node, False, 'raise %s is unreachable under the precondition' % exc, label=exc)
                else:
                    self.oblige(s2, 'raises', node, S.conj(allowed(self.view(s2))), 'raise %s only when allowed' % exc, label=exc)
            else:
                raise OutOfSubset('function ends with %r' % (out,))
        # parts of the contract that bound to nothing: the obligations generated from the code that WAS executed are still returned
        # (a refutation among them stands); the job is reported as drift (undecided) only if none of them is refuted
        self.drift = None
        for (pat, _) in list(self.contract.checks) + list(self.contract.replace):
            if pat not in self.used_checks:
                self.drift = 'write-time contract /%s/ of %s binds to no statement' % (pat, self.fn.name)
        unused = set(self.contract.loops) - self.used_loopspecs
        if unused:
            self.drift = 'loop contracts %s of %s bind to no loop' % (sorted(unused), self.fn.name)
        return self.obligations

    def concretize(self, st, val, model):
        def ev(x):
            if is_z3(x):
                r = model.eval(x, model_completion=True)
                if z3.is_int_value(r):
                    return r.as_long()
                if z3.is_rational_value(r):
                    f = Fraction(r.numerator_as_long(), r.denominator_as_long())
                    return float(f)
                if z3.is_true(r):
                    return True
                if z3.is_false(r):
                    return False
                if z3.is_algebraic_value(r):
                    return float(r.approx(20).as_fraction())
                return str(r)
            if isinstance(x, Fraction):
                return float(x)
            return x
        if isinstance(val, Ref):
            c = st.heap[val.id]
            if isinstance(c, ArrContent):
                shape = [ev(s_) for s_ in c.shape]
                if any(not isinstance(s_, int) or s_ > 64 for s_ in shape):
                    return {'array_shape': shape, 'too_large': True}

                def rec(prefix, k):
                    if k == len(shape):
                        return ev(arr_select(c.data, prefix))
                    return [rec(prefix + [i], k + 1) for i in range(shape[k])]
                return rec([], 0)
            if isinstance(c, ListContent):
                return [self.concretize(st, x, model) for x in c.items]
            if isinstance(c, SeqContent):
                n = ev(c.length)
                if not isinstance(n, int) or n > 64 or n < 0:
                    return {'seq_length': n, 'too_large': True}
                return [ev(z3.Select(c.data, i)) for i in range(n)]
            if isinstance(c, ObjContent):
                return {a: self.concretize(st, x, model) for a, x in c.attrs.items()}
            return repr(c)
        if isinstance(val, VTuple):
            return [self.concretize(st, x, model) for x in val]
        if isinstance(val, VStruct):
            return {a: self.concretize(st, x, model) for a, x in val.fields.items()}
        if isinstance(val, VPtr):
            return {'ptr_into': self.concretize(st, val.ref, model), 'offset': ev(val.offset)}
        r = ev(val)
        if r is None or isinstance(r, (int, float, str, bool)):
            return r
        return repr(r)


class ContractDrift(Exception):
    """the code under a contract changed so that the contract no longer binds (loop header/ordinal)"""
    pass


class _Line:
    def __init__(self, lineno):
        self.lineno = lineno


class _Inf:
    def __repr__(self):
        return '<inf>'


INF = _Inf()


class _Unset:
    def __repr__(self):
        return '<unset>'


_UNSET = _Unset()


def _as_load(t):
    import copy
    t2 = copy.copy(t)
    t2.ctx = ast.Load()
    return t2


def _root_path(e):
    """('x',) for x[...]; ('self','attr') for self.attr[...] etc."""
    path = []
    while True:
        if isinstance(e, ast.Subscript):
            e = e.value
        elif isinstance(e, ast.Attribute):
            path.append(e.attr)
            e = e.value
        elif isinstance(e, ast.Call) and isinstance(e.func, ast.Name) and e.func.id == '__addr__':
            e = e.args[0]
        elif isinstance(e, ast.Name):
            path.append(e.id)
            return tuple(reversed(path))
        else:
            return None


def sort_from_ctype(ct):
    if ct is None:
        return None
    if ct.kind == 'int':
        return S.CInt(ct.bits, ct.signed)
    if ct.kind == 'real':
        return S.Real()
    if ct.kind == 'bint':
        return S.Bool()
    if ct.kind == 'memview' and ct.elem.kind in ('int', 'real'):
        er = ct.elem.int_range() if ct.elem.kind == 'int' else None
        return S.Arr(ct.elem.kind, ct.ndim, elem_range=er, elem_ctype=ct.elem if ct.elem.kind == 'int' else None)
    if ct.kind == 'carray' and ct.elem.kind in ('int', 'real'):
        er = ct.elem.int_range() if ct.elem.kind == 'int' else None
        return S.Arr(ct.elem.kind, 1, shape=(ct.size,), elem_range=er, elem_ctype=ct.elem if ct.elem.kind == 'int' else None)
    return None


# ------------------------------------------------------------------------------------------------
# builtins and library models (assumed contracts; listed in evidence)

def _b_len(ex, st, node, x):
    if isinstance(x, VTuple):
        return len(x)
    if isinstance(x, Ref):
        c = st.heap[x.id]
        if isinstance(c, ListContent):
            return len(c.items)
        if isinstance(c, ArrContent):
            return c.shape[0]
        if isinstance(c, SeqContent):
            return c.length
        if isinstance(c, (SetListContent, MapListContent)):
            return c.length
    if is_vec(x):
        n = vlen_fn(x)
        st.pc.append(n >= 0)
        return n
    if isinstance(x, VOpaque):
        n = z3.Int(fresh_name('len'))
        st.pc.append(n >= 0)
        return n
    raise OutOfSubset('len of %r at line %d' % (x, node.lineno))


def _b_range(ex, st, node, *a):
    if len(a) == 1:
        return VRange(0, a[0], 1)
    if len(a) == 2:
        return VRange(a[0], a[1], 1)
    return VRange(*a)


def _b_reversed(ex, st, node, x):
    if isinstance(x, VRange) and x.step == 1:
        return VRange(ex.binop(st, ast.Sub(), x.hi, 1, node), ex.binop(st, ast.Sub(), x.lo, 1, node), -1)
    return VTuple(reversed(ex.iter_values(st, x, node)))


def _minmax(is_min):
    def f(ex, st, node, *a):
        if len(a) == 1:
            a = ex.iter_values(st, a[0], node)
        r = a[0]
        for x in a[1:]:
            if is_concrete(r) and is_concrete(x):
                r = min(r, x) if is_min else max(r, x)
            else:
                rr, xx = r, x
                if is_real(rr) or is_real(xx):
                    rr, xx = to_real(rr), to_real(xx)
                rr, xx = to_z3(rr), to_z3(xx)
                r = z3.If(xx < rr, xx, rr) if is_min else z3.If(xx > rr, xx, rr)
        return r
    return f


def _b_abs(ex, st, node, x):
    if is_vec(x) or isinstance(x, VOpaque):
        return vec_op('abs', x)
    if is_concrete(x):
        return abs(x)
    return z3.If(x >= 0, x, -x)


def _b_int(ex, st, node, x):
    if isinstance(x, bool):
        return int(x)
    if is_int(x):
        return x
    if is_z3(x) and z3.is_bool(x):
        return z3.If(x, 1, 0)
    if isinstance(x, Fraction):
        return int(x)
    raise OutOfSubset('int() of %r' % (x,))


def _b_tuple(ex, st, node, x=()):
    return VTuple(ex.iter_values(st, x, node))


def _b_list(ex, st, node, x=()):
    r = Ref('list')
    st.heap[r.id] = ListContent(ex.iter_values(st, x, node))
    return r


def _b_enumerate(ex, st, node, x):
    return VTuple(VTuple((k, v)) for k, v in enumerate(ex.iter_values(st, x, node)))


def _b_zip(ex, st, node, *xs):
    return VTuple(VTuple(t) for t in zip(*[ex.iter_values(st, x, node) for x in xs]))


def _b_bool(ex, st, node, x):
    return ex.truth(st, x, node)


_PURE_SET_METHODS = ('issubset', 'issuperset', 'isdisjoint', 'union', 'intersection', 'difference', 'copy')


def _b_isinstance(ex, st, node, *a):
    raise OutOfSubset('isinstance at line %d' % node.lineno)


def _b_float(ex, st, node, x):
    return to_real(x)


def _b_set(ex, st, node, *a):
    if not a:
        return VTuple(())           # empty set literal; its element sort is fixed by the context it is used in
    sv = ex.as_set(st, a[0], node)
    if sv is not None:
        return VSetVal(sv[0], sv[1])
    raise OutOfSubset('set(%r) at line %d' % (a[0], node.lineno))


def _b_print(ex, st, node, *a, **k):
    return None


def _b_dict(ex, st, node, *a, **k):
    if not a and not k:
        r = Ref('dict')                 # empty dict: modelled exactly as long as all keys are concrete
        st.heap[r.id] = CDictContent()
        return r
    return VOpaque('dict')


def _m_ceil(ex, st, node, x):
    if is_concrete(x):
        import math
        return math.ceil(x)
    if is_int(x):
        return x
    c = z3.Int(fresh_name('ceil'))
    st.pc.append(z3.And(z3.ToReal(c) - 1 < x, x <= z3.ToReal(c)))
    return c


def _np_norm(ex, st, node, x, *a, **k):
    if is_vec(x):
        r = norm_fn(x)
        st.pc.append(r >= 0)
        return r
    r = z3.Real(fresh_name('norm'))
    st.pc.append(r >= 0)
    return r


def _np_sqrt(ex, st, node, x):
    if is_num(x):
        r = z3.Real(fresh_name('sqrt'))
        xr = to_z3(to_real(x))
        st.pc.append(z3.And(r >= 0, r * r == xr))
        ex.oblige(st, 'safe:sqrt', node, xr >= 0, 'sqrt of a non-negative number')
        return r
    return vec_op('sqrt', x)


def _np_array(ex, st, node, x, *a, **k):
    if is_vec(x) or is_num(x):
        return x
    if isinstance(x, VOpaque):
        return fresh_vec('array')
    if isinstance(x, Ref) and isinstance(st.heap[x.id], ArrContent):
        return fresh_vec('array')       # a copy, abstracted to a vector
    if isinstance(x, Ref) and isinstance(st.heap[x.id], SeqContent):
        r = Ref('ndarray')              # 1-d array with the elements of the list
        st.heap[r.id] = st.heap[x.id].copy()
        return r
    raise OutOfSubset('np.array of %r' % (x,))


def _np_inf():
    return None


def _b_slice(ex, st, node, *a):
    return fresh_vec('slice')


_BUILTINS = {'set': _b_set, 'slice': _b_slice, 'print': _b_print, 'dict': _b_dict, 'len': _b_len, 'range': _b_range, 'prange': lambda ex, st, node, *a, **k: _b_range(ex, st, node, *a),
             'reversed': _b_reversed, 'min': _minmax(True), 'max': _minmax(False), 'abs': _b_abs, 'fabs': _b_abs,
             'int': _b_int, 'tuple': _b_tuple, 'list': _b_list, 'enumerate': _b_enumerate, 'zip': _b_zip,
             'bool': _b_bool, 'float': _b_float, 'isinstance': _b_isinstance}


def _kind_of_dtype(kw, default='real'):
    dt = kw.get('dtype')
    if dt is None:
        return default, None
    what = getattr(dt, 'what', None) or (dt.name if isinstance(dt, VFunc) else str(dt))
    what = str(what)
    if any(t in what for t in ('uintp', 'uint')):
        return 'int', CType('int', bits=64, signed=False)
    if any(t in what for t in ('int', 'long')):
        return 'int', CType('int', bits=64, signed=True)
    if 'bool' in what:
        return 'bool', None
    return 'real', None


def _np_alloc(fill):
    def f(ex, st, node, shape, *a, **kw):
        if isinstance(shape, VTuple):
            shp = tuple(shape)
        elif isinstance(shape, Ref) and isinstance(st.heap[shape.id], ListContent):
            shp = tuple(st.heap[shape.id].items)
        else:
            shp = (shape,)
        if any(isinstance(s_, VOpaque) or is_vec(s_) for s_ in shp):
            return fresh_vec('zeros')
        for s_ in shp:
            if not is_int(s_):
                raise OutOfSubset('array shape %r at line %d' % (s_, node.lineno))
            ex.oblige(st, 'safe:alloc', node, (to_z3(s_) >= 0) if is_z3(s_) else s_ >= 0, 'non-negative array extent')
        kind, ect = _kind_of_dtype(kw)
        if fill is None:
            data = fresh_arr_data('new', kind, len(shp))
            r = Ref('ndarray')
            st.heap[r.id] = ArrContent(shp, data, kind, ect, numpy=True)
            if ect is not None:
                lo, hi = ect.int_range()
                idx = [z3.Int(fresh_name('q')) for _ in shp]
                e = arr_select(data, idx)
                st.pc.append(z3.ForAll(idx, z3.And(e >= lo, e <= hi)))
            return r
        val = to_z3(to_real(fill) if kind == 'real' else fill)
        data = val
        for _ in shp:
            data = z3.K(z3.IntSort(), data)
        r = Ref('ndarray')
        st.heap[r.id] = ArrContent(shp, data, kind, ect, numpy=True)
        return r
    return f


def _np_empty_like(ex, st, node, x, **kw):
    c = st.heap[x.id]
    r = Ref('ndarray')
    st.heap[r.id] = ArrContent(c.shape, fresh_arr_data('new', c.kind, c.ndim), c.kind, c.elem_ctype, numpy=True)
    return r


def _np_isscalar(ex, st, node, x):
    return is_num(x)


def _np_allclose(ex, st, node, a, b, rtol=Fraction(1, 100000), atol=Fraction(1, 100000000), **kw):
    """assumed contract (numpy docs): all(|a-b| <= atol + rtol*|b|), over the reals"""
    ca, cb = st.heap[a.id], st.heap[b.id]
    if not (isinstance(ca, ArrContent) and isinstance(cb, ArrContent) and ca.ndim == 1 and cb.ndim == 1):
        raise OutOfSubset('np.allclose on non-1d arrays')
    ex.oblige(st, 'safe:broadcast', node, to_z3(ca.shape[0]) == to_z3(cb.shape[0]), 'np.allclose operands have equal length')
    i = z3.Int(fresh_name('i'))
    x, y = z3.Select(ca.data, i), z3.Select(cb.data, i)
    ab = lambda t: z3.If(t >= 0, t, -t)
    return z3.ForAll([i], z3.Implies(z3.And(i >= 0, i < to_z3(ca.shape[0])),
                                     ab(x - y) <= to_z3(to_real(atol)) + to_z3(to_real(rtol)) * ab(y)))


def _it_product(ex, st, node, *iters):
    import itertools as _itl
    def _sym_len(it):
        return not z3.is_int_value(z3.simplify(to_z3(it.hi) - to_z3(it.lo)))
    if iters and all(isinstance(it, VRange) and it.step == 1 for it in iters) and any(_sym_len(it) for it in iters):
        # product of symbolic integer ranges: the box {t : lo_k <= t_k < hi_k} as a set of integer tuples (an iterator in python;
        # as a value it is only usable where order and multiplicity do not matter: set(...), set.update(...))
        from .values import int_tuple_sort, tuple_components
        srt = int_tuple_sort(len(iters))
        t = z3.Const(fresh_name('t'), srt)
        comps = tuple_components(t)
        return VSetVal(z3.Lambda([t], z3.And(*[z3.And(to_z3(it.lo) <= c_, c_ < to_z3(it.hi)) for it, c_ in zip(iters, comps)])), srt)
    lists = [ex.iter_values(st, it, node) for it in iters]
    return VTuple(VTuple(t) for t in _itl.product(*lists))


def _sp_lil(ex, st, node, shape, *a, **kw):
    r = _np_alloc(0)(ex, st, node, shape)
    st.heap[r.id].sparse_model = True
    return r


_MODFUNCS = {'scipy.sparse.lil_matrix': _sp_lil, 'itertools.product': _it_product, 'math.ceil': _m_ceil, 'np.linalg.norm': _np_norm, 'scipy.linalg.norm': _np_norm, 'np.sqrt': _np_sqrt,
             'np.array': _np_array, 'np.allclose': _np_allclose, 'np.empty': _np_alloc(None), 'np.zeros': _np_alloc(0), 'np.ones': _np_alloc(1),
             'np.empty_like': _np_empty_like, 'np.isscalar': _np_isscalar}
