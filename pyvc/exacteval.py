"""Exact evaluation of straight-line coefficient code from the real source.

The function's `ast` (from /repo's current file) is re-interpreted with every numeric literal read as the exact
rational its decimal text denotes, `np.sqrt` as the exact algebraic root, `np.array` as an exact matrix.  This is
symbolic execution of straight-line code: no floating point is involved, so order conditions become ground
exact arithmetic."""
import ast

import sympy as sp


class _NP:
    """exact stand-ins for the handful of numpy functions the coefficient code uses"""

    @staticmethod
    def array(x):
        rows = list(x)
        if rows and isinstance(rows[0], (list, tuple, sp.MatrixBase)):
            return sp.Matrix([list(r) for r in rows])
        return sp.Matrix([list(rows)])  # row vector; indexed with [i] below via _vec

    @staticmethod
    def sqrt(x):
        return sp.sqrt(x)

    @staticmethod
    def fill_diagonal(B, v):
        for i in range(min(B.shape)):
            B[i, i] = v


class _Lit(ast.NodeTransformer):
    def __init__(self, text):
        self.text = text

    def visit_Constant(self, node):
        if isinstance(node.value, bool) or node.value is None or isinstance(node.value, str):
            return node
        if isinstance(node.value, (int, float)):
            seg = ast.get_source_segment(self.text, node) or repr(node.value)
            return ast.copy_location(ast.Call(func=ast.Name(id='__Q__', ctx=ast.Load()),
                                              args=[ast.Constant(value=seg)], keywords=[]), node)
        return node


def _Q(txt):
    return sp.Rational(txt.replace('_', ''))


def eval_function(srcfile, fn_node):
    """run the (argument-less) coefficient function exactly; returns its return value with sympy entries"""
    fn2 = _Lit(srcfile.text).visit(_copy(fn_node))
    fn2.decorator_list = []
    mod = ast.Module(body=[fn2], type_ignores=[])
    ast.fix_missing_locations(mod)
    ns = {'np': _NP, '__Q__': _Q}
    exec(compile(mod, srcfile.path, 'exec'), ns)
    return ns[fn_node.name]()


def eval_expr(srcfile, expr_node, extra=None):
    e2 = _Lit(srcfile.text).visit(_copy(expr_node))
    ex = ast.Expression(body=e2)
    ast.fix_missing_locations(ex)
    ns = {'np': _NP, '__Q__': _Q}
    ns.update(extra or {})
    return eval(compile(ex, srcfile.path, 'eval'), ns)


def _copy(node):
    import copy
    return copy.deepcopy(node)


def vec(m):
    """sympy row/column matrix -> list"""
    return list(m)


def small(expr, tol):
    """|expr| <= tol decided exactly (algebraic numbers are compared by certified numerics in sympy)"""
    e = sp.nsimplify(expr) if False else expr
    e = sp.simplify(e)
    if e.is_Rational:
        return abs(e) <= tol
    val = sp.N(e, 60)
    return bool(abs(val) <= sp.Rational(tol) - sp.Rational(1, 10**40))
