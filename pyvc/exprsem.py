"""Denotational semantics of pyiga.vform expression trees over sympy (used by the C06 / C01 contracts).

Everything is a sympy expression in the parametric coordinates xi_0..xi_{d-1}.  Basis functions, parametric input
fields and the geometry components are *undefined functions* of xi, so parametric derivatives are sympy derivatives
and physical derivatives are DEFINED by the chain rule (grad_x w = J^{-T} grad_xi w, applied twice for Hessians) --
an oracle that is independent of the formulas the library uses.  Physical input fields and their physical jets,
parameters and Gauss weights are atoms.  The same function denotes trees before and after VForm.finalize()
(after finalize, derivative arrays f_grad_a / f_hess_a / geo_grad_a ... are read back as the jets they store)."""
import itertools

import os
import sympy as sp


class SemError(Exception):
    pass


def sym_index(n, i, j):
    """spec of the symmetric-matrix linearisation: row-major upper triangle"""
    if i > j:
        i, j = j, i
    return sum(n - k for k in range(i)) + (j - i)


def sym_index_inv(n, s):
    for i in range(n):
        for j in range(i, n):
            if sym_index(n, i, j) == s:
                return i, j
    raise SemError('bad symmetric index %d' % s)


def canon(x):
    """canonical rational-function form (so that equal arguments of abs/sqrt/sin/... become syntactically equal)"""
    try:
        return sp.cancel(sp.together(x))
    except Exception:
        return x


class Sem:
    def __init__(self, vf, vfmod):
        self.vf, self.m = vf, vfmod
        self.dim = vf.dim
        self.geo_dim = vf.geo_dim
        self.xi = [sp.Symbol('xi%d' % k, real=True) for k in range(self.dim)]
        self.spacetime = bool(vf.spacetime)
        self._memo = {}
        G = []
        for m_ in range(self.geo_dim):
            if self.spacetime:
                if m_ < self.dim - 1:
                    G.append(sp.Function('G%d' % m_)(*self.xi[:-1]))
                else:
                    G.append(self.xi[-1])          # space-time cylinder: the last physical coordinate is time itself
            else:
                G.append(sp.Function('G%d' % m_)(*self.xi))
        self.G = G
        self.J = sp.Matrix(self.geo_dim, self.dim, lambda a, b: sp.diff(G[a], self.xi[b]))
        self._Jinv = None

    # ---- geometry helpers
    @property
    def Jinv(self):
        if self._Jinv is None:
            if self.geo_dim != self.dim:
                raise SemError('physical derivatives need a square Jacobian')
            self._Jinv = self.J.inv(method='ADJ') if self.dim > 1 else sp.Matrix([[1 / self.J[0, 0]]])
        return self._Jinv

    def pdiff(self, w, D):
        for k, t in enumerate(D):
            for _ in range(t):
                w = sp.diff(w, self.xi[k])
        return w

    def phys_deriv(self, w, D):
        """chain rule: d/dx_k = sum_j Jinv[j,k] d/dxi_j, applied once per derivative in D (order of application irrelevant)"""
        ks = [k for k, t in enumerate(D) for _ in range(t)]
        for k in ks:
            w = sum(self.Jinv[j, k] * sp.diff(w, self.xi[j]) for j in range(self.dim))
        return w

    # ---- atoms
    def bfun(self, bf):
        name = bf.name if bf.component is None else '%s_%d' % (bf.name, bf.component)
        return sp.Function('bf_' + name)(*self.xi)

    def field(self, inp, I):
        nm = 'fld_%s%s' % (inp.name, ''.join('_%d' % i for i in I))
        return sp.Function(nm)(*self.xi)

    def phys_atom(self, inp, I, D):
        return sp.Symbol('phys_%s%s__D%s' % (inp.name, ''.join('_%d' % i for i in I), ''.join(str(t) for t in D)), real=True)

    def param(self, name, I):
        return sp.Symbol('par_%s%s' % (name, ''.join('_%d' % i for i in I)), real=True)

    def gw(self, axis):
        return sp.Symbol('gw%d' % axis, positive=True)

    def gauss_weight(self):
        return sp.Mul(*[self.gw(k) for k in range(self.dim)])

    # ---- measures
    def unscaled_normal(self, BJ):
        if BJ.shape == (2, 1):
            return sp.Matrix([-BJ[1, 0], BJ[0, 0]])
        if BJ.shape == (3, 2):
            return BJ[:, 0].cross(BJ[:, 1])
        raise SemError('normal for Jacobian shape %r' % (BJ.shape,))

    def bjac(self):
        if self.vf.is_boundary:
            P = sp.Matrix(self.dim, self.dim - 1, lambda a, b: self.param('Jac_to_boundary', (a, b)))
            return self.J * P
        return self.J

    # ---- denotation
    def den(self, e):
        key = id(e)
        if key in self._memo and self._memo[key][0] is e:
            return self._memo[key][1]
        r = self._den(e)
        self._memo[key] = (e, r)
        return r

    def _den(self, e):
        m = self.m
        if isinstance(e, m.ConstExpr):
            return sp.nsimplify(e.value, rational=True)
        if isinstance(e, m.NegExpr):
            return -self.den(e.x)
        if isinstance(e, m.ScalarOperExpr):
            a, b = self.den(e.x), self.den(e.y)
            return {'+': lambda: a + b, '-': lambda: a - b, '*': lambda: a * b, '/': lambda: a / b}[e.oper]()
        if isinstance(e, m.BuiltinFuncExpr):
            f = {'abs': sp.Abs, 'sqrt': sp.sqrt, 'exp': sp.exp, 'log': sp.log, 'sin': sp.sin, 'cos': sp.cos, 'tan': sp.tan}.get(e.funcname)
            if f is None:
                raise SemError('unknown builtin %s' % e.funcname)
            return f(canon(self.den(e.x)))
        if isinstance(e, m.LiteralVectorExpr):
            return sp.Matrix([self.den(c) for c in e.children])
        if isinstance(e, m.LiteralMatrixExpr):
            r, c = e.shape
            return sp.Matrix(r, c, [self.den(x) for x in e.children])
        if isinstance(e, m.TensorOperExpr):
            a, b = self.den(e.x), self.den(e.y)
            if e.oper == '+':
                return a + b
            if e.oper == '-':
                return a - b
            if e.oper == '*':
                return a.multiply_elementwise(b)
            if e.oper == '/':
                return sp.Matrix(a.shape[0], a.shape[1], lambda i, j: a[i, j] / b[i, j])
        if isinstance(e, m.MatVecExpr):
            return self.den(e.x) * self.den(e.y)
        if isinstance(e, m.MatMatExpr):
            return self.den(e.x) * self.den(e.y)
        if isinstance(e, m.VectorCrossExpr):
            return self.den(e.x).cross(self.den(e.y))
        if isinstance(e, m.OuterProdExpr):
            return self.den(e.x) * self.den(e.y).T
        if isinstance(e, m.GaussWeightExpr):
            return self.gw(e.axis)
        if isinstance(e, m.VolumeMeasureExpr):
            if self.geo_dim != self.dim or self.vf.is_boundary:
                raise SemError('dx in a surface/boundary form')
            return self.gauss_weight() * sp.Abs(canon(self.J.det()))
        if isinstance(e, m.SurfaceMeasureExpr):
            un = self.unscaled_normal(self.bjac())
            return self.gauss_weight() * sp.sqrt(canon(sum(x * x for x in un)))
        if isinstance(e, m.PartialDerivExpr):
            w = self.bfun(e.basisfun)
            if sum(e.D) == 0:
                return w
            if not e.physical:
                return self.pdiff(w, e.D)
            return self.phys_deriv(w, e.D)
        if isinstance(e, m.VarRefExpr):
            return self.varref(e)
        raise SemError('no denotation for %s' % type(e).__name__)

    def varref(self, e):
        m = self.m
        var = e.var
        if var.expr is not None:
            if sum(e.D) != 0:
                raise SemError('derivative of an expression variable')
            val = self.den(var.expr)
            if len(e.I) == 0:
                return val
            if len(e.I) == 1:
                return val[e.I[0]]
            return val[e.I[0], e.I[1]]
        src = var.src
        if isinstance(src, m.Parameter):
            if sum(e.D) != 0:
                return sp.Integer(0)
            return self.param(var.name, e.I)
        if isinstance(src, m.InputField):
            nbase = len(src.shape)
            I = tuple(e.I[:nbase])
            extra = tuple(e.I[nbase:])
            # derivative order stored in the array itself (f_grad_a, f_hess_a)
            D = [0] * self.dim
            if var.deriv == 1:
                D[extra[0]] += 1
            elif var.deriv == 2:
                i, j = sym_index_inv(self.dim, extra[0])
                D[i] += 1
                D[j] += 1
            elif extra:
                raise SemError('unexpected index on %s' % var.name)
            Dref = tuple(e.D)
            if src.name == 'geo':
                if sum(Dref) and not e.parametric:
                    raise SemError('physical derivative of the geometry')
                return self.pdiff(self.G[I[0]], tuple(a + b for a, b in zip(D, Dref)))
            if src.physical:
                # given in physical coordinates: its physical jets are atoms; arrays f_grad_a/f_hess_a hold physical jets
                if sum(Dref) and e.parametric:
                    raise SemError('parametric derivative of a physical field')
                Dtot = tuple(a + b for a, b in zip(D, Dref))
                return self.phys_atom(src, I, Dtot)
            w = self.field(src, I)
            w = self.pdiff(w, D)
            if sum(Dref) == 0:
                return w
            if e.parametric:
                return self.pdiff(w, Dref)
            return self.phys_deriv(w, Dref)
        raise SemError('variable %s without source' % var.name)


# per-step budget of the symbolic normal form (the thorough tier raises it: PYVC_SYMPY_LIMIT_S)
SYMPY_LIMIT_S = int(os.environ.get('PYVC_SYMPY_LIMIT_S', '60'))


def is_zero(expr, seed=0):
    """('proved'|'refuted'|'unknown', detail).  Symbolic normal form first; a numeric refutation replaces the undefined
    functions by random polynomials and evaluates exactly."""
    import random
    if isinstance(expr, sp.MatrixBase):
        res = [is_zero(x, seed) for x in expr]
        if any(r[0] == 'refuted' for r in res):
            return [r for r in res if r[0] == 'refuted'][0]
        if all(r[0] == 'proved' for r in res):
            return 'proved', ''
        return 'unknown', 'matrix entry undecided'
    d = expr
    try:
        with _time_limit(SYMPY_LIMIT_S):
            d = sp.cancel(sp.together(sp.expand_func(expr.doit())))
        if d == 0:
            return 'proved', ''
    except Exception:          # sympy gave up or timed out: fall through to the numeric test
        pass
    # a numeric witness decides quickly when the identity is false
    # (several independent samples: an identity that fails only where some sub-expression is negative -- |det J| against det J --
    # is missed by a single sample half of the time)
    val = None
    for k in range(4):
        rng = random.Random(seed + 7919 * k)
        vk = numeric_eval(expr, rng, flip=bool(k % 2))
        if vk is not None and abs(vk) > 1e-9:
            return 'refuted', 'numeric witness (random polynomial jets, seed %d, sample %d): difference = %s' % (seed, k, vk)
        if vk is not None:
            val = vk
    try:
        with _time_limit(SYMPY_LIMIT_S):
            if sp.simplify(d) == 0:
                return 'proved', ''
    except Exception:
        pass
    if val is None:
        return 'unknown', 'could not evaluate'
    return 'unknown', 'numerically zero at a random point, no symbolic proof'


class _time_limit:
    def __init__(self, seconds):
        self.seconds = seconds

    def __enter__(self):
        import signal
        self._old = None
        try:
            self._old = signal.signal(signal.SIGALRM, self._raise)
            signal.alarm(self.seconds)
        except ValueError:      # not in the main thread: no limit
            self._old = None
        return self

    @staticmethod
    def _raise(signum, frame):
        raise TimeoutError('sympy time limit')

    def __exit__(self, *a):
        import signal
        if self._old is not None:
            signal.alarm(0)
            signal.signal(signal.SIGALRM, self._old)
        return False


def numeric_eval(expr, rng, flip=False):
    xs = sorted([s for s in expr.free_symbols if s.name.startswith('xi')], key=lambda s: s.name)
    funcs = sorted(expr.atoms(sp.Function), key=str)
    funcs = [f for f in funcs if isinstance(f, sp.core.function.AppliedUndef)]
    repl = {}
    heads = {}
    for f in funcs:
        if f.func not in heads:
            args = f.args
            poly = sum(sp.Rational(rng.randint(-3, 3), rng.randint(1, 3)) * sp.Mul(*[a ** rng.randint(0, 2) for a in args]) for _ in range(4)) + sp.Rational(rng.randint(1, 5))
            if f.func.__name__.startswith('G'):
                # keep the geometry close to the identity so that the Jacobian is invertible
                idx = int(f.func.__name__[1:])
                # (flip: the first component is mirrored, i.e. an orientation-reversing map with det J < 0)
                poly = (args[idx] if idx < len(args) else 0) * (-3 if flip and idx == 0 else 3) + poly / 7
            heads[f.func] = sp.Lambda(args, poly)
    try:
        e = expr
        for h, lam in heads.items():
            e = e.replace(h, lam)
        e = e.doit()
        subs = {s: sp.Rational(rng.randint(1, 9), 10) for s in e.free_symbols}
        v = e.subs(subs)
        return complex(sp.N(v, 30)).real if v.is_real is not False else None
    except Exception:
        return None
