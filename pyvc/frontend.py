"""Front ends: locate a function in /repo's current working tree and return it as a Python `ast`
FunctionDef.  `.py` files go through `ast.parse`; `.pyx`/`.pxi` files go through Cython's own parser
(the version that builds the extension) and are lowered node by node to the same `ast` classes, with
the C declarations kept in side attributes:

  FunctionDef.ctypes     : {param name -> CType}            (declared parameter types)
  FunctionDef.ret_ctype  : CType or None
  FunctionDef.directives : {'boundscheck': bool, 'wraparound': bool, 'cdivision': bool}
  FunctionDef.kind       : 'def' | 'cdef' | 'cpdef'
  AnnAssign.ctype        : CType   (from a `cdef` declaration; value None when there is no initialiser)
  For.is_prange          : True for `prange(...)` loops
  Constant.srctext       : literal text of a float constant (exact decimal reading)

What is dropped: comments, docstrings are kept as Expr(Constant(str)) (the executor ignores them),
`nogil`/`noexcept`/`inline` qualifiers, `cimport` statements.  `include "x.pxi"` is spliced textually
(which is what Cython does) before parsing.
"""
import ast
import hashlib
import os
import re

from . import REPO


class OutOfSubset(Exception):
    pass


# ---------------------------------------------------------------------------------------------
# C types

class CType:
    """kind: 'int' (bits, signed), 'real', 'bint', 'memview' (elem, ndim), 'carray' (elem, size),
    'ptr' (elem), 'object', 'struct' (name)"""

    def __init__(self, kind, **kw):
        self.kind = kind
        self.__dict__.update(kw)

    def __repr__(self):
        d = {k: v for k, v in self.__dict__.items() if k != 'kind'}
        return 'CType(%s%s)' % (self.kind, ''.join(', %s=%r' % kv for kv in d.items()))

    def int_range(self):
        assert self.kind == 'int'
        if self.signed:
            return -(1 << (self.bits - 1)), (1 << (self.bits - 1)) - 1
        return 0, (1 << self.bits) - 1


_INT_TYPES = {
    'int': (32, True), 'long': (64, True), 'short': (16, True), 'char': (8, True),
    'unsigned': (32, False), 'size_t': (64, False), 'ssize_t': (64, True), 'Py_ssize_t': (64, True),
    'int64_t': (64, True), 'int32_t': (32, True), 'uint32_t': (32, False), 'uint64_t': (64, False),
    'uintp': (64, False), 'intp': (64, True), 'npy_intp': (64, True), 'long long': (64, True),
}


def _simple_ctype(name, signed=1, longness=0):
    if name in ('double', 'float'):
        return CType('real')
    if name == 'bint':
        return CType('bint')
    if name in ('object', None) or name in ('dict', 'list', 'tuple', 'set', 'str'):
        return CType('object', pyname=name)
    if name in _INT_TYPES or name == 'int':
        bits, sg = _INT_TYPES[name]
        if name == 'int' and longness >= 1:
            bits = 64
        if signed == 0:
            sg = False
        return CType('int', bits=bits, signed=sg)
    if name == 'void':
        return CType('void')
    return CType('struct', name=name)


# ---------------------------------------------------------------------------------------------
# Cython tree -> Python ast

class _Cy2Py:
    def __init__(self, filename):
        self.filename = filename
        self.structs = {}

    # ---- types
    def ctype(self, base, declarator=None):
        t = self._base_ctype(base)
        d = declarator
        cn = type(d).__name__ if d is not None else None
        while d is not None and cn != 'CNameDeclaratorNode':
            if cn == 'CArrayDeclaratorNode':
                size = None
                if d.dimension is not None and type(d.dimension).__name__ == 'IntNode':
                    size = int(d.dimension.value)
                t = CType('carray', elem=t, size=size)
            elif cn == 'CPtrDeclaratorNode':
                t = CType('ptr', elem=t)
            elif cn == 'CReferenceDeclaratorNode':
                pass
            elif cn == 'CFuncDeclaratorNode':
                t = CType('object', pyname='cfunc')
            else:
                raise OutOfSubset('declarator ' + cn)
            d = d.base
            cn = type(d).__name__
        return t

    def _base_ctype(self, base):
        cn = type(base).__name__
        if cn == 'CSimpleBaseTypeNode':
            name = base.name
            if getattr(base, 'module_path', None):
                # np.int64_t etc.
                pass
            return _simple_ctype(name, getattr(base, 'signed', 1), getattr(base, 'longness', 0))
        if cn == 'MemoryViewSliceTypeNode':
            return CType('memview', elem=self._base_ctype(base.base_type_node), ndim=len(base.axes))
        if cn == 'CQualifierTypeNode' or cn == 'CConstTypeNode' or cn == 'CConstOrVolatileTypeNode':
            return self._base_ctype(base.base_type)
        if cn == 'CComplexBaseTypeNode':
            return self.ctype(base.base_type, base.declarator)
        if cn == 'TemplatedTypeNode':
            # e.g. cdef double[64] left / cdef (unsigned*)[8] p  (C array), or numpy buffer syntax
            pa = getattr(base, 'positional_args', None) or []
            if len(pa) == 1 and type(pa[0]).__name__ == 'IntNode' and not getattr(getattr(base, 'keyword_args', None), 'key_value_pairs', None):
                return CType('carray', elem=self._base_ctype(base.base_type_node), size=int(pa[0].value))
            return CType('object', pyname='templated')
        if cn == 'CTupleBaseTypeNode':
            return CType('object', pyname='ctuple')
        raise OutOfSubset('base type ' + cn)

    @staticmethod
    def _decl_name(d):
        while type(d).__name__ != 'CNameDeclaratorNode':
            d = d.base
        return d

    # ---- helpers
    def loc(self, node, n):
        pos = getattr(n, 'pos', None)
        line = pos[1] if pos else 0
        col = pos[2] if pos else 0
        node.lineno = node.end_lineno = line
        node.col_offset = node.end_col_offset = col
        return node

    def block(self, n):
        if n is None:
            return []
        if type(n).__name__ == 'StatListNode':
            out = []
            for s in n.stats:
                out.extend(self.block(s))
            return out
        r = self.stat(n)
        return r if isinstance(r, list) else [r]

    # ---- statements
    def stat(self, n):
        cn = type(n).__name__
        m = getattr(self, 's_' + cn, None)
        if m is None:
            return [self.loc(ast.Expr(value=self.loc(ast.Call(func=ast.Name(id='__unsupported__', ctx=ast.Load()),
                                                                args=[ast.Constant(value=cn)], keywords=[]), n)), n)]
        return m(n)

    def s_StatListNode(self, n):
        return self.block(n)

    def s_PassStatNode(self, n):
        return [self.loc(ast.Pass(), n)]

    def s_BreakStatNode(self, n):
        return [self.loc(ast.Break(), n)]

    def s_ContinueStatNode(self, n):
        return [self.loc(ast.Continue(), n)]

    def s_CImportStatNode(self, n):
        return []
    s_FromCImportStatNode = s_CImportStatNode

    def s_FromImportStatNode(self, n):
        return []

    def s_CStructOrUnionDefNode(self, n):
        fields = {}
        for a in n.attributes or []:
            for d in a.declarators:
                fields[self._decl_name(d).name] = self.ctype(a.base_type, d)
        self.structs[n.name] = fields
        return []

    def s_CTypeDefNode(self, n):
        return []

    def s_ExprStatNode(self, n):
        return [self.loc(ast.Expr(value=self.expr(n.expr)), n)]

    def s_SingleAssignmentNode(self, n):
        if type(n.rhs).__name__ == 'ImportNode':
            return []
        return [self.loc(ast.Assign(targets=[self.expr(n.lhs, store=True)], value=self.expr(n.rhs)), n)]

    def s_CascadedAssignmentNode(self, n):
        return [self.loc(ast.Assign(targets=[self.expr(l, store=True) for l in n.lhs_list],
                                    value=self.expr(n.rhs)), n)]

    _aug = {'+': ast.Add, '-': ast.Sub, '*': ast.Mult, '/': ast.Div, '//': ast.FloorDiv, '%': ast.Mod,
            '**': ast.Pow, '&': ast.BitAnd, '|': ast.BitOr, '^': ast.BitXor, '<<': ast.LShift,
            '>>': ast.RShift, '@': ast.MatMult}

    def s_InPlaceAssignmentNode(self, n):
        return [self.loc(ast.AugAssign(target=self.expr(n.lhs, store=True), op=self._aug[n.operator](),
                                       value=self.expr(n.rhs)), n)]

    def s_IfStatNode(self, n):
        orelse = self.block(n.else_clause)
        for cl in reversed(n.if_clauses):
            node = self.loc(ast.If(test=self.expr(cl.condition), body=self.block(cl.body) or [ast.Pass()],
                                   orelse=orelse), cl)
            orelse = [node]
        return orelse

    def s_WhileStatNode(self, n):
        return [self.loc(ast.While(test=self.expr(n.condition), body=self.block(n.body),
                                   orelse=self.block(n.else_clause)), n)]

    def s_ForInStatNode(self, n):
        seq = n.iterator.sequence
        it = self.expr(seq)
        node = self.loc(ast.For(target=self.expr(n.target, store=True), iter=it, body=self.block(n.body),
                                orelse=self.block(n.else_clause)), n)
        node.is_prange = (isinstance(it, ast.Call) and isinstance(it.func, ast.Name) and it.func.id == 'prange')
        return [node]

    def s_ReturnStatNode(self, n):
        return [self.loc(ast.Return(value=self.expr(n.value) if n.value is not None else None), n)]

    def s_AssertStatNode(self, n):
        cond = getattr(n, 'condition', None)
        if cond is None:
            cond = n.cond
        val = getattr(n, 'value', None)
        return [self.loc(ast.Assert(test=self.expr(cond), msg=self.expr(val) if val is not None else None), n)]

    def s_RaiseStatNode(self, n):
        exc = n.exc_type
        return [self.loc(ast.Raise(exc=self.expr(exc) if exc is not None else None, cause=None), n)]

    def s_GILStatNode(self, n):
        item = ast.withitem(context_expr=ast.Name(id=n.state, ctx=ast.Load()), optional_vars=None)
        return [self.loc(ast.With(items=[item], body=self.block(n.body)), n)]

    def s_CVarDefNode(self, n):
        out = []
        for d in n.declarators:
            nm = self._decl_name(d)
            t = self.ctype(n.base_type, d)
            node = self.loc(ast.AnnAssign(target=ast.Name(id=nm.name, ctx=ast.Store()),
                                          annotation=ast.Constant(value=repr(t)),
                                          value=self.expr(nm.default) if nm.default is not None else None,
                                          simple=1), n)
            node.ctype = t
            out.append(node)
        return out

    def _args(self, args):
        names, ctypes, defaults = [], {}, []
        for a in args:
            nm = self._decl_name(a.declarator)
            name = nm.name
            if name == '' or name is None:
                # untyped python argument: the "type" slot holds the name
                name = a.base_type.name
                t = CType('object', pyname=None)
            else:
                t = self.ctype(a.base_type, a.declarator)
            names.append(name)
            ctypes[name] = t
            if a.default is not None:
                defaults.append(self.expr(a.default))
        aargs = ast.arguments(posonlyargs=[], args=[ast.arg(arg=x, annotation=None) for x in names],
                              vararg=None, kwonlyargs=[], kw_defaults=[], kwarg=None, defaults=defaults)
        return aargs, ctypes

    def _directives(self, decorators):
        d = {}
        for dec in decorators or []:
            e = dec.decorator
            if type(e).__name__ == 'SimpleCallNode' and type(e.function).__name__ == 'AttributeNode' \
                    and type(e.function.obj).__name__ == 'NameNode' and e.function.obj.name == 'cython':
                if e.args and type(e.args[0]).__name__ == 'BoolNode':
                    d[e.function.attribute] = bool(e.args[0].value)
        return d

    def s_CFuncDefNode(self, n):
        decl = n.declarator
        while type(decl).__name__ != 'CFuncDeclaratorNode':
            decl = decl.base
        name = self._decl_name(decl.base).name
        aargs, ctypes = self._args(decl.args)
        node = self.loc(ast.FunctionDef(name=name, args=aargs, body=self.block(n.body) or [ast.Pass()],
                                        decorator_list=[], returns=None, type_comment=None, type_params=[]), n)
        node.ctypes = ctypes
        node.ret_ctype = self.ctype(n.base_type, n.declarator.base if type(n.declarator).__name__ != 'CFuncDeclaratorNode' else None) \
            if type(n.declarator).__name__ == 'CFuncDeclaratorNode' else self._base_ctype(n.base_type)
        node.directives = self._directives(n.decorators)
        node.kind = 'cpdef' if getattr(n, 'overridable', False) else 'cdef'
        return [node]

    def s_DefNode(self, n):
        aargs, ctypes = self._args(n.args)
        node = self.loc(ast.FunctionDef(name=n.name, args=aargs, body=self.block(n.body) or [ast.Pass()],
                                        decorator_list=[], returns=None, type_comment=None, type_params=[]), n)
        node.ctypes = ctypes
        node.ret_ctype = None
        node.directives = self._directives(n.decorators)
        node.kind = 'def'
        return [node]

    def s_CClassDefNode(self, n):
        node = self.loc(ast.ClassDef(name=n.class_name, bases=[], keywords=[], body=self.block(n.body) or [ast.Pass()],
                                     decorator_list=[], type_params=[]), n)
        return [node]

    def s_PyClassDefNode(self, n):
        node = self.loc(ast.ClassDef(name=n.name, bases=[], keywords=[], body=self.block(n.body) or [ast.Pass()],
                                     decorator_list=[], type_params=[]), n)
        return [node]

    def s_GlobalNode(self, n):
        return [self.loc(ast.Global(names=list(n.names)), n)]

    # ---- expressions
    _bin = {'+': ast.Add, '-': ast.Sub, '*': ast.Mult, '/': ast.Div, '//': ast.FloorDiv, '%': ast.Mod,
            '**': ast.Pow, '&': ast.BitAnd, '|': ast.BitOr, '^': ast.BitXor, '<<': ast.LShift,
            '>>': ast.RShift, '@': ast.MatMult}
    _cmp = {'==': ast.Eq, '!=': ast.NotEq, '<': ast.Lt, '<=': ast.LtE, '>': ast.Gt, '>=': ast.GtE,
            'is': ast.Is, 'is_not': ast.IsNot, 'in': ast.In, 'not_in': ast.NotIn}

    def expr(self, n, store=False):
        cn = type(n).__name__
        ctx = ast.Store() if store else ast.Load()
        L = lambda x: self.loc(x, n)
        if cn == 'NameNode':
            return L(ast.Name(id=n.name, ctx=ctx))
        if cn == 'IntNode':
            v = n.value
            v = re.sub(r'[uUlL]+$', '', v)
            return L(ast.Constant(value=int(v, 0)))
        if cn == 'FloatNode':
            c = L(ast.Constant(value=float(n.value)))
            c.srctext = n.value
            return c
        if cn == 'BoolNode':
            return L(ast.Constant(value=bool(n.value)))
        if cn in ('NoneNode', 'NullNode'):
            return L(ast.Constant(value=None))
        if cn in ('UnicodeNode', 'IdentifierStringNode', 'StringNode', 'BytesNode'):
            return L(ast.Constant(value=str(n.value)))
        if cn in ('AddNode', 'SubNode', 'MulNode', 'DivNode', 'ModNode', 'PowNode', 'IntBinopNode',
                  'MatMultNode', 'NumBinopNode', 'BitwiseOrNode'):
            return L(ast.BinOp(left=self.expr(n.operand1), op=self._bin[n.operator](), right=self.expr(n.operand2)))
        if cn == 'UnaryMinusNode':
            return L(ast.UnaryOp(op=ast.USub(), operand=self.expr(n.operand)))
        if cn == 'UnaryPlusNode':
            return L(ast.UnaryOp(op=ast.UAdd(), operand=self.expr(n.operand)))
        if cn == 'NotNode':
            return L(ast.UnaryOp(op=ast.Not(), operand=self.expr(n.operand)))
        if cn == 'TildeNode':
            return L(ast.UnaryOp(op=ast.Invert(), operand=self.expr(n.operand)))
        if cn == 'BoolBinopNode':
            op = ast.And() if n.operator == 'and' else ast.Or()
            return L(ast.BoolOp(op=op, values=[self.expr(n.operand1), self.expr(n.operand2)]))
        if cn == 'PrimaryCmpNode':
            ops, comps = [self._cmp[n.operator]()], [self.expr(n.operand2)]
            c = n.cascade
            while c is not None:
                ops.append(self._cmp[c.operator]())
                comps.append(self.expr(c.operand2))
                c = c.cascade
            return L(ast.Compare(left=self.expr(n.operand1), ops=ops, comparators=comps))
        if cn == 'IndexNode':
            return L(ast.Subscript(value=self.expr(n.base), slice=self.expr(n.index), ctx=ctx))
        if cn == 'SliceIndexNode':
            sl = ast.Slice(lower=self.expr(n.start) if n.start is not None else None,
                           upper=self.expr(n.stop) if n.stop is not None else None, step=None)
            return L(ast.Subscript(value=self.expr(n.base), slice=L(sl), ctx=ctx))
        if cn == 'SliceNode':
            f = lambda x: None if x is None or type(x).__name__ == 'NoneNode' else self.expr(x)
            return L(ast.Slice(lower=f(n.start), upper=f(n.stop), step=f(n.step)))
        if cn == 'AttributeNode':
            return L(ast.Attribute(value=self.expr(n.obj), attr=n.attribute, ctx=ctx))
        if cn == 'SimpleCallNode':
            return L(ast.Call(func=self.expr(n.function), args=[self.expr(a) for a in n.args], keywords=[]))
        if cn == 'GeneralCallNode':
            args = [self.expr(a) for a in n.positional_args.args] if n.positional_args is not None else []
            kws = []
            if n.keyword_args is not None and type(n.keyword_args).__name__ == 'DictNode':
                for it in n.keyword_args.key_value_pairs:
                    kws.append(ast.keyword(arg=str(it.key.value), value=self.expr(it.value)))
            return L(ast.Call(func=self.expr(n.function), args=args, keywords=kws))
        if cn == 'TupleNode':
            return L(ast.Tuple(elts=[self.expr(a, store) for a in n.args], ctx=ctx))
        if cn == 'ListNode':
            return L(ast.List(elts=[self.expr(a, store) for a in n.args], ctx=ctx))
        if cn == 'DictNode':
            return L(ast.Dict(keys=[self.expr(i.key) for i in n.key_value_pairs],
                              values=[self.expr(i.value) for i in n.key_value_pairs]))
        if cn == 'CondExprNode':
            return L(ast.IfExp(test=self.expr(n.condition), body=self.expr(n.true_val), orelse=self.expr(n.false_val)))
        if cn == 'AmpersandNode':
            return L(ast.Call(func=ast.Name(id='__addr__', ctx=ast.Load()), args=[self.expr(n.operand)], keywords=[]))
        if cn == 'TypecastNode':
            t = self.ctype(n.base_type, n.declarator)
            c = L(ast.Call(func=ast.Name(id='__cast__', ctx=ast.Load()), args=[self.expr(n.operand)], keywords=[]))
            c.ctype = t
            return c
        if cn in ('ComprehensionNode', 'GeneratorExpressionNode'):
            return self._comprehension(n)
        if cn == 'StarredUnpackingNode':
            return L(ast.Starred(value=self.expr(n.target, store), ctx=ctx))
        if cn == 'YieldExprNode':
            return L(ast.Yield(value=self.expr(n.arg) if getattr(n, 'arg', None) is not None else None))
        if cn == 'LambdaNode':
            return L(ast.Call(func=ast.Name(id='__unsupported__', ctx=ast.Load()), args=[ast.Constant(value=cn)], keywords=[]))
        return L(ast.Call(func=ast.Name(id='__unsupported__', ctx=ast.Load()), args=[ast.Constant(value=cn)], keywords=[]))

    def _comprehension(self, n):
        cn = type(n).__name__
        gens = []
        loop = n.loop
        elt = None
        while True:
            ln = type(loop).__name__
            if ln == 'ForInStatNode':
                gens.append(ast.comprehension(target=self.expr(loop.target, store=True),
                                              iter=self.expr(loop.iterator.sequence), ifs=[], is_async=0))
                loop = loop.body
            elif ln == 'IfStatNode':
                gens[-1].ifs.append(self.expr(loop.if_clauses[0].condition))
                loop = loop.if_clauses[0].body
            elif ln == 'StatListNode' and len(loop.stats) == 1:
                loop = loop.stats[0]
            elif ln == 'ComprehensionAppendNode':
                elt = self.expr(loop.expr)
                break
            elif ln == 'DictComprehensionAppendNode':
                return self.loc(ast.DictComp(key=self.expr(loop.key_expr), value=self.expr(loop.value_expr),
                                             generators=gens), n)
            elif ln == 'ExprStatNode' and type(loop.expr).__name__ == 'YieldExprNode':
                elt = self.expr(loop.expr.arg)
                break
            else:
                raise OutOfSubset('comprehension body ' + ln)
        if cn == 'GeneratorExpressionNode':
            return self.loc(ast.GeneratorExp(elt=elt, generators=gens), n)
        tname = getattr(getattr(n, 'type', None), 'name', 'list')
        if tname == 'set':
            return self.loc(ast.SetComp(elt=elt, generators=gens), n)
        return self.loc(ast.ListComp(elt=elt, generators=gens), n)


# ---------------------------------------------------------------------------------------------

_include_re = re.compile(r'^include\s+"([^"]+)"\s*$', re.M)


class SourceFile:
    """One source file of the repository, parsed once."""

    def __init__(self, relpath, repo=None):
        self.relpath = relpath
        self.repo = repo or REPO
        self.path = os.path.join(self.repo, relpath)
        with open(self.path) as f:
            self.text = f.read()
        self.sha = hashlib.sha256(self.text.encode()).hexdigest()[:16]
        self.structs = {}
        if relpath.endswith('.py'):
            self.module = ast.parse(self.text, filename=self.path)
            self.lines = self.text.splitlines()
            self.is_cython = False
        else:
            self.is_cython = True
            text = self.text
            # textual include, as Cython does
            def splice(m):
                inc = os.path.join(os.path.dirname(self.path), m.group(1))
                with open(inc) as f:
                    return f.read()
            text = _include_re.sub(splice, text)
            self.lines = text.splitlines()
            from Cython.Compiler.TreeFragment import parse_from_strings
            tree = parse_from_strings(os.path.basename(relpath).split('.')[0], text)
            conv = _Cy2Py(self.path)
            body = conv.block(tree.body)
            self.module = ast.Module(body=body, type_ignores=[])
            self.structs = conv.structs

    def find(self, qualname):
        """qualname: 'func' or 'Class.method'."""
        parts = qualname.split('.')
        body = self.module.body
        node = None
        for i, p in enumerate(parts):
            node = None
            for s in body:
                if isinstance(s, (ast.FunctionDef, ast.ClassDef)) and s.name == p:
                    node = s   # last definition wins, as at run time
            if node is None:
                raise KeyError('%s: no %s' % (self.relpath, qualname))
            body = node.body
        if not isinstance(node, ast.FunctionDef):
            raise KeyError('%s: %s is not a function' % (self.relpath, qualname))
        if not hasattr(node, 'ctypes'):
            node.ctypes, node.ret_ctype, node.directives, node.kind = {}, None, {}, 'def'
        node.srcfile = self
        return node

    def classes(self):
        return [s for s in self.module.body if isinstance(s, ast.ClassDef)]

    def line(self, lineno):
        if 1 <= lineno <= len(self.lines):
            return self.lines[lineno - 1]
        return ''

    def segment(self, node):
        """source text of a node (python files only have exact end positions)"""
        if not self.is_cython:
            return ast.get_source_segment(self.text, node)
        return self.line(node.lineno).strip()


_cache = {}


def load(relpath, repo=None):
    key = (repo or REPO, relpath)
    if key not in _cache:
        _cache[key] = SourceFile(relpath, repo)
    return _cache[key]


def clear_cache():
    _cache.clear()
