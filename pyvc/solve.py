"""Discharging obligations: z3 first (in-process API), /usr/bin/cvc5 on z3's `unknown`s (SMT-LIB2 text
produced by z3), verdict mapping, and the parallel driver over (contract, instance) jobs."""
import multiprocessing as mp
import os
import subprocess
import tempfile
import time
import traceback

import z3

from . import frontend, spec as S
from .frontend import OutOfSubset
from .symexec import Executor, ContractDrift

Z3_TIMEOUT_MS = int(os.environ.get('PYVC_Z3_TIMEOUT_MS', '20000'))
CVC5_TIMEOUT_MS = int(os.environ.get('PYVC_CVC5_TIMEOUT_MS', '20000'))


def _cvc5(smt2, timeout_ms):
    exe = '/usr/bin/cvc5'
    if not os.path.exists(exe):
        return 'unknown'
    with tempfile.NamedTemporaryFile('w', suffix='.smt2', delete=False, dir=os.environ.get('TMPDIR', '/var/tmp')) as f:
        f.write('(set-logic ALL)\n' + smt2 + '\n')
        path = f.name
    try:
        r = subprocess.run([exe, '--lang', 'smt2', '--tlimit=%d' % timeout_ms, '--full-saturate-quant', path],
                           capture_output=True, text=True, timeout=timeout_ms / 1000 + 10)
        out = r.stdout.strip().splitlines()
        return out[0] if out and out[0] in ('sat', 'unsat', 'unknown') else 'unknown'
    except Exception:
        return 'unknown'
    finally:
        os.unlink(path)


PHASE1_MS = int(os.environ.get('PYVC_PHASE1_MS', '4000'))
PHASE1_MS_DEGRADED = 600
MAX_PHASE2_PER_JOB = int(os.environ.get('PYVC_MAX_PHASE2', '32'))


def discharge(ob, timeout_ms=None, use_cvc5=True, phase1_only=False, phase1_ms=None):
    """sets ob.status in {'proved','refuted','unknown'}, ob.backend, ob.time, ob.model.
    Order: z3 with a short budget (almost everything discharges in milliseconds), then cvc5, then z3 with the full
    budget.  With phase1_only the later stages are left to the parallel second phase (ob.smt2 carries the query)."""
    t0 = time.time()
    goal = ob.goal
    if z3.is_true(z3.simplify(goal)):
        ob.status, ob.backend, ob.time = 'proved', 'z3-simplify', time.time() - t0
        return ob
    budget = timeout_ms or Z3_TIMEOUT_MS
    s = z3.Solver()
    for a in ob.assumptions:
        s.add(a)
    s.add(z3.Not(goal))
    s.set('timeout', min(phase1_ms or PHASE1_MS, budget))
    if SAFE_MODE[0] and phase1_only:
        ob.status, ob.backend = 'unknown', 'z3'
        ob.smt2, ob.budget = s.to_smt2(), budget
        ob.time = time.time() - t0
        return ob
    if os.environ.get('PYVC_TRACE'):
        with open('/var/tmp/pyvc-trace-%d.log' % os.getpid(), 'a') as tf:
            tf.write('ob %s\n' % ob.oid)
        if os.environ.get('PYVC_TRACE') == 'dump':
            open('/var/tmp/pyvc-last-%d.smt2' % os.getpid(), 'w').write(s.to_smt2())
    r = s.check()
    if os.environ.get('PYVC_TRACE'):
        with open('/var/tmp/pyvc-trace-%d.log' % os.getpid(), 'a') as tf:
            tf.write('   -> %s\n' % r)
    if r == z3.unsat:
        ob.status, ob.backend = 'proved', 'z3'
    elif r == z3.sat:
        ob.status, ob.backend = 'refuted', 'z3'
        ob.model = s.model()
    else:
        ob.status, ob.backend = 'unknown', 'z3'
        if phase1_only:
            ob.smt2 = s.to_smt2()
            ob.budget = budget
        else:
            st, be = phase2(s.to_smt2(), budget, use_cvc5)
            ob.status, ob.backend = st, be
    ob.time = time.time() - t0
    return ob


def phase2(smt2, budget_ms, use_cvc5=True):
    """(status, backend) for a query z3 left undecided in the short first phase"""
    if use_cvc5:
        r2 = _cvc5(smt2, min(CVC5_TIMEOUT_MS, budget_ms))
        if r2 == 'unsat':
            return 'proved', 'cvc5'
        if r2 == 'sat':
            return 'refuted', 'cvc5'
    if budget_ms > PHASE1_MS:
        r = _z3_cli(smt2, budget_ms)
        if r == 'unsat':
            return 'proved', 'z3'
        if r == 'sat':
            return 'refuted', 'z3'
    return 'unknown', 'z3'


def _z3_cli(smt2, timeout_ms):
    """z3 as a separate process with a hard wall-clock limit (the in-process timeout is only advisory for quantified queries)"""
    import shutil
    exe = shutil.which('z3-new') or shutil.which('z3')
    if not exe:
        return 'unknown'
    with tempfile.NamedTemporaryFile('w', suffix='.smt2', delete=False, dir=os.environ.get('TMPDIR', '/var/tmp')) as f:
        f.write(smt2 + '\n')
        path = f.name
    try:
        r = subprocess.run([exe, '-smt2', '-T:%d' % max(1, timeout_ms // 1000), path], capture_output=True, text=True, timeout=timeout_ms / 1000 + 5)
        out = r.stdout.strip().splitlines()
        return out[0] if out and out[0] in ('sat', 'unsat', 'unknown') else 'unknown'
    except Exception:
        return 'unknown'
    finally:
        os.unlink(path)


def _phase2_task(arg):
    smt2, budget = arg
    t0 = time.time()
    st, be = phase2(smt2, budget)
    return st, be, time.time() - t0


def run_job(job):
    """job = (contract, instance index).  Returns a plain dict (picklable)."""
    contract, k = job
    inst = contract.instances[k]
    t0 = time.time()
    res = {'contract': contract.name, 'file': contract.file, 'func': contract.func, 'instance': _inst_repr(inst),
           'obligations': [], 'status': 'ok', 'error': None, 'paths': 0, 'vacuous': False, 'notes': [],
           'src_sha': None, 'time': 0.0}
    try:
        src = frontend.load(contract.file)
        res['src_sha'] = src.sha
        fn = src.find(contract.func)
        ex = Executor(fn, contract, instance=inst, prune=contract.options.get('prune', True) and not os.environ.get('PYVC_NO_PRUNE'))
        obs = ex.run()
        res['paths'] = ex.npaths
        res['notes'] = sorted(set(ex.notes))
        # vacuity: the precondition must be satisfiable and at least one normal exit reachable
        s = z3.Solver()
        s.set('timeout', 3000)
        for a in ex.requires_pc:
            s.add(a)
        if s.check() == z3.unsat:
            res['vacuous'] = True
        reach = False
        for pc in ex.return_pcs:
            s = z3.Solver()
            s.set('timeout', 3000)
            for a in pc:
                s.add(a)
            if s.check() != z3.unsat:
                reach = True
                break
        if ex.return_pcs and not reach:
            res['vacuous'] = True
        if not ex.return_pcs and not contract.options.get('no_return_ok'):
            res['vacuous'] = True
        n_unknown = 0
        for ob in obs:
            discharge(ob, timeout_ms=contract.options.get('timeout_ms'), phase1_only=True,
                      phase1_ms=PHASE1_MS if n_unknown < 6 else PHASE1_MS_DEGRADED)
            d = ob_dict(ob, ex)
            if ob.status == 'unknown':
                n_unknown += 1
                if (n_unknown <= MAX_PHASE2_PER_JOB or SAFE_MODE[0]) and getattr(ob, 'smt2', None):
                    d['_smt2'], d['_budget'] = ob.smt2, ob.budget
            res['obligations'].append(d)
        if getattr(ex, 'drift', None):
            if any(o['status'] == 'refuted' for o in res['obligations']):
                res['notes'] = list(res['notes']) + ['contract drift (%s); the refuted obligations come from the code that was executed' % ex.drift]
            else:
                res['status'], res['error'] = 'drift', ex.drift
                res['obligations'] = []
    except OutOfSubset as e:
        res['status'], res['error'] = 'out-of-subset', str(e)
    except ContractDrift as e:
        res['status'], res['error'] = 'drift', str(e)
    except KeyError as e:
        res['status'], res['error'] = 'missing', str(e)
    except Exception as e:
        res['status'], res['error'] = 'crash', traceback.format_exc()
    res['time'] = round(time.time() - t0, 3)
    return res


def ob_dict(ob, ex=None):
    d = {'id': ob.oid, 'kind': ob.kind, 'line': ob.line, 'status': ob.status, 'backend': ob.backend,
         'time': round(ob.time, 4), 'desc': ob.desc, 'src': ob.src}
    if ob.status != 'proved':
        d['goal'] = str(ob.goal)[:2000]
        if ob.model is not None and ex is not None:
            try:
                inputs = {}
                for name, v in ex.params0.items():
                    inputs[name] = ex.concretize(ex.initial, v, ob.model)
                d['inputs'] = inputs
                d['locals'] = {}
                if ob.state is not None:
                    for name, v in ob.state.env.items():
                        if name not in ex.params0:
                            try:
                                d['locals'][name] = ex.concretize(ob.state, v, ob.model)
                            except Exception:
                                pass
            except Exception as e:   # model extraction is best effort
                d['inputs_error'] = repr(e)
    import json
    return json.loads(json.dumps(d, default=repr))


def custom_result(name, file, func, gen, instance=None):
    """run a property-specific obligation generator `gen() -> (list of Obligation, executor or None)` with the
    same result record / error mapping as run_job"""
    t0 = time.time()
    res = {'contract': name, 'file': file, 'func': func, 'instance': instance or {}, 'obligations': [], 'status': 'ok',
           'error': None, 'paths': 0, 'vacuous': False, 'notes': [], 'src_sha': None, 'time': 0.0}
    try:
        res['src_sha'] = frontend.load(file).sha
        obs, ex = gen()
        for ob in obs:
            if ob.status is None:
                discharge(ob)
            res['obligations'].append(ob_dict(ob, ex))
    except OutOfSubset as e:
        res['status'], res['error'] = 'out-of-subset', str(e)
    except ContractDrift as e:
        res['status'], res['error'] = 'drift', str(e)
    except KeyError as e:
        res['status'], res['error'] = 'missing', str(e)
    except Exception:
        res['status'], res['error'] = 'crash', traceback.format_exc()
    res['time'] = round(time.time() - t0, 3)
    return res


def _inst_repr(inst):
    out = {}
    for k, v in inst.items():
        out[k] = v.value if isinstance(v, S.Const) else (v if isinstance(v, (int, str, bool, type(None))) else type(v).__name__)
    return out


JOB_DEADLINE_S = int(os.environ.get('PYVC_JOB_DEADLINE_S', '240'))
SAFE_MODE = [False]


def _job_child(conn, idx):
    try:
        conn.send(run_job(_JOBS[idx]))
    except BaseException:
        conn.send({'contract': getattr(_JOBS[idx][0], 'name', '?'), 'file': '', 'func': '', 'instance': {}, 'obligations': [], 'status': 'crash',
                   'error': traceback.format_exc(), 'paths': 0, 'vacuous': False, 'notes': [], 'src_sha': None, 'time': 0.0})
    finally:
        conn.close()


def _run_killable(indices, procs, deadline, safe):
    """one forked process per job, at most `procs` at a time; a job that exceeds the deadline is killed (the in-process z3 API can
    ignore its own time limit while building models for quantified formulas) and reported as None"""
    ctx = mp.get_context('fork')
    SAFE_MODE[0] = safe
    pending = list(indices)
    running = {}
    out = {}
    while pending or running:
        while pending and len(running) < procs:
            i = pending.pop(0)
            pr, pw = ctx.Pipe(duplex=False)
            p = ctx.Process(target=_job_child, args=(pw, i))
            p.start()
            pw.close()
            running[i] = (p, pr, time.time())
        done = []
        for i, (p, pr, t0) in running.items():
            if pr.poll(0):
                try:
                    out[i] = pr.recv()
                except EOFError:
                    out[i] = None
                done.append(i)
            elif not p.is_alive():
                out[i] = None
                done.append(i)
            elif time.time() - t0 > deadline:
                p.kill()
                out[i] = None
                done.append(i)
        for i in done:
            p, pr, _ = running.pop(i)
            p.join(5)
            pr.close()
        if not done:
            time.sleep(0.02)
    SAFE_MODE[0] = False
    return out


def run_contracts(contracts, procs=None):
    jobs = [(c, k) for c in contracts for k in range(len(c.instances))]
    procs = procs or min(16, max(1, len(jobs)))
    _set_jobs(jobs)
    res = _run_killable(range(len(jobs)), procs, JOB_DEADLINE_S, safe=False)
    retry = [i for i in range(len(jobs)) if res[i] is None]
    if retry:
        # safe mode: no in-process solver calls on quantified formulas (pruning by the quantifier-free part only, every obligation
        # goes to the external solvers, which are killed at their time limit)
        res2 = _run_killable(retry, procs, 4 * JOB_DEADLINE_S, safe=True)
        for i in retry:
            r = res2[i]
            if r is None:
                c, k = jobs[i]
                r = {'contract': c.name, 'file': c.file, 'func': c.func, 'instance': {}, 'obligations': [], 'status': 'timeout',
                     'error': 'job exceeded its deadline twice (in-process and external-solver mode)', 'paths': 0, 'vacuous': False, 'notes': [],
                     'src_sha': None, 'time': float(5 * JOB_DEADLINE_S)}
            else:
                r['notes'] = list(r.get('notes', [])) + ['first attempt killed at the job deadline; result from the external-solver retry']
            res[i] = r
    return second_phase([res[i] for i in range(len(jobs))])


def second_phase(results):
    """obligations z3 left undecided in its short first budget: cvc5, then z3 with the full budget, in parallel"""
    todo = []
    for r in results:
        for o in r['obligations']:
            if '_smt2' in o:
                todo.append(o)
    if todo:
        ctx = mp.get_context('fork')
        with ctx.Pool(min(16, len(todo))) as pool:
            outs = pool.map(_phase2_task, [(o['_smt2'], o['_budget']) for o in todo], chunksize=1)
        for o, (st, be, dt) in zip(todo, outs):
            o['status'], o['backend'] = st, be
            o['time'] = round(o['time'] + dt, 4)
    for r in results:
        for o in r['obligations']:
            o.pop('_smt2', None)
            o.pop('_budget', None)
    return results


_JOBS = None


def _set_jobs(jobs):
    global _JOBS
    _JOBS = jobs
    return True


def _run_indexed(arg):
    return run_job(_JOBS[arg[0]])
