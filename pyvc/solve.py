"""Discharging obligations: z3 first (in-process API), /usr/bin/cvc5 on z3's `unknown`s (SMT-LIB2 text
produced by z3), verdict mapping, and the parallel driver over (contract, instance) jobs."""
import multiprocessing as mp
import os
import subprocess
import tempfile
import time
import traceback

import z3

from . import frontend, spec as S
from .frontend import OutOfSubset
from .symexec import Executor, ContractDrift

Z3_TIMEOUT_MS = int(os.environ.get('PYVC_Z3_TIMEOUT_MS', '20000'))
CVC5_TIMEOUT_MS = int(os.environ.get('PYVC_CVC5_TIMEOUT_MS', '20000'))


def _cvc5(smt2, timeout_ms):
    exe = '/usr/bin/cvc5'
    if not os.path.exists(exe):
        return 'unknown'
    with tempfile.NamedTemporaryFile('w', suffix='.smt2', delete=False, dir=os.environ.get('TMPDIR', '/var/tmp')) as f:
        f.write('(set-logic ALL)\n' + smt2 + '\n')
        path = f.name
    try:
        r = subprocess.run([exe, '--lang', 'smt2', '--tlimit=%d' % timeout_ms, '--full-saturate-quant', path],
                           capture_output=True, text=True, timeout=timeout_ms / 1000 + 10)
        out = r.stdout.strip().splitlines()
        return out[0] if out and out[0] in ('sat', 'unsat', 'unknown') else 'unknown'
    except Exception:
        return 'unknown'
    finally:
        os.unlink(path)


def discharge(ob, timeout_ms=None, use_cvc5=True):
    """sets ob.status in {'proved','refuted','unknown'}, ob.backend, ob.time, ob.model"""
    t0 = time.time()
    goal = ob.goal
    if z3.is_true(z3.simplify(goal)):
        ob.status, ob.backend, ob.time = 'proved', 'z3-simplify', time.time() - t0
        return ob
    budget = timeout_ms or Z3_TIMEOUT_MS
    s = z3.Solver()
    for a in ob.assumptions:
        s.add(a)
    s.add(z3.Not(goal))
    # 1. z3 with a short budget (almost everything discharges in milliseconds), 2. cvc5, 3. z3 with the full budget
    s.set('timeout', min(4000, budget))
    r = s.check()
    backend = 'z3'
    if r == z3.unknown and use_cvc5:
        try:
            r2 = _cvc5(s.to_smt2(), min(CVC5_TIMEOUT_MS, budget))
        except Exception:
            r2 = 'unknown'
        if r2 == 'unsat':
            ob.status, ob.backend, ob.time = 'proved', 'cvc5', time.time() - t0
            return ob
        if r2 == 'sat':
            # cvc5 gives no model through this route: ask z3 again below for a model
            backend = 'cvc5'
    if r == z3.unknown and budget > 4000:
        s.set('timeout', budget)
        r = s.check()
    if r == z3.unsat:
        ob.status, ob.backend = 'proved', 'z3'
    elif r == z3.sat:
        ob.status, ob.backend = 'refuted', 'z3'
        ob.model = s.model()
    elif backend == 'cvc5':
        ob.status, ob.backend = 'refuted', 'cvc5'
    else:
        ob.status, ob.backend = 'unknown', 'z3'
    ob.time = time.time() - t0
    return ob


def run_job(job):
    """job = (contract, instance index).  Returns a plain dict (picklable)."""
    contract, k = job
    inst = contract.instances[k]
    t0 = time.time()
    res = {'contract': contract.name, 'file': contract.file, 'func': contract.func, 'instance': _inst_repr(inst),
           'obligations': [], 'status': 'ok', 'error': None, 'paths': 0, 'vacuous': False, 'notes': [],
           'src_sha': None, 'time': 0.0}
    try:
        src = frontend.load(contract.file)
        res['src_sha'] = src.sha
        fn = src.find(contract.func)
        ex = Executor(fn, contract, instance=inst, prune=contract.options.get('prune', True))
        obs = ex.run()
        res['paths'] = ex.npaths
        res['notes'] = sorted(set(ex.notes))
        # vacuity: the precondition must be satisfiable and at least one normal exit reachable
        s = z3.Solver()
        s.set('timeout', 3000)
        for a in ex.requires_pc:
            s.add(a)
        if s.check() == z3.unsat:
            res['vacuous'] = True
        reach = False
        for pc in ex.return_pcs:
            s = z3.Solver()
            s.set('timeout', 3000)
            for a in pc:
                s.add(a)
            if s.check() != z3.unsat:
                reach = True
                break
        if ex.return_pcs and not reach:
            res['vacuous'] = True
        if not ex.return_pcs and not contract.options.get('no_return_ok'):
            res['vacuous'] = True
        for ob in obs:
            discharge(ob, timeout_ms=contract.options.get('timeout_ms'))
            res['obligations'].append(ob_dict(ob, ex))
    except OutOfSubset as e:
        res['status'], res['error'] = 'out-of-subset', str(e)
    except ContractDrift as e:
        res['status'], res['error'] = 'drift', str(e)
    except KeyError as e:
        res['status'], res['error'] = 'missing', str(e)
    except Exception as e:
        res['status'], res['error'] = 'crash', traceback.format_exc()
    res['time'] = round(time.time() - t0, 3)
    return res


def ob_dict(ob, ex=None):
    d = {'id': ob.oid, 'kind': ob.kind, 'line': ob.line, 'status': ob.status, 'backend': ob.backend,
         'time': round(ob.time, 4), 'desc': ob.desc, 'src': ob.src}
    if ob.status != 'proved':
        d['goal'] = str(ob.goal)[:2000]
        if ob.model is not None and ex is not None:
            try:
                inputs = {}
                for name, v in ex.params0.items():
                    inputs[name] = ex.concretize(ex.initial, v, ob.model)
                d['inputs'] = inputs
                d['locals'] = {}
                if ob.state is not None:
                    for name, v in ob.state.env.items():
                        if name not in ex.params0:
                            try:
                                d['locals'][name] = ex.concretize(ob.state, v, ob.model)
                            except Exception:
                                pass
            except Exception as e:   # model extraction is best effort
                d['inputs_error'] = repr(e)
    import json
    return json.loads(json.dumps(d, default=repr))


def custom_result(name, file, func, gen, instance=None):
    """run a property-specific obligation generator `gen() -> (list of Obligation, executor or None)` with the
    same result record / error mapping as run_job"""
    t0 = time.time()
    res = {'contract': name, 'file': file, 'func': func, 'instance': instance or {}, 'obligations': [], 'status': 'ok',
           'error': None, 'paths': 0, 'vacuous': False, 'notes': [], 'src_sha': None, 'time': 0.0}
    try:
        res['src_sha'] = frontend.load(file).sha
        obs, ex = gen()
        for ob in obs:
            if ob.status is None:
                discharge(ob)
            res['obligations'].append(ob_dict(ob, ex))
    except OutOfSubset as e:
        res['status'], res['error'] = 'out-of-subset', str(e)
    except ContractDrift as e:
        res['status'], res['error'] = 'drift', str(e)
    except KeyError as e:
        res['status'], res['error'] = 'missing', str(e)
    except Exception:
        res['status'], res['error'] = 'crash', traceback.format_exc()
    res['time'] = round(time.time() - t0, 3)
    return res


def _inst_repr(inst):
    out = {}
    for k, v in inst.items():
        out[k] = v.value if isinstance(v, S.Const) else (v if isinstance(v, (int, str, bool, type(None))) else type(v).__name__)
    return out


def run_contracts(contracts, procs=None):
    jobs = [(c, k) for c in contracts for k in range(len(c.instances))]
    procs = procs or min(16, max(1, len(jobs)))
    if procs == 1 or len(jobs) == 1:
        return [run_job(j) for j in jobs]
    _set_jobs(jobs)
    ctx = mp.get_context('fork')
    with ctx.Pool(procs) as pool:
        return pool.map(_run_indexed, [(i,) for i in range(len(jobs))], chunksize=1)


_JOBS = None


def _set_jobs(jobs):
    global _JOBS
    _JOBS = jobs
    return True


def _run_indexed(arg):
    return run_job(_JOBS[arg[0]])
