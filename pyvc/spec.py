"""Contract vocabulary: sorts of parameters, Contract / LoopSpec records and logical helpers.

Clauses are python callables over a *view* `s` of the symbolic state: `s.x` is the spec-level value of
program variable / parameter `x` (z3 term, python constant, SpecArr, tuple, SpecObj), `s.old.x` its
value in the pre-state, `s.result` the returned value (in `ensures`)."""
import re

import z3

from .values import (Ref, ArrContent, ListContent, ObjContent, VTuple, VStruct, fresh_name, fresh_arr_data,
                     sort_of_kind, to_z3, arr_select)

And, Or, Not, Implies, If = z3.And, z3.Or, z3.Not, z3.Implies, z3.If
IntVal, RealVal = z3.IntVal, z3.RealVal


def ForAll(names, body, sort='int'):
    """ForAll('i j', lambda i, j: ...) over Int (or Real) variables with fresh names."""
    if isinstance(names, str):
        names = names.split()
    srt = z3.IntSort() if sort == 'int' else z3.RealSort()
    vs = [z3.Const(fresh_name(n), srt) for n in names]
    b = body(*vs)
    if isinstance(b, (list, tuple)):
        b = z3.And(*b)
    return z3.ForAll(vs, b)


def Exists(names, body, sort='int'):
    if isinstance(names, str):
        names = names.split()
    srt = z3.IntSort() if sort == 'int' else z3.RealSort()
    vs = [z3.Const(fresh_name(n), srt) for n in names]
    b = body(*vs)
    if isinstance(b, (list, tuple)):
        b = z3.And(*b)
    return z3.Exists(vs, b)


def in_range(lo, x, hi):
    """lo <= x < hi"""
    return z3.And(to_z3(lo) <= x, x < to_z3(hi))


def conj(x):
    if isinstance(x, (list, tuple)):
        xs = [c[1] if isinstance(c, tuple) else c for c in x]
        xs = [z3.BoolVal(c) if isinstance(c, bool) else c for c in xs]
        return z3.And(*xs) if xs else z3.BoolVal(True)
    if isinstance(x, bool):
        return z3.BoolVal(x)
    return x


def labelled(x, default='c'):
    """normalise a clause result to a list of (label, z3 bool)"""
    if x is None:
        return []
    if not isinstance(x, (list, tuple)) or (isinstance(x, tuple) and len(x) == 2 and isinstance(x[0], str)):
        x = [x]
    out = []
    for k, c in enumerate(x):
        if isinstance(c, tuple) and len(c) == 2 and isinstance(c[0], str):
            lab, f = c
        else:
            lab, f = '%s%d' % (default, k), c
        if isinstance(f, (list, tuple)):
            f = conj(f)
        if isinstance(f, bool):
            f = z3.BoolVal(f)
        out.append((lab, f))
    return out


# ------------------------------------------------------------------------------------------------
# spec-level views of values

class SpecArr:
    def __init__(self, content, ref=None):
        self.content, self.ref = content, ref
        self.shape = content.shape
        self.data = content.data
        self.ndim = len(content.shape)

    @property
    def len(self):
        return self.shape[0]

    def __getitem__(self, idx):
        if not isinstance(idx, tuple):
            idx = (idx,)
        return arr_select(self.data, idx)

    def flat(self, k):
        """row-major flat read of a 2-d array"""
        assert self.ndim == 2
        n1 = to_z3(self.shape[1])
        return arr_select(self.data, (k / n1, k % n1))


class SpecObj:
    def __init__(self, attrs):
        self.__dict__.update(attrs)


# ------------------------------------------------------------------------------------------------
# sorts: descriptions of parameter values; .make(ex, st, name) -> value (may add base assumptions to st.pc)

class Sort:
    def make(self, ex, st, name):
        raise NotImplementedError

    def concretize(self, ex, st, val, model):
        """python value for replay from a z3 model"""
        return ex.concretize(st, val, model)


class Int(Sort):
    def __init__(self, lo=None, hi=None):
        self.lo, self.hi = lo, hi

    def make(self, ex, st, name):
        v = z3.Int(fresh_name(name))
        if self.lo is not None:
            st.pc.append(v >= self.lo)
        if self.hi is not None:
            st.pc.append(v <= self.hi)
        return v


class CInt(Int):
    def __init__(self, bits=32, signed=True):
        if signed:
            Int.__init__(self, -(1 << (bits - 1)), (1 << (bits - 1)) - 1)
        else:
            Int.__init__(self, 0, (1 << bits) - 1)


class Real(Sort):
    def make(self, ex, st, name):
        return z3.Real(fresh_name(name))


class Bool(Sort):
    def make(self, ex, st, name):
        return z3.Bool(fresh_name(name))


class Const(Sort):
    def __init__(self, value):
        self.value = value

    def make(self, ex, st, name):
        return self.value


class Arr(Sort):
    """array of `kind` ('int'|'real'|'bool') with `ndim` axes; `shape` entries may be python ints, None
    (fresh non-negative Int); elem_range = (lo, hi) assumed for every element (e.g. unsigned)"""

    def __init__(self, kind, ndim=1, shape=None, elem_range=None, numpy=False, elem_ctype=None):
        self.kind, self.ndim, self.shape, self.elem_range = kind, ndim, shape, elem_range
        self.numpy, self.elem_ctype = numpy, elem_ctype

    def make(self, ex, st, name):
        shape = []
        for k in range(self.ndim):
            s = self.shape[k] if self.shape is not None else None
            if s is None:
                s = z3.Int(fresh_name('%s.shape%d' % (name, k)))
                st.pc.append(z3.And(s >= 0, s < 2**62))   # array extents fit Py_ssize_t
            shape.append(s)
        data = fresh_arr_data(name, self.kind, self.ndim)
        ref = Ref(name)
        st.heap[ref.id] = ArrContent(shape, data, self.kind, self.elem_ctype, self.numpy)
        if self.elem_range is not None:
            lo, hi = self.elem_range
            idx = [z3.Int(fresh_name('q')) for _ in range(self.ndim)]
            e = arr_select(data, idx)
            st.pc.append(z3.ForAll(idx, z3.And(e >= lo, e <= hi)))
        return ref


class IntSeq(Sort):
    """python list of ints with symbolic length"""

    def make(self, ex, st, name):
        from .values import SeqContent
        n = z3.Int(fresh_name(name + '.len'))
        st.pc.append(n >= 0)
        ref = Ref(name)
        st.heap[ref.id] = SeqContent(n, z3.Const(fresh_name(name), z3.ArraySort(z3.IntSort(), z3.IntSort())), 'seq')
        return ref


class Tup(Sort):
    def __init__(self, *sorts):
        self.sorts = sorts

    def make(self, ex, st, name):
        return VTuple(s.make(ex, st, '%s_%d' % (name, k)) for k, s in enumerate(self.sorts))


class PyList(Sort):
    def __init__(self, *sorts):
        self.sorts = sorts

    def make(self, ex, st, name):
        ref = Ref(name)
        st.heap[ref.id] = ListContent([s.make(ex, st, '%s_%d' % (name, k)) for k, s in enumerate(self.sorts)])
        return ref


class Obj(Sort):
    def __init__(self, **attrs):
        self.attrs = attrs

    def make(self, ex, st, name):
        ref = Ref(name)
        st.heap[ref.id] = ObjContent({a: s.make(ex, st, '%s.%s' % (name, a)) for a, s in self.attrs.items()})
        return ref


class Struct(Sort):
    def __init__(self, sname, **fields):
        self.sname, self.fields = sname, fields

    def make(self, ex, st, name):
        return VStruct(self.sname, {a: s.make(ex, st, '%s.%s' % (name, a)) for a, s in self.fields.items()})


class SetList(Sort):
    """list of sets; elem: 'pair' ((int,int) tuples) or a z3 sort"""

    def __init__(self, elem='pair'):
        self.elem = elem

    def make(self, ex, st, name):
        from .values import SetListContent, Pair
        es = Pair if isinstance(self.elem, str) else self.elem
        n = z3.Int(fresh_name(name + '.len'))
        st.pc.append(n >= 0)
        data = z3.Const(fresh_name(name), z3.ArraySort(z3.IntSort(), z3.ArraySort(es, z3.BoolSort())))
        ref = Ref(name)
        st.heap[ref.id] = SetListContent(n, data, es)
        return ref


class SetOf(Sort):
    """one (immutable) set of elements of a z3 sort"""

    def __init__(self, elem):
        self.elem = elem

    def make(self, ex, st, name):
        from .values import VSetVal
        return VSetVal(z3.Const(fresh_name(name), z3.SetSort(self.elem)), self.elem)


class MapList(Sort):
    def make(self, ex, st, name):
        from .values import MapListContent
        n = z3.Int(fresh_name(name + '.len'))
        st.pc.append(n >= 0)
        has = z3.Const(fresh_name(name + '.has'), z3.ArraySort(z3.IntSort(), z3.ArraySort(z3.IntSort(), z3.BoolSort())))
        val = z3.Const(fresh_name(name + '.val'), z3.ArraySort(z3.IntSort(), z3.ArraySort(z3.IntSort(), z3.IntSort())))
        ref = Ref(name)
        st.heap[ref.id] = MapListContent(n, has, val)
        return ref


class SpecSetList:
    def __init__(self, c):
        self.len, self.data, self.elem_sort = c.length, c.data, c.elem_sort

    def __getitem__(self, k):
        return z3.Select(self.data, to_z3(k))

    def member(self, k, e):
        return z3.Select(z3.Select(self.data, to_z3(k)), e)


class SpecMapList:
    def __init__(self, c):
        self.len, self._has, self._val = c.length, c.has, c.val

    def has(self, p, i):
        return z3.Select(z3.Select(self._has, to_z3(p)), to_z3(i))

    def val(self, p, i):
        return z3.Select(z3.Select(self._val, to_z3(p)), to_z3(i))


class PtrTo(Sort):
    """C pointer to the first element of a fresh array"""

    def __init__(self, arr):
        self.arr = arr

    def make(self, ex, st, name):
        from .values import VPtr
        return VPtr(self.arr.make(ex, st, name), 0)


class Vec(Sort):
    """abstract vector (uninterpreted sort)"""

    def make(self, ex, st, name):
        from .values import fresh_vec
        return fresh_vec(name)


class Fun(Sort):
    """callable parameter modelled as an uninterpreted function Vec^n -> Vec (e.g. the right-hand side F)"""

    def __init__(self, nargs=1, result='vec'):
        self.nargs, self.result = nargs, result

    def make(self, ex, st, name):
        from .values import VecSort, VFunc, to_z3
        res = VecSort if self.result == 'vec' else z3.RealSort()
        f = z3.Function(fresh_name(name), *([VecSort] * self.nargs + [res]))

        def call(ex_, st_, node, *args, **kw):
            return f(*[to_z3(a) for a in args])
        v = VFunc(name, call)
        v.z3fn = f
        return v


class Opaque(Sort):
    def make(self, ex, st, name):
        from .values import VOpaque
        return VOpaque(name)


class Raise:
    """outcome of a callee spec: the call raises"""

    def __init__(self, exc):
        self.exc = exc


class Outcomes:
    """several possible outcomes of a callee spec; each is a value, a Raise, or (assumption, value)"""

    def __init__(self, *alts):
        self.alts = alts


class SpecSeq:
    def __init__(self, content, ref=None):
        self.content, self.ref = content, ref
        self.len = content.length
        self.data = content.data

    def __getitem__(self, i):
        return z3.Select(self.data, to_z3(i))


NoneVal = Const(None)


# ------------------------------------------------------------------------------------------------

class LoopSpec:
    """invariant / variant of one loop.  `match` is a regex that must match the loop's header line in
    the current source (so that silent drift of the code under a contract is detected)."""

    def __init__(self, match, inv=None, dec=None, unroll=False, enter=None, step=None):
        self.match, self.inv, self.dec, self.unroll = match, inv, dec, unroll
        # ghost code: enter(view) -> {ghost name: value} at the start of every iteration (after the loop targets are
        # bound), step(view) -> {...} at its end (before the invariant is re-established)
        self.enter, self.step = enter, step


class Inline:
    """callee that is symbolically executed in place (its loops must be concretely bounded or have
    loop specs given here)"""

    def __init__(self, file, func, loops=None, callees=None):
        self.file, self.func, self.loops, self.callees = file, func, loops or {}, callees or {}


class Contract:
    def __init__(self, file, func, params=None, requires=None, ensures=None, loops=None, instances=None,
                 callees=None, modifies=(), result=None, raises=None, ghost=None, options=None, name=None,
                 notes=None, attrs=None, checks=None, call_requires=None, replace=None):
        self.file, self.func = file, func
        self.params = params or {}
        self.requires, self.ensures = requires, ensures
        self.loops = loops or {}
        self.instances = instances or [{}]
        self.callees = callees or {}
        self.modifies = tuple(modifies)
        self.result = result
        self.raises = raises or {}
        self.ghost = ghost or []
        self.options = options or {}
        self.name = name or '%s:%s' % (re.sub(r'^pyiga/|\.pyx?$|\.pxi$', '', file), func)
        self.notes = notes or []
        self.attrs = attrs or {}
        # checks: [(regex on the source line of a statement, fn(view) -> [(label, formula)])]: obligations that
        # must hold immediately *before* every statement whose line matches (write-time contracts)
        self.checks = checks or []
        # call_requires: the precondition as checked at call sites when `requires` mentions ghost parameters (the ghost
        # parameters are the skolem witnesses of call_requires' existentials)
        self.call_requires = call_requires
        # replace: [(regex on a statement's source line, fn(executor, state))]: the statement is not executed; its effect is
        # given by fn (the statement's contract).  Every use is listed in the evidence as an assumption.
        self.replace = replace or []

    def __repr__(self):
        return '<Contract %s>' % self.name


def vop(opname, *args):
    """the executor's uninterpreted vector operation (same symbol as the one it emits for the program's operator)"""
    from .values import vec_op
    return vec_op(opname, *args)
