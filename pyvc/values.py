"""Symbolic values, heap contents and sort descriptors of the pyvc executor."""
from fractions import Fraction
import itertools

import z3

_counter = itertools.count()


def fresh_name(base):
    return '%s!%d' % (base, next(_counter))


# ------------------------------------------------------------------------------------------------
# scalars: concrete python int / bool / Fraction / None / str, or z3 ArithRef / BoolRef

def is_z3(v):
    return isinstance(v, z3.ExprRef)


def is_int(v):
    return (isinstance(v, int) and not isinstance(v, bool)) or (is_z3(v) and z3.is_int(v))


def is_real(v):
    return isinstance(v, (Fraction, float)) or (is_z3(v) and z3.is_real(v))


def is_bool(v):
    return isinstance(v, bool) or (is_z3(v) and z3.is_bool(v))


def is_num(v):
    return is_int(v) or is_real(v)


def is_concrete(v):
    return not is_z3(v)


def to_z3(v):
    """scalar value -> z3 term"""
    if is_z3(v):
        return v
    if isinstance(v, bool):
        return z3.BoolVal(v)
    if isinstance(v, int):
        return z3.IntVal(v)
    if isinstance(v, Fraction):
        return z3.RealVal(str(v))
    if isinstance(v, float):
        return z3.RealVal(str(Fraction(v)))
    raise TypeError('no z3 term for %r' % (v,))


def to_real(v):
    if is_z3(v):
        return z3.ToReal(v) if z3.is_int(v) else v
    return Fraction(v)


def sort_of_kind(kind):
    return {'int': z3.IntSort(), 'real': z3.RealSort(), 'bool': z3.BoolSort()}[kind]


def kind_of_sort(s):
    if s == z3.IntSort():
        return 'int'
    if s == z3.RealSort():
        return 'real'
    if s == z3.BoolSort():
        return 'bool'
    return 'other'


# ------------------------------------------------------------------------------------------------
# references and heap contents

class Ref:
    """A python/C object with identity (mutable container, array, object).  Content lives in
    State.heap[ref.id]."""
    __slots__ = ('id', 'label')

    def __init__(self, label='obj'):
        self.id = next(_counter)
        self.label = label

    def __repr__(self):
        return '<Ref %s#%d>' % (self.label, self.id)


class ArrContent:
    """n-dimensional array: shape (tuple of int values), data nested z3 array Int->...->elem.
    wrap/bounds semantics are decided at the access site (directives).  `elem_ctype` keeps the C
    element type (for store range obligations) when there is one."""

    def __init__(self, shape, data, kind, elem_ctype=None, numpy=False):
        self.shape = tuple(shape)
        self.data = data
        self.kind = kind
        self.elem_ctype = elem_ctype
        self.numpy = numpy

    def copy(self):
        c = ArrContent(self.shape, self.data, self.kind, self.elem_ctype, self.numpy)
        if getattr(self, 'readonly', False):
            c.readonly = True
        if getattr(self, 'sparse_model', False):
            c.sparse_model = True
        return c

    @property
    def ndim(self):
        return len(self.shape)


def arr_sort(kind, ndim):
    s = sort_of_kind(kind) if isinstance(kind, str) else kind
    for _ in range(ndim):
        s = z3.ArraySort(z3.IntSort(), s)
    return s


def fresh_arr_data(name, kind, ndim):
    return z3.Const(fresh_name(name), arr_sort(kind, ndim))


def arr_select(data, idx):
    for i in idx:
        data = z3.Select(data, to_z3(i))
    return data


def arr_store(data, idx, val):
    idx = [to_z3(i) for i in idx]
    if len(idx) == 1:
        return z3.Store(data, idx[0], val)
    inner = z3.Select(data, idx[0])
    return z3.Store(data, idx[0], arr_store(inner, idx[1:], val))


class ListContent:
    """python list of concrete length"""

    def __init__(self, items):
        self.items = list(items)

    def copy(self):
        return ListContent(self.items)


class SeqContent:
    """python list / 1-d sequence of symbolic length with z3 elements"""

    def __init__(self, length, data, kind):
        self.length, self.data, self.kind = length, data, kind

    def copy(self):
        return SeqContent(self.length, self.data, self.kind)


class SetContent:
    """python set as characteristic function z3 Array(elem -> Bool)"""

    def __init__(self, data, elem_sort):
        self.data, self.elem_sort = data, elem_sort

    def copy(self):
        return SetContent(self.data, self.elem_sort)


class DictContent:
    """python dict: keys (Array K->Bool) and vals (Array K->V).  V may be a z3 sort or 'ref' table"""

    def __init__(self, keys, vals, key_sort, val_sort):
        self.keys, self.vals, self.key_sort, self.val_sort = keys, vals, key_sort, val_sort

    def copy(self):
        return DictContent(self.keys, self.vals, self.key_sort, self.val_sort)


class CDictContent:
    """python dict with concrete (hashable python) keys and arbitrary model values"""

    def __init__(self, items=None):
        self.items = dict(items or {})

    def copy(self):
        c = CDictContent(self.items)
        if getattr(self, 'unknown', False):
            c.unknown = True
        return c


class ObjContent:
    def __init__(self, attrs, cls=None):
        self.attrs = dict(attrs)
        self.cls = cls

    def copy(self):
        return ObjContent(self.attrs, self.cls)


class VTuple(tuple):
    """immutable python tuple of values"""
    pass


class VPtr:
    """C pointer into an array: base ref + flat (row-major) offset"""

    def __init__(self, ref, offset=0):
        self.ref, self.offset = ref, offset

    def __repr__(self):
        return '<Ptr %r+%s>' % (self.ref, self.offset)


class VRange:
    def __init__(self, lo, hi, step=1):
        self.lo, self.hi, self.step = lo, hi, step


class VStruct:
    """C struct value (by value semantics): dict of fields"""

    def __init__(self, name, fields):
        self.name, self.fields = name, dict(fields)

    def copy(self):
        return VStruct(self.name, self.fields)


class VOpaque:
    """a value the executor does not model (result of an unmodelled call); using it in arithmetic or
    control flow makes the function out-of-subset"""

    def __init__(self, what):
        self.what = what

    def __repr__(self):
        return '<Opaque %s>' % self.what


class VFunc:
    """callable known to the executor"""

    def __init__(self, name, fn):
        self.name, self.fn = name, fn


class VModule:
    def __init__(self, name):
        self.name = name


# ------------------------------------------------------------------------------------------------
# abstract vectors / unmodelled numeric objects: an uninterpreted sort; arithmetic on them is an
# uninterpreted (hence deterministic, otherwise unconstrained) function of the operands

VecSort = z3.DeclareSort('Vec')


def is_vec(v):
    return is_z3(v) and v.sort() == VecSort


def fresh_vec(name='v'):
    return z3.Const(fresh_name(name), VecSort)


_vec_ops = {}


def vec_op(opname, *args):
    """uninterpreted operation over Vec / Real / Int operands"""
    zs = []
    for a in args:
        if isinstance(a, VOpaque) or a is None:
            return fresh_vec(opname)
        zs.append(to_z3(a))
    key = (opname,) + tuple(str(z.sort()) for z in zs)
    if key not in _vec_ops:
        _vec_ops[key] = z3.Function('%s_%d' % (opname, len(_vec_ops)), *([z.sort() for z in zs] + [VecSort]))
    return _vec_ops[key](*zs)


norm_fn = z3.Function('norm', VecSort, z3.RealSort())
vlen_fn = z3.Function('vlen', VecSort, z3.IntSort())


# ------------------------------------------------------------------------------------------------
# containers of containers with symbolic index: list of sets, list of dicts (int -> int)

_INT_TUPLES = {}


def int_tuple_sort(n):
    """datatype of n-tuples of integers (one constructor `mk`, accessors c0..c{n-1})"""
    if n not in _INT_TUPLES:
        d = z3.Datatype('IntTup%d' % n)
        d.declare('mk', *[('c%d' % k, z3.IntSort()) for k in range(n)])
        _INT_TUPLES[n] = d.create()
    return _INT_TUPLES[n]


def tuple_components(e):
    """the components of a term of a single-constructor datatype sort, as z3 terms"""
    srt = e.sort()
    ctor = srt.constructor(0)
    return [srt.accessor(0, k)(e) for k in range(ctor.arity())]


Pair = z3.Datatype('Pair')
Pair.declare('mk', ('p', z3.IntSort()), ('i', z3.IntSort()))
Pair = Pair.create()


class SetListContent:
    """python list (symbolic length) of sets of `elem_sort` elements: data : Int -> (elem -> Bool)"""

    def __init__(self, length, data, elem_sort):
        self.length, self.data, self.elem_sort = length, data, elem_sort

    def copy(self):
        return SetListContent(self.length, self.data, self.elem_sort)


class MapListContent:
    """python list (symbolic length) of dicts int -> int: has : Int -> (Int -> Bool), val : Int -> (Int -> Int)"""

    def __init__(self, length, has, val):
        self.length, self.has, self.val = length, has, val

    def copy(self):
        return MapListContent(self.length, self.has, self.val)


class VSetView:
    """the set stored at index `idx` of a SetListContent (a mutable object: stores go to the list)"""

    def __init__(self, ref, idx):
        self.ref, self.idx = ref, idx


class VMapView:
    def __init__(self, ref, idx):
        self.ref, self.idx = ref, idx


class VSetVal:
    """an immutable set value (result of a set expression)"""

    def __init__(self, arr, elem_sort):
        self.arr, self.elem_sort = arr, elem_sort


class VNested:
    """nested function definition (closure over the enclosing frame)"""

    def __init__(self, node):
        self.node = node


class VRowRange:
    """a[lo:hi] of a sequence / the leading axis of an array, bounds already clipped to [0, len]"""

    def __init__(self, ref, lo, hi):
        self.ref, self.lo, self.hi = ref, lo, hi


class VArrView:
    """a[i0,...,ik, :, ..., :] -- a writable view of the trailing axes of an array"""

    def __init__(self, ref, prefix):
        self.ref, self.prefix = ref, tuple(prefix)
