"""Dataflow obligation shared by several properties: no parameter of a library function is silently ignored.

For every function of the given files: each parameter is read somewhere in the body.  A parameter that is never read although the body
calls a function that HAS a parameter of the same name is the signature of a dropped pass-through (`layout`, `quadgrid`, `maxiter`, ...):
refuted.  Any other unread parameter is reported as undecided (it may be a deliberate no-op), never as a violation.  The unread parameters
of the pinned tree are listed as the baseline and generate no obligation (they are pre-existing and documented in DESIGN.md)."""
import ast

from . import frontend
from .symexec import Obligation

# (file, function, parameter): unread on the pinned tree
BASELINE = {('pyiga/assemble.py', '_assemble_hspace', 'layout'), ('pyiga/solvers.py', 'solve_hmultigrid', 'smooth_steps'),
            ('pyiga/solvers.py', 'rosenbrock_step', 'data'), ('pyiga/solvers.py', 'rosenbrock_step', 'Fx'), ('pyiga/operators.py', '_matvec', 'x'),
            ('pyiga/vform.py', 'make_var_expr', 'vf'), ('pyiga/vform.py', 'is_constant', 'val'), ('pyiga/vform.py', '_dx_impl', 'k'),
            ('pyiga/vform.py', '_dx_impl', 'parametric'), ('pyiga/compile.py', '_compile_cython_module_nocache', 'verbose'),
            ('pyiga/mlmatrix.py', 'reindex_from_reordered', 'm1')}


def obligations(files, prefix):
    def run():
        obs = []
        nfun = 0
        for f in files:
            src = frontend.load(f)
            tree = src.tree if hasattr(src, 'tree') else ast.parse(open(src.path).read())
            sigs = {}
            for n in ast.walk(tree):
                if isinstance(n, ast.FunctionDef):
                    sigs.setdefault(n.name, set()).update(a.arg for a in n.args.args + n.args.kwonlyargs)
            for n in ast.walk(tree):
                if not isinstance(n, ast.FunctionDef):
                    continue
                real = [s for s in n.body if not (isinstance(s, ast.Expr) and isinstance(s.value, ast.Constant))]
                if not real or all(isinstance(s, (ast.Pass, ast.Raise)) for s in real):
                    continue
                nfun += 1
                params = [a.arg for a in n.args.args + n.args.kwonlyargs if a.arg not in ('self', 'cls')]
                body = ast.Module(body=n.body, type_ignores=[])
                used = {x.id for x in ast.walk(body) if isinstance(x, ast.Name)}
                called = set()
                for x in ast.walk(body):
                    if isinstance(x, ast.Call):
                        called.add(x.func.id if isinstance(x.func, ast.Name) else (x.func.attr if isinstance(x.func, ast.Attribute) else None))
                for p in params:
                    if p in used or (f, n.name, p) in BASELINE:
                        continue
                    takers = sorted(g for g in called if g in sigs and p in sigs[g] and g != n.name)
                    o = Obligation('%s:%s:reads-parameter:%s' % (prefix, n.name, p), 'rule', n.lineno, [], None,
                                   'parameter `%s` of %s (%s) is read in the body' % (p, n.name, f), src=f)
                    o.status = 'refuted' if takers else 'unknown'
                    o.backend, o.time = 'ast-dataflow (parameter use)', 0.0
                    o.goal = ('`%s` is never read, although the body calls %s, which take(s) a parameter of that name: a dropped pass-through' % (p, takers)
                              if takers else '`%s` is never read in the body' % p)
                    obs.append(o)
        o = Obligation('%s:every-parameter-is-read' % prefix, 'rule', 0, [], None,
                       'every parameter of the %d functions of %s is read in its body (baseline exceptions: %d, listed in pyvc/paramuse.py)' % (
                           nfun, ', '.join(files), len([b for b in BASELINE if b[0] in files])), src=files[0])
        o.status, o.backend, o.time = ('proved' if not obs else 'unknown'), 'ast-dataflow (parameter use)', 0.0
        if obs:
            o.goal = '%d unread parameter(s), see the individual obligations' % len(obs)
        if nfun == 0:
            raise KeyError('no functions found in %r' % (files,))
        return obs + [o], None
    return run
