"""Replay of solver counter-models on the real code.

For contracts whose function is callable from Python with plain inputs, the concretised counter-model is handed to an oracle in
bounded/replay_oracles.py that runs in the scratch build of the working tree: it calls the real function and evaluates the violated
clause of the contract in plain Python.  Outcome:
    reproduced = True                  the real code misbehaves on this input: the VIOLATION line carries the input (replay file)
    reproduced = False, decisive=True  the input is valid for the oracle and the real code behaves: the encoding is wrong (checker error)
    reproduced = False, decisive=False the oracle could not decide (input outside what it can rebuild): reported without an input"""
import json
import os
import tempfile

from . import native

# contract-name prefix -> oracle name
ORACLES = {
    'assemble_tools_cy:chunk_tasks': 'chunk_tasks',
    'bspline_cy:pyx_findspan': 'pyx_findspan',
    'bspline:KnotVector.findspan': 'kv_findspan',
    'bspline:knot_insertion': 'knot_insertion',
    'hierarchical:_position_index': 'position_index',
    'mlmatrix:to_seq': 'to_seq',
    'mlmatrix_cy:to_seq': 'to_seq',
}


def replay(result, ob):
    name = result['contract']
    oracle = None
    for pre, orc in ORACLES.items():
        if name.startswith(pre):
            oracle = orc
    if oracle is None or not isinstance(ob.get('inputs'), dict):
        return None
    payload = {'oracle': oracle, 'inputs': ob['inputs'], 'obligation': ob['id'], 'instance': result.get('instance')}
    cp, info = native.run_native('bounded.replay_oracles', [], input_json=json.dumps(payload, default=str), timeout=120)
    last = [ln for ln in cp.stdout.strip().splitlines() if ln.startswith('{')]
    if not last:
        return {'reproduced': False, 'decisive': False, 'note': 'oracle produced no result: %s' % (cp.stdout + cp.stderr)[-500:]}
    out = json.loads(last[-1])
    out['oracle'] = oracle
    return out
