"""Property-level driver: proof tier + bounded tier + verdict mapping + evidence + replay files.

Exit codes: 0 held (known findings printed) / 1 violation (VIOLATION line) / 2 undecided with no stand-in /
3 checker crash.  `unknown`, time-outs and tracebacks are never mapped to a violation."""
import hashlib
import importlib
import json
import os
import sys
import time
import traceback

from . import solve, native, REPO

VERIF = os.path.dirname(os.path.dirname(os.path.abspath(__file__)))
# mutant runs (tools/mutcheck) write their evidence and replay files elsewhere, so that /verif/evidence always describes /repo
OUT = os.environ.get('PYIGA_VERIF_OUT', VERIF)
EVID = os.path.join(OUT, 'evidence')
REPLAYS = os.path.join(OUT, 'replays')
KNOWN = os.path.join(VERIF, 'known_findings.json')

BASE_ASSUMPTIONS = [
    'python int and C integers are mathematical integers; C ranges are checked only at stores into C-typed variables/array elements',
    'double/float treated as the real field (no rounding, no NaN/Inf) in every discharged obligation',
    'distinct array parameters do not alias; a function modifies only what it syntactically assigns',
    'z3 5.1 / cvc5 1.0 are sound; the pyvc front end (Cython parser -> python ast) and symbolic executor are trusted '
    '(cross-checked by the bounded tier on the real compiled code and by the seeded-mutation runs recorded in DESIGN.md)',
]


def load_known():
    try:
        with open(KNOWN) as f:
            return json.load(f)
    except FileNotFoundError:
        return {'findings': [], 'fixed': []}


def known_match(known, prop, key):
    for k in known.get('findings', []):
        if k.get('property') == prop and k.get('key') == key:
            return k
    return None


def write_replay(prop, key, payload):
    os.makedirs(REPLAYS, exist_ok=True)
    h = hashlib.sha256((prop + key).encode()).hexdigest()[:10]
    safe = ''.join(ch if ch.isalnum() or ch in '-_.' else '_' for ch in key)[:80]
    path = os.path.join(REPLAYS, '%s-%s-%s.json' % (prop, safe, h))
    with open(path, 'w') as f:
        json.dump(payload, f, indent=1, default=str)
    return path


def run_property(prop, tier, seed):
    t0 = time.time()
    mod = importlib.import_module('props.' + prop)
    known = load_known()
    out_lines = []
    violations = []      # (key, replay_path, no_input)
    known_hits = []
    undecided = []
    assumptions = list(BASE_ASSUMPTIONS) + list(getattr(mod, 'ASSUMPTIONS', []))

    # ------------------------------------------------------------------ proof tier
    contracts = mod.contracts(tier) if hasattr(mod, 'contracts') else []
    results = solve.run_contracts(contracts) if contracts else []
    extra = mod.extra_obligations(tier) if hasattr(mod, 'extra_obligations') else []
    # extra: list of dicts like run_job results (produced by property-specific generators: ratnf, tables, ...)
    results = list(results) + list(extra)
    n_ob = n_dis = 0
    by_backend = {}
    solver_s = 0.0
    functions = []
    samples = []
    failed = []          # obligations not proved
    crashed = []
    fallback_funcs = set()
    for r in results:
        fid = '%s %s' % (r['contract'], json.dumps(r['instance'], sort_keys=True)) if r['instance'] else r['contract']
        functions.append(fid)
        for n in r.get('notes', []):
            assumptions.append('%s: %s' % (r['contract'], n))
        if r['status'] == 'crash':
            crashed.append(r)
            continue
        if r['status'] in ('out-of-subset', 'drift', 'missing'):
            undecided.append({'contract': r['contract'], 'why': r['status'], 'detail': r['error']})
            fallback_funcs.add(r['contract'])
            continue
        if r['vacuous'] and all(o['status'] == 'proved' for o in r['obligations']):
            # everything "proved" although no exit is reachable: the contract is contradictory (a checker defect).  When an
            # obligation fails, an unreachable exit is merely the assumed invariant contradicting the changed code.
            crashed.append(dict(r, error='vacuous contract: precondition unsatisfiable or no reachable exit'))
            continue
        if not r['obligations']:
            crashed.append(dict(r, error='zero obligations generated'))
            continue
        for o in r['obligations']:
            if o['status'] != 'proved' and known_match(known, prop, o['id']) is not None:
                failed.append((r, o))     # a listed known finding: reported as such, not counted as an obligation to discharge
                continue
            n_ob += 1
            solver_s += o['time']
            if o['status'] == 'proved':
                n_dis += 1
                by_backend[o['backend']] = by_backend.get(o['backend'], 0) + 1
                if len(samples) < 6 and o['kind'] in ('post', 'inv-preserve', 'table', 'rule'):
                    samples.append({'obligation': o['id'], 'desc': o['desc'], 'src': o.get('src', ''), 'backend': o['backend']})
            else:
                failed.append((r, o))
    if not samples and results:
        for r in results:
            for o in r['obligations'][:3]:
                samples.append({'obligation': o['id'], 'desc': o['desc'], 'backend': o['backend']})
            if samples:
                break

    # ------------------------------------------------------------------ bounded tier (native, real code)
    bounded = None
    bounded_err = None
    if hasattr(mod, 'BOUNDED_MODULE'):
        try:
            cp, binfo = native.run_native(mod.BOUNDED_MODULE, ['--tier', tier, '--seed', str(seed)],
                                          timeout=getattr(mod, 'BOUNDED_TIMEOUT', {}).get(tier, 1500))
            last = cp.stdout.strip().splitlines()[-1] if cp.stdout.strip() else ''
            try:
                bounded = json.loads(last)
            except Exception:
                if cp.returncode < 0:
                    # the real compiled code crashed the interpreter (signal): memory unsafety is a violation by itself
                    key = 'native-crash:signal%d' % (-cp.returncode)
                    if known_match(known, prop, key) is None:
                        payload = {'property': prop, 'kind': 'native-crash', 'key': key, 'module': mod.BOUNDED_MODULE,
                                   'signal': -cp.returncode, 'output': (cp.stdout + cp.stderr)[-3000:],
                                   'note': 'the bounded tier process running the real code was killed by a signal'}
                        violations.append((key, write_replay(prop, key, payload), False))
                else:
                    bounded_err = 'bounded tier produced no result (exit %s): %s' % (cp.returncode, (cp.stdout + cp.stderr)[-3000:])
            if bounded is not None:
                bounded['build'] = binfo
        except Exception as e:
            bounded_err = 'bounded tier could not run: %s' % traceback.format_exc()[-3000:]

    # ------------------------------------------------------------------ verdicts
    # 1. bounded failures: real failing inputs on the real code
    if bounded is not None:
        for fl in bounded.get('failures', []):
            key = fl['id']
            k = known_match(known, prop, key)
            if k is not None:
                known_hits.append((key, k['what']))
                continue
            payload = {'property': prop, 'kind': 'bounded', 'key': key, 'module': mod.BOUNDED_MODULE, 'case': fl,
                       'note': 'failing input on the real compiled code; re-run with ./check replay <this file>'}
            violations.append((key, write_replay(prop, key, payload), False))
    # 2. failed proof obligations
    downgraded = []
    for (r, o) in failed:
        key = o['id']
        k = known_match(known, prop, key)
        if k is not None:
            known_hits.append((key, k['what']))
            continue
        covered = bounded is not None and (r['contract'] in bounded.get('covers', []) or '*' in bounded.get('covers', []))
        if o['status'] == 'refuted':
            # solver counter-model.  If the bounded tier already produced a real failing input for this
            # property, that one is the replayable witness; else report the failed obligation itself.
            payload = {'property': prop, 'kind': 'obligation', 'key': key, 'obligation': o, 'contract': r['contract'],
                       'file': r['file'], 'func': r['func'], 'src_sha': r['src_sha'], 'solver': o['backend'],
                       'solver_output': 'sat', 'counter_model_inputs': o.get('inputs'), 'counter_model_locals': o.get('locals')}
            replayed = None
            if o.get('inputs') is not None:
                try:
                    from . import modelreplay
                    replayed = mod.replay_model(r, o) if hasattr(mod, 'replay_model') else modelreplay.replay(r, o)
                except Exception:
                    replayed = {'error': traceback.format_exc()[-2000:]}
                payload['native_replay'] = replayed
            if replayed is not None and replayed.get('reproduced') is False and replayed.get('decisive'):
                # the model does not reproduce on the real code: encoding error, not a violation
                crashed.append(dict(r, error='counter-model of %s does not reproduce natively: %r' % (key, replayed)))
                continue
            no_input = not (replayed and replayed.get('reproduced'))
            if no_input and any(not v[2] for v in violations):
                # a real failing input for this property is already reported
                payload['see_also'] = [v[1] for v in violations if not v[2]]
            violations.append((key, write_replay(prop, key, payload), no_input))
        else:
            if covered:
                downgraded.append(key)
            else:
                undecided.append({'contract': r['contract'], 'obligation': key, 'why': 'solver unknown', 'detail': o.get('goal', '')[:300]})
    for u in list(undecided):
        c = u['contract']
        if bounded is not None and (c in bounded.get('covers', []) or '*' in bounded.get('covers', [])):
            downgraded.append('%s (%s)' % (c, u['why']))
            undecided.remove(u)

    # ------------------------------------------------------------------ evidence
    wall = time.time() - t0
    level = getattr(mod, 'LEVEL', 'proof')
    # obligations the solvers left undecided and the bounded tier took over are listed separately, not counted as
    # obligations of the proof-level claim (they are not proved and not refuted)
    n_soft = len([1 for (r_, o_) in failed if o_['status'] == 'unknown' and known_match(known, prop, o_['id']) is None])
    cov = {
        'obligations': n_ob - n_soft, 'discharged': n_dis, 'solver_undecided_obligations': n_soft,
        'checker_cmd': './check %s %s' % (prop, tier),
        'trusted_base': ['z3 5.1.0 (python API)', '/usr/bin/cvc5 1.0.3 (only for z3 unknowns)', 'Cython 3.3.0 parser',
                         'pyvc symbolic executor (this directory)'] + list(getattr(mod, 'TRUSTED', [])),
        'functions_under_contract': functions,
        'by_backend': by_backend, 'solver_seconds': round(solver_s, 2),
        'samples': samples or [{'note': 'no obligation sample'}],
        'known_findings_hit': [k for k, _ in known_hits],
        'downgraded_to_bounded': downgraded,
        'undecided': undecided,
        'failed_obligations': [o['id'] for _, o in failed],
        'explanation': getattr(mod, 'EXPLANATION', ''),
    }
    if bounded is not None:
        cov['bounded'] = {k: bounded.get(k) for k in ('domain', 'evaluations', 'distinct_nontrivial', 'rule', 'covers', 'build', 'seconds')}
        cov['bounded']['samples'] = bounded.get('samples', [])[:5]
        cov['bounded']['failures'] = [f['id'] for f in bounded.get('failures', [])]
        cov['evaluations'] = int(bounded.get('evaluations', 0))
        cov['distinct_nontrivial'] = int(bounded.get('distinct_nontrivial', 0))
        cov['rule'] = 'bounded tier (NOT counted as proved): ' + str(bounded.get('rule', ''))
    if bounded_err:
        cov['bounded_error'] = bounded_err
    ev = {'property_id': prop, 'tier': tier, 'seed': int(seed), 'level': level, 'coverage': cov,
          'assumptions': sorted(set(assumptions)), 'wall_s': round(wall, 2), 'violations': len(violations)}
    os.makedirs(EVID, exist_ok=True)
    with open(os.path.join(EVID, prop + '.json'), 'w') as f:
        json.dump(ev, f, indent=1, default=str)

    # ------------------------------------------------------------------ report
    print('%s %s: %d functions under contract, %d/%d obligations discharged %s in %.1fs solver time; wall %.1fs'
          % (prop, tier, len(functions), n_dis, n_ob, by_backend, solver_s, wall))
    if bounded is not None:
        print('%s bounded tier (not counted as proved): %s evaluations, %s distinct non-trivial, %d failures'
              % (prop, bounded.get('evaluations'), bounded.get('distinct_nontrivial'), len(bounded.get('failures', []))))
    for key, what in known_hits:
        print('KNOWN-FINDING: property=%s %s %s' % (prop, key, what))
    if downgraded:
        print('%s downgraded to bounded (undecided by the solvers; the verdict for these comes from the bounded tier): %s' % (prop, downgraded))
    if crashed or bounded_err:
        for c in crashed:
            print('CHECKER-ERROR %s: %s' % (c['contract'], c['error']), file=sys.stderr)
        if bounded_err:
            print('CHECKER-ERROR bounded: ' + bounded_err, file=sys.stderr)
        if not violations:
            return 3
    if violations:
        for key, path, no_input in violations:
            print('VIOLATION property=%s replay=%s%s' % (prop, path, ' no-failing-input-found' if no_input else ''))
        return 1
    if undecided:
        for u in undecided:
            print('UNDECIDED %s' % json.dumps(u), file=sys.stderr)
        return 2
    print('OK property=%s' % prop)
    return 0


def replay(path):
    with open(path) as f:
        payload = json.load(f)
    prop = payload['property']
    if payload['kind'] == 'bounded':
        cp, info = native.run_native(payload['module'], ['--replay', path])
        sys.stdout.write(cp.stdout)
        sys.stderr.write(cp.stderr)
        return cp.returncode
    if payload['kind'] == 'native-crash':
        cp, info = native.run_native(payload['module'], ['--tier', 'quick', '--seed', '0'])
        if cp.returncode < 0:
            print('REPRODUCED: native process killed by signal %d' % (-cp.returncode))
            print('VIOLATION property=%s replay=%s' % (prop, path))
            return 1
        print('not reproduced on the current tree')
        return 0
    print(json.dumps({k: payload.get(k) for k in ('property', 'key', 'solver', 'solver_output', 'counter_model_inputs', 'native_replay')}, indent=1, default=str))
    if (payload.get('native_replay') or {}).get('reproduced'):
        # the solver's counter-model was reproduced on the real code: run the same input again on the current tree
        from . import modelreplay
        out = modelreplay.replay({'contract': payload.get('contract'), 'instance': None}, {'inputs': payload.get('counter_model_inputs'), 'id': payload['key']})
        if out and out.get('reproduced'):
            print('REPRODUCED on the real code: %s' % out.get('observed'))
            print('VIOLATION property=%s replay=%s' % (prop, path))
            return 1
        print('counter-model input not reproduced on the current tree: %s' % (out or {}).get('observed'))
    # an obligation replay: re-run the property's proof tier and report whether the obligation still fails
    mod = importlib.import_module('props.' + prop)
    contracts = [c for c in mod.contracts('quick') if c.name == payload.get('contract')]
    res = solve.run_contracts(contracts) if contracts else []
    res += [r for r in (mod.extra_obligations('quick') if hasattr(mod, 'extra_obligations') else []) if r['contract'] == payload.get('contract')]
    still = [o for r in res for o in r['obligations'] if o['id'] == payload['key'] and o['status'] != 'proved']
    print('obligation %s: %s' % (payload['key'], 'still fails on the current tree' if still else 'holds on the current tree'))
    return 1 if still else 0


def main(argv):
    if len(argv) >= 2 and argv[0] == 'replay':
        return replay(argv[1])
    if len(argv) >= 1 and argv[0] == 'clean':
        native.clean()
        return 0
    prop = argv[0]
    tier = argv[1] if len(argv) > 1 else os.environ.get('VERIF_TIER', 'quick')
    seed = int(os.environ.get('VERIF_SEED', '0') or 0)
    if tier == 'thorough':
        os.environ.setdefault('PYVC_SYMPY_LIMIT_S', '240')      # read when pyvc.exprsem is imported (by the contract modules)
    try:
        return run_property(prop, tier, seed)
    except Exception:
        traceback.print_exc()
        return 3


if __name__ == '__main__':
    sys.exit(main(sys.argv[1:]))
