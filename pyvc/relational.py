"""Relational obligations over two executions of the same real function (symmetry, reflexivity)."""
import z3

from . import frontend, spec as S
from .symexec import Executor, Obligation, State
from .values import to_z3


def _run(contract, init):
    fn = frontend.load(contract.file).find(contract.func)
    ex = Executor(fn, contract)
    obs = ex.run(init=init)
    return ex, obs


def symmetric_and_reflexive(contract, make_two, argnames=('self', 'other')):
    """obligations: f(A,B) == f(B,A) for all A,B admitted by `make_two(ex, st) -> (A, B)`, and f(A,A) is True.
    The function's own safety obligations on both runs are included."""
    shared = {}

    def init_ab(ex, st):
        a, b = make_two(ex, st)
        shared['a'], shared['b'], shared['st'] = a, b, st.fork()
        st.env[argnames[0]], st.env[argnames[1]] = a, b

    def init_ba(ex, st):
        s0 = shared['st']
        st.env, st.heap, st.pc = {}, {k: v.copy() for k, v in s0.heap.items()}, list(s0.pc)
        st.env[argnames[0]], st.env[argnames[1]] = shared['b'], shared['a']

    def init_aa(ex, st):
        s0 = shared['st']
        st.env, st.heap, st.pc = {}, {k: v.copy() for k, v in s0.heap.items()}, list(s0.pc)
        st.env[argnames[0]], st.env[argnames[1]] = shared['a'], shared['a']

    ex1, obs1 = _run(contract, init_ab)
    ex2, obs2 = _run(contract, init_ba)
    ex3, obs3 = _run(contract, init_aa)
    obs = list(obs1)
    line = ex1.fn.lineno
    k = 0
    for (s1, r1) in ex1.returns:
        for (s2, r2) in ex2.returns:
            pc = list(s1.pc) + [c for c in s2.pc if not any(c.eq(d) for d in s1.pc)]
            goal = to_z3(r1) == to_z3(r2)
            obs.append(Obligation('%s:post:symmetric%s' % (contract.name, '#%d' % k if k else ''), 'post', line, pc, goal,
                                  'f(a,b) == f(b,a)', state=None, src='def %s' % contract.func))
            k += 1
    k = 0
    for (s3, r3) in ex3.returns:
        obs.append(Obligation('%s:post:reflexive%s' % (contract.name, '#%d' % k if k else ''), 'post', line, list(s3.pc),
                              to_z3(r3) == z3.BoolVal(True), 'f(a,a) is True', state=None, src='def %s' % contract.func))
        k += 1
    return obs, None
