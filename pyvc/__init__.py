"""pyvc -- a small contract-based deductive verifier for the Python/Cython subset used by pyiga.

Front ends read /repo's *current* source on every run (Python `ast`, Cython's own parser), lower it
to Python `ast` + C type table, a symbolic executor generates verification conditions against
sidecar contracts, z3 (and cvc5 for z3's unknowns) discharges them.
"""
import os

REPO = os.environ.get('PYIGA_REPO', '/repo')
