#!/bin/sh
# Builds /verif/.venv: a 3.12 venv overlaying /venv (numpy, scipy, Cython, pyiga editable) with the
# offline wheelhouse's z3-solver, cvc5, sympy, jsonschema.  Idempotent; offline.
set -e
cd "$(dirname "$0")"
V=.venv
if [ -x "$V/bin/python" ] && "$V/bin/python" -c "import z3, sympy, jsonschema, numpy, Cython" 2>/dev/null; then
    exit 0
fi
rm -rf "$V"
/venv/bin/python -m venv "$V"
SP=$("$V/bin/python" -c "import site; print(site.getsitepackages()[0])")
echo "import site; site.addsitedir('/venv/lib/python3.12/site-packages')" > "$SP/_overlay_venv.pth"
PIP_NO_INDEX=1 "$V/bin/python" -m pip install -q --no-index --find-links /opt/veriftools/wheels z3-solver cvc5 sympy jsonschema
"$V/bin/python" -c "import z3, sympy, jsonschema, numpy, Cython; print('venv ok', z3.get_version_string())"
