"""Contracts for pyiga/bspline.py (the integer/index part; numeric routes are bounded)"""
import z3
from pyvc.spec import *
from .common import open_kv, sorted_leq
from . import bspline_cy

F = 'pyiga/bspline.py'

KV = lambda: Obj(kv=Arr('real', 1, numpy=True), p=Int(0))

first_active = Contract(F, 'KnotVector.first_active', params={'self': KV(), 'k': Int()},
                        ensures=lambda s: [('value', s.result == s.k - s.self.p)], result=Int())

support_idx = Contract(F, 'KnotVector.support_idx', params={'self': KV(), 'j': Int()},
                       ensures=lambda s: [('lo', s.result[0] == s.j), ('hi', s.result[1] == s.j + s.self.p + 1)])

numdofs = Contract(F, 'KnotVector.numdofs', params={'self': KV()},
                   ensures=lambda s: [('value', s.result == s.self.kv.len - s.self.p - 1)])


def _fs_req(s):
    kv, p, u = s.self.kv, s.self.p, s.u
    n = kv.len
    return open_kv(kv, p) + [sorted_leq(kv), n <= 2**31 - 1, kv[p] <= u, u <= kv[n - p - 1]]


findspan_m = Contract(F, 'KnotVector.findspan', params={'self': KV(), 'u': Real()},
                      requires=_fs_req,
                      ensures=lambda s: bspline_cy.findspan_post(s.self.kv, s.self.p, s.u, s.result),
                      callees={'pyx_findspan': bspline_cy.findspan}, result=Int())

first_active_at = Contract(F, 'KnotVector.first_active_at', params={'self': KV(), 'u': Real()},
                           requires=_fs_req,
                           ensures=lambda s: [('range', And(0 <= s.result, s.result <= s.self.kv.len - 2 * s.self.p - 2)),
                                              ('span', And(s.self.kv[s.result + s.self.p] <= s.u,
                                                           s.self.kv[s.result + s.self.p] < s.self.kv[s.result + s.self.p + 1]))],
                           callees={'self.findspan': findspan_m, 'self.first_active': first_active}, result=Int())

eq = Contract(F, 'KnotVector.__eq__')


def eq_two(ex, st):
    a = KV().make(ex, st, 'a')
    b = KV().make(ex, st, 'b')
    return a, b


CONTRACTS = [first_active, support_idx, numdofs, findspan_m, first_active_at]
