"""Contracts for pyiga/mlmatrix.py"""
import z3
from pyvc.spec import *
from . import mlmatrix_cy as cy
from .mlmatrix_cy import horner, _prod, bidx_sort, wf_level

F = 'pyiga/mlmatrix.py'

# python versions of the index maps ---------------------------------------------------------------

reindex_from_reordered = Contract(
    F, 'reindex_from_reordered', name='mlmatrix:reindex_from_reordered',
    params={'i': Int(0), 'j': Int(0), 'm1': Int(1), 'n1': Int(1), 'm2': Int(1), 'n2': Int(1),
            'g_b0': Int(0), 'g_b1': Int(0), 'g_i0': Int(0), 'g_i1': Int(0)},
    requires=lambda s: [s.i == s.g_b0 * s.n1 + s.g_b1, s.g_b1 < s.n1, s.g_b0 < s.m1,
                        s.j == s.g_i0 * s.n2 + s.g_i1, s.g_i1 < s.n2, s.g_i0 < s.m2],
    ensures=cy._rfr_post,
    options={'timeout_ms': 60000},
)


def _toseq(L):
    return Contract(
        F, 'to_seq', name='mlmatrix:to_seq[L=%d]' % L,
        params={'I': Tup(*[Int(0) for _ in range(L)]), 'dims': Tup(*[Int(1) for _ in range(L)])},
        requires=lambda s: [And(*[s.I[k] < s.dims[k] for k in range(L)])],
        ensures=lambda s: [('value', s.result == horner(list(s.I), list(s.dims))),
                           ('range', And(0 <= s.result, s.result < _prod(list(s.dims))))],
        options={'timeout_ms': 60000},
    )


def _fromseq(L):
    return Contract(
        F, 'from_seq', name='mlmatrix:from_seq[L=%d]' % L,
        params={'i': Int(0), 'dims': Tup(*[Int(1) for _ in range(L)])},
        requires=lambda s: [s.i < _prod(list(s.dims))],
        ensures=lambda s: [('digits-in-range', And(*[And(0 <= s.result[k], s.result[k] < s.dims[k]) for k in range(L)])),
                           ('recompose', horner(list(s.result), list(s.dims)) == s.old.i)],
        options={'timeout_ms': 60000},
    )


def horner_injective(L):
    """lemma: the lexicographic rank is injective on the index box (so from_seq/to_seq are mutually inverse)"""
    from pyvc.symexec import Obligation
    I = [z3.Int('I%d' % k) for k in range(L)]
    J = [z3.Int('J%d' % k) for k in range(L)]
    d = [z3.Int('d%d' % k) for k in range(L)]
    hyp = [And(0 <= I[k], I[k] < d[k], 0 <= J[k], J[k] < d[k], d[k] >= 1) for k in range(L)] + [horner(I, d) == horner(J, d)]
    return [Obligation('mlmatrix:to_seq:lemma:injective[L=%d]' % L, 'lemma', 0, hyp, And(*[I[k] == J[k] for k in range(L)]),
                       'to_seq is injective on the index box: with the two contracts, from_seq(to_seq(I)) == I and to_seq(from_seq(i)) == i',
                       src='(lemma over the contracts of to_seq/from_seq)')], None


# sequential_bidx -----------------------------------------------------------------------------------

def _MLS(L):
    return Obj(bs=Tup(*[Tup(Int(1, 2**20), Int(1, 2**20)) for _ in range(L)]),
               bidx=Tup(*[bidx_sort() for _ in range(L)]), L=Const(L))


def _seqbidx(L):
    return Contract(
        F, 'MLStructure.sequential_bidx', name='mlmatrix:MLStructure.sequential_bidx[L=%d]' % L,
        params={'self': _MLS(L)},
        requires=lambda s: [wf_level(s.self.bidx[k], s.self.bs[k][0], s.self.bs[k][1]) for k in range(L)],
        ensures=lambda s: [('ravel-%d' % k, And(s.result[k].len == s.self.bidx[k].len,
                                                ForAll('q', lambda q: Implies(And(0 <= q, q < s.self.bidx[k].len),
                                                                              s.result[k][q] == s.self.bidx[k][q, 0] * s.self.bs[k][1] + s.self.bidx[k][q, 1]))))
                           for k in range(L)] +
                          [('in-block-%d' % k, ForAll('q', lambda q: Implies(And(0 <= q, q < s.self.bidx[k].len),
                                                                             And(0 <= s.result[k][q], s.result[k][q] < s.self.bs[k][0] * s.self.bs[k][1]))))
                           for k in range(L)],
        options={'timeout_ms': 60000},
        notes=['r = i*ncols + j is the C-order position inside an m x n block, which is what reindex_from_reordered / reindex_from_multilevel decode'],
    )


# MLMatrix._matvec: caller of the unchecked kernels ---------------------------------------------------

def _matvec(L):
    kern = {2: cy.ml_matvec_2d, 3: cy.ml_matvec_3d}[L]
    dims = L

    def req(s):
        st = s.self.structure
        rows = _prod([st._bs_arr[k][0] for k in range(L)])
        cols = _prod([st._bs_arr[k][1] for k in range(L)])
        return [wf_level(st.bidx[k], st._bs_arr[k][0], st._bs_arr[k][1]) for k in range(L)] + \
               [st.bidx[k].len == s.self._data.shape[k] for k in range(L)] + \
               [s.self.shape[0] == rows, s.self.shape[1] == cols, s.x.len == s.self.shape[1]] + \
               [And(st._bs_arr[k][0] <= 2**12, st._bs_arr[k][1] <= 2**12) for k in range(L)]

    return Contract(
        F, 'MLMatrix._matvec', name='mlmatrix:MLMatrix._matvec[L=%d]' % L,
        params={'self': Obj(_data=Arr('real', L, numpy=True), L=Const(L), shape=Tup(Int(1), Int(1)),
                            structure=Obj(bidx=Tup(*[bidx_sort() for _ in range(L)]),
                                          _bs_arr=Tup(*[Tup(Int(1, 2**12), Int(1, 2**12)) for _ in range(L)]))),
                'x': Arr('real', 1, numpy=True)},
        requires=req,
        ensures=lambda s: [('result-length', s.result.len == s.self.shape[0])],
        callees={'ml_matvec_%dd' % L: kern},
        options={'timeout_ms': 60000},
        notes=['the kernel runs without bounds checks: its precondition len(y) = number of rows is discharged at the call site'],
    )


CONTRACTS = [reindex_from_reordered] + [_toseq(L) for L in (1, 2, 3)] + [_fromseq(L) for L in (1, 2, 3)] + \
            [_seqbidx(L) for L in (1, 2, 3)] + [_matvec(2), _matvec(3)]
LEMMAS = [(L, horner_injective) for L in (1, 2, 3)]
