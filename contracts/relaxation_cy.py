"""Contracts for pyiga/relaxation_cy.pyx (Gauss-Seidel kernels, compiled without bounds checks)."""
import z3
from pyvc.spec import *
from pyvc.values import arr_sort

F = 'pyiga/relaxation_cy.pyx'
I32 = (-(2**31), 2**31 - 1)

_IA = arr_sort('int', 1)
_RA = arr_sort('real', 1)
# spec functions (textbook sums of one CSR row), defined by their recurrences:
#   offdiag(data, col, x, i, s, t) = sum_{s <= q < t, col[q] != i} data[q] * x[col[q]]
#   diagval(data, col, i, s, t)    = data[q] for the last q in [s,t) with col[q] == i, else 0
offdiag = z3.Function('gs_offdiag', _RA, _IA, _RA, z3.IntSort(), z3.IntSort(), z3.IntSort(), z3.RealSort())
diagval = z3.Function('gs_diag', _RA, _IA, z3.IntSort(), z3.IntSort(), z3.IntSort(), z3.RealSort())


def spec_axioms():
    d, x = z3.Consts('d x', _RA)
    c = z3.Const('c', _IA)
    i, s, t = z3.Ints('i s t')
    return [
        z3.ForAll([d, c, x, i, s], offdiag(d, c, x, i, s, s) == 0),
        z3.ForAll([d, c, x, i, s, t], z3.Implies(t >= s, offdiag(d, c, x, i, s, t + 1) ==
                                                offdiag(d, c, x, i, s, t) + z3.If(c[t] != i, d[t] * x[c[t]], 0)),
                  patterns=[offdiag(d, c, x, i, s, t + 1)]),
        z3.ForAll([d, c, i, s], diagval(d, c, i, s, s) == 0),
        z3.ForAll([d, c, i, s, t], z3.Implies(t >= s, diagval(d, c, i, s, t + 1) == z3.If(c[t] == i, d[t], diagval(d, c, i, s, t))),
                  patterns=[diagval(d, c, i, s, t + 1)]),
    ]


def csr_wf(s):
    rp, ci, da = s.row_ptr, s.col_indices, s.data
    N = s.x.len
    return [rp.len == N + 1, s.b.len == N, ci.len == da.len, N < 2**31 - 1,
            ForAll('k', lambda k: Implies(And(0 <= k, k <= N), And(0 <= rp[k], rp[k] <= ci.len))),
            ForAll('k', lambda k: Implies(And(0 <= k, k < N), rp[k] <= rp[k + 1])),
            ForAll('q', lambda q: Implies(And(0 <= q, q < ci.len), And(0 <= ci[q], ci[q] < N)))]


def _inner_inv(s):
    return [('i', And(0 <= s.i, s.i < s.x.len)), ('range', And(s.start == s.row_ptr[s.i], s.end == s.row_ptr[s.i + 1])),
            ('rsum', s.rsum == offdiag(s.data.data, s.col_indices.data, s.x.data, s.i, s.start, s.jj)),
            ('diag', s.diag == diagval(s.data.data, s.col_indices.data, s.i, s.start, s.jj)),
            ('len', s.x.len == s.old.x.len)]


def _update_check(s):
    return [('textbook-row-update', And(s.rsum == offdiag(s.data.data, s.col_indices.data, s.x.data, s.i, s.row_ptr[s.i], s.row_ptr[s.i + 1]),
                                       s.diag == diagval(s.data.data, s.col_indices.data, s.i, s.row_ptr[s.i], s.row_ptr[s.i + 1]))),
            ('nonzero-diagonal', s.diag != 0)]


def _row_done_check(s):
    # at the end of a visit: a row with a non-zero diagonal entry HAS been updated (the store is not only correct where it happens,
    # it happens for every sign of the diagonal); rsum/diag are the row sums by the inner invariant
    return [('every-row-with-a-nonzero-diagonal-is-updated', Implies(s.diag != 0, s.x[s.i] * s.diag == s.b[s.i] - s.rsum))]


gauss_seidel = Contract(
    F, 'gauss_seidel',
    params={'row_ptr': Arr('int', 1, elem_range=I32), 'col_indices': Arr('int', 1, elem_range=I32), 'data': Arr('real', 1),
            'x': Arr('real', 1), 'b': Arr('real', 1), 'g_m': Int(0)},
    requires=lambda s: csr_wf(s) + spec_axioms() + [
        s.row_step != 0, s.g_m * s.row_step == s.row_stop - s.row_start,
        ForAll('t', lambda t: Implies(And(0 <= t, t < s.g_m), And(0 <= s.row_start + t * s.row_step, s.row_start + t * s.row_step < s.x.len)))],
    call_requires=lambda s: csr_wf(s) + [
        s.row_step != 0,
        Exists('m', lambda m: And(m >= 0, m * s.row_step == s.row_stop - s.row_start,
                                  ForAll('t', lambda t: Implies(And(0 <= t, t < m), And(0 <= s.row_start + t * s.row_step, s.row_start + t * s.row_step < s.x.len)))))],
    modifies=('x',),
    ghost=[(r'^\s*i = row_start', ('g_t',), lambda s: {'g_t': z3.IntVal(0)}),
           (r'i \+= row_step', ('g_t',), lambda s: {'g_t': s.g_t + 1})],
    loops={0: LoopSpec(r'while i != row_stop',
                       inv=lambda s: [('visit-order', And(0 <= s.g_t, s.g_t <= s.g_m, s.i == s.row_start + s.g_t * s.row_step)),
                                      ('len', s.x.len == s.old.x.len)],
                       dec=lambda s: s.g_m - s.g_t),
           1: LoopSpec(r'for jj in range\(start, end\)', inv=_inner_inv)},
    checks=[(r'x\[i\] = \(b\[i\] - rsum\) / diag', _update_check), (r'^\s*i \+= row_step', _row_done_check)],
    ensures=lambda s: [('len', s.x.len == s.old.x.len)],
    options={'timeout_ms': 60000},
    notes=['rows are visited in the order row_start, row_start+row_step, ... (g_t counts the visits); each visited row with a nonzero '
           'diagonal gets x[i] = (b[i] - sum_{j != i} a_ij x_j) / a_ii with the current x; nothing else is stored'],
)

gauss_seidel_indexed = Contract(
    F, 'gauss_seidel_indexed',
    params={'row_ptr': Arr('int', 1, elem_range=I32), 'col_indices': Arr('int', 1, elem_range=I32), 'data': Arr('real', 1),
            'x': Arr('real', 1), 'b': Arr('real', 1), 'indices': Arr('int', 1, elem_range=I32)},
    requires=lambda s: csr_wf(s) + spec_axioms() + [
        s.indices.len < 2**31 - 1,
        ForAll('k', lambda k: Implies(And(0 <= k, k < s.indices.len), And(0 <= s.indices[k], s.indices[k] < s.x.len)))],
    call_requires=lambda s: csr_wf(s) + [
        s.indices.len < 2**31 - 1,
        ForAll('k', lambda k: Implies(And(0 <= k, k < s.indices.len), And(0 <= s.indices[k], s.indices[k] < s.x.len)))],
    modifies=('x',),
    ghost=[(r'^\s*idx = I0', ('g_t',), lambda s: {'g_t': z3.IntVal(0)}),
           (r'idx \+= Is', ('g_t',), lambda s: {'g_t': s.g_t + 1})],
    loops={0: LoopSpec(r'while idx != I1',
                       inv=lambda s: [('visit-order', And(0 <= s.g_t, s.g_t <= s.indices.len,
                                                          s.idx == If(s.reverse, s.indices.len - 1 - s.g_t, s.g_t),
                                                          s.I1 == If(s.reverse, -1, s.indices.len), s.Is == If(s.reverse, -1, 1))),
                                      ('len', s.x.len == s.old.x.len)],
                       dec=lambda s: s.indices.len - s.g_t),
           1: LoopSpec(r'for jj in range\(start, end\)', inv=_inner_inv)},
    checks=[(r'x\[i\] = \(b\[i\] - rsum\) / diag', _update_check), (r'^\s*idx \+= Is', _row_done_check)],
    ensures=lambda s: [('len', s.x.len == s.old.x.len)],
    options={'timeout_ms': 60000},
)


def fixed_point_lemma():
    """A x = b  =>  the row update leaves x[i] unchanged (lemma over the row-update contract)"""
    from pyvc.symexec import Obligation
    S, D, xi, bi = z3.Reals('S D xi bi')
    hyp = [D != 0, D * xi + S == bi]
    return [Obligation('relaxation_cy:gauss_seidel:lemma:fixed-point', 'lemma', 0, hyp, (bi - S) / D == xi,
                       'if row i of A x = b holds then x[i] := (b_i - sum_{j!=i} a_ij x_j)/a_ii is x[i] itself', src='(lemma over the row-update contract)')], None


CONTRACTS = [gauss_seidel, gauss_seidel_indexed]
