"""C09 contracts in pyiga/assemble.py: quadrature-degree sufficiency and Kronecker term structure."""
import ast
import time

import z3
from pyvc import frontend
from pyvc.spec import *
from pyvc.symexec import Obligation
from pyvc.solve import ob_dict

F = 'pyiga/assemble.py'

_KV = lambda: Obj(p=Int(0, 64), numspans=Int(1), mesh=Opaque())

# 2*nqp - 1 >= polynomial degree of the integrand (a q-point Gauss rule is exact up to degree 2q-1), nqp >= 1
mixed_deriv = Contract(
    F, 'bsp_mixed_deriv_biform_1d',
    params={'knotvec': _KV(), 'du': Int(0), 'dv': Int(0), 'nqp': Const(None), 'weightfunc': Const(None)},
    requires=lambda s: [s.du <= s.knotvec.p, s.dv <= s.knotvec.p],
    checks=[(r'q = make_iterated_quadrature\(knotvec\.mesh, nqp\)',
             lambda s: [('exact-for-the-integrand-degree', 2 * s.nqp - 1 >= 2 * s.knotvec.p - s.du - s.dv), ('at-least-one-node', s.nqp >= 1)])],
    notes=['integrand u^(du) v^(dv) is a piecewise polynomial of degree 2p-du-dv per span; a weight function raises the degree (not covered)'],
)

mixed_deriv_asym = Contract(
    F, 'bsp_mixed_deriv_biform_1d_asym',
    params={'knotvec1': Obj(p=Int(0, 64), mesh=Opaque(), first_active_at=Opaque()), 'knotvec2': Obj(p=Int(0, 64), mesh=Opaque(), first_active_at=Opaque()),
            'du': Int(0), 'dv': Int(0), 'quadgrid': Const(None), 'nqp': Const(None)},
    requires=lambda s: [s.du <= s.knotvec1.p, s.dv <= s.knotvec2.p],
    checks=[(r'nspans = len\(quadgrid\) - 1',
             lambda s: [('exact-for-the-integrand-degree', 2 * s.nqp - 1 >= s.knotvec1.p + s.knotvec2.p - s.du - s.dv), ('at-least-one-node', s.nqp >= 1)])],
    options={'float_div_raises': False, 'assert_mode': 'assume'},
)


def _inner_products(dim):
    return Contract(
        F, 'inner_products', name='assemble:inner_products[dim=%d]' % dim,
        params={'kvs': Tup(*[Obj(p=Int(0, 64), mesh=Opaque()) for _ in range(dim)]), 'f': Opaque(), 'f_physical': Const(False), 'geo': Const(None)},
        callees={'isinstance': lambda ex, st, call, *a: False},
        checks=[(r'gaussgrid, gaussweights = make_tensor_quadrature',
                 lambda s: [('exact-for-degree-2p+1', And(*[2 * s.nqp - 1 >= 2 * s.kvs[k].p + 1 for k in range(dim)])), ('at-least-one-node', s.nqp >= 1)])],
        options={'stop_after': r'gaussgrid, gaussweights = make_tensor_quadrature'},
    )


CONTRACTS = [mixed_deriv, mixed_deriv_asym] + [_inner_products(d) for d in (1, 2, 3)]


class _K:
    """formal Kronecker product term: tuple of factor names with a coefficient"""

    def __init__(self, terms):
        self.t = dict((k, v) for k, v in terms.items() if v != 0)

    def __add__(self, o):
        d = dict(self.t)
        for k, v in o.t.items():
            d[k] = d.get(k, 0) + v
        return _K(d)

    def __eq__(self, o):
        return isinstance(o, _K) and self.t == o.t


def _kron(a, b, format=None):
    out = {}
    for ka, va in a.t.items():
        for kb, vb in b.t.items():
            out[ka + kb] = out.get(ka + kb, 0) + va * vb
    return _K(out)


def kronecker_structure():
    """the geometry-free mass/stiffness routines build M(x)M, K(x)M + M(x)K (2D) and the three-term sum (3D), factors in knot-vector order"""
    src = frontend.load(F)
    obs = []

    class SPS:
        kron = staticmethod(_kron)

    class SP:
        sparse = SPS

    def run(fname, dim):
        fn = src.find(fname)
        code = compile(ast.Module(body=[fn], type_ignores=[]), src.path, 'exec')
        ns = {'scipy': SP, 'bsp_mass_1d': lambda kv: _K({('M%d' % kv,): 1}), 'bsp_stiffness_1d': lambda kv: _K({('K%d' % kv,): 1})}
        exec(code, ns)
        return ns[fname](tuple(range(dim)))

    def mk(label, ok, desc, detail=''):
        o = Obligation('assemble:%s' % label, 'post', 0, [], None, desc, src='')
        o.status, o.backend, o.time = ('proved' if ok else 'refuted'), 'formal-kronecker-terms', 0.0
        if not ok:
            o.goal = detail
        return o
    M = lambda *ix: tuple('M%d' % i for i in ix)
    spec = {
        ('bsp_mass_2d', 2): _K({('M0', 'M1'): 1}),
        ('bsp_stiffness_2d', 2): _K({('K0', 'M1'): 1, ('M0', 'K1'): 1}),
        ('bsp_mass_3d', 3): _K({('M0', 'M1', 'M2'): 1}),
        ('bsp_stiffness_3d', 3): _K({('K0', 'M1', 'M2'): 1, ('M0', 'K1', 'M2'): 1, ('M0', 'M1', 'K2'): 1}),
    }
    for (fname, dim), want in spec.items():
        try:
            got = run(fname, dim)
            obs.append(mk('%s:post:kronecker-terms' % fname, got == want, '%s without geometry is the Kronecker sum of the 1D mass/stiffness matrices in knot-vector order' % fname,
                          'got %r' % (got.t if isinstance(got, _K) else got,)))
        except KeyError:
            raise
        except Exception as e:
            from pyvc.frontend import OutOfSubset
            raise OutOfSubset('%s left the modelled vocabulary: %r' % (fname, e))
    return obs, None


def fast_wrapper_obligations():
    """fast_assemble_{2,3}d_wrapper hand axis k's size and bandwidth to the C++ routine as (kvs[k].numdofs, kvs[k].p), k = 0..d-1, in order
    (precondition of the external fast_assemble_{d}d: (n_k, bw_k) describe axis k; the C++ code itself is outside the front end)."""
    import ast
    from pyvc import frontend
    from pyvc.symexec import Obligation
    FF = 'pyiga/fast_assemble_cy.pyx'
    src = frontend.load(FF)
    obs = []
    for d in (2, 3):
        fn = src.find('fast_assemble_%dd_wrapper' % d)
        calls = [n for n in ast.walk(fn) if isinstance(n, ast.Call) and isinstance(n.func, ast.Name) and n.func.id == 'fast_assemble_%dd_cimpl' % d]
        ok, detail = False, 'call of fast_assemble_%dd_cimpl not found' % d
        if len(calls) == 1:
            args = [ast.unparse(a) for a in calls[0].args]
            want = []
            for k in range(d):
                want += ['kvs[%d].numdofs' % k, 'kvs[%d].p' % k]
            got = args[2:2 + 2 * d]
            ok = got == want and args[0] == 'entry_func'
            detail = 'axis arguments are %r, expected %r' % (got, want)
        # the size of the result matrix is the product of all axis sizes
        prods = [ast.unparse(n.value) for n in ast.walk(fn) if isinstance(n, (ast.Assign, ast.AnnAssign)) and getattr(n, 'value', None) is not None
                 and 'numdofs' in ast.unparse(n.value) and '*' in ast.unparse(n.value)]
        wantN = ' * '.join('kvs[%d].numdofs' % k for k in range(d))
        okN = wantN in prods
        o = Obligation('fast_assemble_cy:fast_assemble_%dd_wrapper:axis-arguments' % d, 'rule', fn.lineno, [], None,
                       'axis k is passed as (kvs[k].numdofs, kvs[k].p) for k = 0..%d and the matrix size is the product of the axis sizes' % (d - 1), src=FF)
        o.status, o.backend, o.time = ('proved' if ok and okN else 'refuted'), 'ast-dataflow (call arguments)', 0.0
        if not (ok and okN):
            o.goal = detail + ('' if okN else '; matrix size expressions: %r' % prods)
        obs.append(o)
    return obs, None


def measure_factor_obligations():
    """inner_products / integrate: the geometry enters the quadrature sum through the factor |det J| (the measure of the mapped domain does
    not depend on the orientation of the parametrisation).  Reaching-definition analysis on the source: the operand of `fvals *= X` inside
    `if geo is not None` is defined as an absolute value of determinants(geo.grid_jacobian(gaussgrid)).  Three-valued: proved when the
    definition is an absolute value of the determinants of the Jacobians on the quadrature grid, refuted when it is those determinants
    without an absolute value, unknown (-> bounded tier) for any other shape."""
    import ast
    import re
    from pyvc import frontend
    from pyvc.symexec import Obligation
    FF = 'pyiga/assemble.py'
    src = frontend.load(FF)
    obs = []
    for name in ('inner_products', 'integrate'):
        fn = src.find(name)
        status, detail = 'unknown', 'no `fvals *= <name>` under `if geo is not None` found'
        for blk in [n for n in ast.walk(fn) if isinstance(n, ast.If) and ast.unparse(n.test) == 'geo is not None']:
            defs = {}
            for st in blk.body:
                if isinstance(st, ast.Assign) and len(st.targets) == 1 and isinstance(st.targets[0], ast.Name):
                    defs[st.targets[0].id] = ast.unparse(st.value)
                if isinstance(st, ast.AugAssign) and isinstance(st.op, ast.Mult) and ast.unparse(st.target) == 'fvals' and isinstance(st.value, ast.Name):
                    d = defs.get(st.value.id, '')
                    m = re.match(r'^(np\.abs|np\.absolute|np\.fabs|abs)\((?:assemble_tools\.)?determinants\((\w+)\)\)$', d)
                    m2 = re.match(r'^-?(?:assemble_tools\.)?determinants\((\w+)\)$', d)
                    jac = defs.get((m or m2).group(m.lastindex if m else 1), '') if (m or m2) else ''
                    on_grid = jac == 'geo.grid_jacobian(gaussgrid)'
                    if m and on_grid:
                        status, detail = 'proved', ''
                    elif m2 and on_grid:
                        status, detail = 'refuted', 'the integrand is multiplied by %s = %s: the signed determinant (an orientation-reversing geometry map flips the sign of every integral)' % (st.value.id, d)
                    else:
                        status, detail = 'unknown', 'unrecognised definition of the measure factor: %s = %s (Jacobians: %s)' % (st.value.id, d, jac)
        o = Obligation('assemble:%s:measure-factor-is-abs-det' % name, 'rule', fn.lineno, [], None,
                       '%s multiplies the weighted function values by |det J| of the geometry on the quadrature grid' % name, src=FF)
        o.status, o.backend, o.time = status, 'ast-dataflow (reaching definition)', 0.0
        if status != 'proved':
            o.goal = detail
        obs.append(o)
    return obs, None


def wrapper_forwarding_obligations():
    """The four 1D convenience wrappers are their general routine at fixed derivative orders and forward every optional argument:

        bsp_mass_1d(kv, weightfunc)            = bsp_mixed_deriv_biform_1d(kv, 0, 0, weightfunc=weightfunc)
        bsp_stiffness_1d(kv, weightfunc)       = bsp_mixed_deriv_biform_1d(kv, 1, 1, weightfunc=weightfunc)
        bsp_mass_1d_asym(kv1, kv2, quadgrid)      = bsp_mixed_deriv_biform_1d_asym(kv1, kv2, 0, 0, quadgrid=quadgrid)
        bsp_stiffness_1d_asym(kv1, kv2, quadgrid) = bsp_mixed_deriv_biform_1d_asym(kv1, kv2, 1, 1, quadgrid=quadgrid)

    so the contract of the general routine (any quadrature grid / weight) carries over to the wrapper.  Call-argument analysis of the single
    return statement.  Three-valued: refuted when the body is such a single call with other derivative orders, exchanged knot vectors or an
    optional parameter that is not handed on; unknown (-> bounded tier) for any other body."""
    import ast
    from pyvc import frontend
    from pyvc.symexec import Obligation
    FF = 'pyiga/assemble.py'
    src = frontend.load(FF)
    spec = {'bsp_mass_1d': ('bsp_mixed_deriv_biform_1d', ['knotvec', '0', '0'], ['weightfunc']),
            'bsp_stiffness_1d': ('bsp_mixed_deriv_biform_1d', ['knotvec', '1', '1'], ['weightfunc']),
            'bsp_mass_1d_asym': ('bsp_mixed_deriv_biform_1d_asym', ['knotvec1', 'knotvec2', '0', '0'], ['quadgrid']),
            'bsp_stiffness_1d_asym': ('bsp_mixed_deriv_biform_1d_asym', ['knotvec1', 'knotvec2', '1', '1'], ['quadgrid'])}
    obs = []
    for name, (callee, pos, opt) in spec.items():
        fn = src.find(name)
        o = Obligation('assemble:%s:forwards-to:%s' % (name, callee), 'rule', fn.lineno, [], None,
                       '%s(...) returns %s(%s, %s)' % (name, callee, ', '.join(pos), ', '.join('%s=%s' % (x, x) for x in opt)), src=FF)
        body = [st for st in fn.body if not (isinstance(st, ast.Expr) and isinstance(st.value, ast.Constant))]
        status, why = 'unknown', 'body is not a single return of one call'
        if len(body) == 1 and isinstance(body[0], ast.Return) and isinstance(body[0].value, ast.Call) and isinstance(body[0].value.func, ast.Name):
            call = body[0].value
            params = [a.arg for a in fn.args.args]
            cal = src.find(call.func.id) if call.func.id in (callee,) else None
            if cal is None:
                why = 'calls %s' % call.func.id
            else:
                cparams = [a.arg for a in cal.args.args]
                bound = {}
                for k, a in enumerate(call.args):
                    bound[cparams[k]] = ast.unparse(a)
                for kw in call.keywords:
                    if kw.arg is not None:
                        bound[kw.arg] = ast.unparse(kw.value)
                want = dict(zip(cparams, pos))
                want.update({x: x for x in opt})
                simple = all(v in params or v.lstrip('-').isdigit() or v == 'None' for v in bound.values())
                if all(bound.get(k) == v for k, v in want.items()) and set(bound) == set(want):
                    status, why = 'proved', ''
                elif simple:
                    status, why = 'refuted', 'the call binds %r, required %r' % (bound, want)
                else:
                    why = 'the call binds %r' % (bound,)
        o.status, o.backend, o.time = status, 'ast-dataflow (call arguments)', 0.0
        if status != 'proved':
            o.goal = why
        obs.append(o)
    return obs, None
