"""bspline_active_deriv_single against the Cox-de Boor recursion, as exact rational-function identities.

For a concrete degree p and derivative count (the finite part) the real kernel is symbolically executed by pyvc
with symbolic knots t_{span-p} .. t_{span+p+1} and symbolic u (all loops unroll, the pointer swap is concrete);
every entry result[k, r] is then a rational function of (u, t_*).  The specification is computed independently:
N_{i,0} = [i == span],  N_{i,q}(u) = (u-t_i)/(t_{i+q}-t_i) N_{i,q-1} + (t_{i+q+1}-u)/(t_{i+q+1}-t_{i+1}) N_{i+1,q-1}
restricted to the span (so every denominator straddles the span and is positive for an open knot vector), and
its k-th derivative by sympy.diff.  Obligation: result[k, r] - d^k/du^k N_{span-p+r,p}(u) == 0 identically
(sympy cancel over Q(u, t)), for all knots and all u -- plus the consequences the property names (values sum
to one, derivatives sum to zero, orders > p vanish)."""
import time

import sympy as sp
import z3

from pyvc import frontend
from pyvc.spec import *
from pyvc.symexec import Executor, Obligation
from pyvc.solve import ob_dict
from . import bspline_cy
from .common import open_kv, sorted_leq

F = 'pyiga/bspline_cy.pyx'


def z3_to_sympy(e, span, kvdata, u, cache):
    """arithmetic z3 term over Select(kv, span + c) and u  ->  sympy expression in t_c and u"""
    key = e.get_id()
    if key in cache:
        return cache[key][1]
    r = _conv(e, span, kvdata, u, cache)
    cache[key] = (e, r)       # keep the term alive: z3 reuses ids of collected terms
    return r


def _conv(e, span, kvdata, u, cache):
    if z3.is_rational_value(e):
        return sp.Rational(e.numerator_as_long(), e.denominator_as_long())
    if z3.is_int_value(e):
        return sp.Integer(e.as_long())
    if e.eq(u):
        return sp.Symbol('u')
    k = e.decl().kind()
    ch = [z3_to_sympy(c, span, kvdata, u, cache) for c in e.children()] if k not in (z3.Z3_OP_SELECT,) else None
    if k == z3.Z3_OP_ADD:
        return sp.Add(*ch)
    if k == z3.Z3_OP_MUL:
        return sp.Mul(*ch)
    if k == z3.Z3_OP_SUB:
        r = ch[0]
        for c in ch[1:]:
            r = r - c
        return r
    if k == z3.Z3_OP_UMINUS:
        return -ch[0]
    if k == z3.Z3_OP_DIV:
        return ch[0] / ch[1]
    if k == z3.Z3_OP_TO_REAL:
        return ch[0]
    if k == z3.Z3_OP_SELECT:
        arr, idx = e.children()
        if arr.eq(kvdata):
            off = z3.simplify(idx - span)
            if z3.is_int_value(off):
                return sp.Symbol('t%s%d' % ('m' if off.as_long() < 0 else '', abs(off.as_long())))
        raise ValueError('unexpected array read %s' % e)
    raise ValueError('unexpected term %s' % e.decl().name())


def tsym(c):
    return sp.Symbol('t%s%d' % ('m' if c < 0 else '', abs(c)))


def coxdeboor(p):
    """{offset i (function index span+i) : N_{span+i, p}(u)} on the span [t_0, t_1)"""
    u = sp.Symbol('u')
    N = {0: sp.Integer(1)}
    for q in range(1, p + 1):
        new = {}
        for i in range(-q, 1):
            val = sp.Integer(0)
            if i in N:
                val += (u - tsym(i)) / (tsym(i + q) - tsym(i)) * N[i]
            if i + 1 in N:
                val += (tsym(i + q + 1) - u) / (tsym(i + q + 1) - tsym(i + 1)) * N[i + 1]
            new[i] = val
        N = new
    return N


def _ob(oid, ok, desc, detail='', src=''):
    o = Obligation(oid, 'post', 0, [], None, desc, src=src)
    o.status, o.backend, o.time = ('proved' if ok else 'refuted'), 'rational-function identity (sympy cancel)', 0.0
    if not ok:
        o.goal = detail
    return o


def exact_obligations(tier):
    pmax = 4 if tier == 'quick' else 5
    results = []
    src = frontend.load(F)
    for p in range(0, pmax + 1):
        nd = p + 2
        t0 = time.time()
        name = 'bspline_cy:bspline_active_deriv_single[p=%d,numderiv=%d]' % (p, nd)
        res = {'contract': name, 'file': F, 'func': 'bspline_active_deriv_single', 'instance': {'p': p, 'numderiv': nd},
               'obligations': [], 'status': 'ok', 'error': None, 'paths': 0, 'vacuous': False, 'notes': [], 'src_sha': src.sha, 'time': 0.0}
        try:
            c = Contract(F, 'bspline_active_deriv_single', name=name,
                         params={'knotvec': Obj(kv=Arr('real', 1), p=Const(p)), 'u': Real(), 'numderiv': Const(nd), 'result': Const(None)},
                         requires=lambda s: open_kv(s.knotvec.kv, s.knotvec.p) + [sorted_leq(s.knotvec.kv), s.knotvec.kv.len <= 2**31 - 1,
                                                                                  s.knotvec.kv[s.knotvec.p] <= s.u,
                                                                                  s.u <= s.knotvec.kv[s.knotvec.kv.len - s.knotvec.p - 1]],
                         callees={'pyx_findspan': bspline_cy.findspan}, options={'overflow': True})
            fn = src.find('bspline_active_deriv_single')
            ex = Executor(fn, c, prune=False)
            obs = ex.run()
            res['paths'] = ex.npaths
            if len(ex.returns) != 1:
                raise ValueError('expected a single path, got %d' % len(ex.returns))
            st, rv = ex.returns[0]
            # safety obligations of this instance (index bounds on the 64-entry stack buffers, divisions): by z3
            from pyvc.solve import discharge
            for ob in obs:
                discharge(ob, timeout_ms=20000)
                res['obligations'].append(ob_dict(ob, ex))
            content = st.heap[rv.id]
            span = st.env['span']
            kvref = st.heap[st.env['knotvec'].id].attrs['kv']
            kvdata = st.heap[kvref.id].data
            u = st.env['u']
            spec = coxdeboor(p)
            usym = sp.Symbol('u')
            cache = {}
            rows = []
            for k in range(nd + 1):
                row = []
                for r in range(p + 1):
                    e = z3.simplify(z3.Select(z3.Select(content.data, k), r))
                    try:
                        val = z3_to_sympy(e, span, kvdata, u, cache)
                    except ValueError as err:
                        # the entry is not a function of (knots, u): it depends on memory the kernel never wrote
                        res['obligations'].append(ob_dict(_ob('%s:post:defined[k=%d,r=%d]' % (name, k, r), False,
                                                              'result[%d,%d] is a function of the knots and u only' % (k, r),
                                                              'depends on an uninitialised or foreign read: %s' % err, src='result[k, r] = d * fac')))
                        row.append(sp.Symbol('undefined_%d_%d' % (k, r)))
                        continue
                    row.append(val)
                    want = sp.diff(spec[r - p], usym, k) if k > 0 else spec[r - p]
                    diff = sp.cancel(sp.together(val - want))
                    res['obligations'].append(ob_dict(_ob('%s:post:coxdeboor[k=%d,r=%d]' % (name, k, r), diff == 0,
                                                          'result[%d,%d] equals the %d-th derivative of the Cox-de Boor function N_{span-p+%d,p}' % (k, r, k, r),
                                                          'difference %s' % str(diff)[:300], src='result[k, r] = d * fac')))
                rows.append(row)
            tot = sp.cancel(sp.together(sum(rows[0]) - 1))
            res['obligations'].append(ob_dict(_ob(name + ':post:partition-of-unity', tot == 0, 'values sum to one', str(tot)[:200])))
            for k in range(1, nd + 1):
                tot = sp.cancel(sp.together(sum(rows[k])))
                res['obligations'].append(ob_dict(_ob(name + ':post:derivative-sum[k=%d]' % k, tot == 0, 'derivatives of order %d sum to zero' % k, str(tot)[:200])))
                if k > p:
                    ok = all(sp.cancel(sp.together(x)) == 0 for x in rows[k])
                    res['obligations'].append(ob_dict(_ob(name + ':post:vanish[k=%d]' % k, ok, 'derivatives of order %d > p vanish' % k)))
        except frontend.OutOfSubset as e:
            res['status'], res['error'] = 'out-of-subset', str(e)
        except KeyError as e:
            res['status'], res['error'] = 'missing', str(e)
        except Exception:
            import traceback
            res['status'], res['error'] = 'crash', traceback.format_exc()
        res['time'] = round(time.time() - t0, 2)
        results.append(res)
    return results
