"""C07 contracts: scattered-point axis map, boundary specification parsing, boundary-function axis arithmetic, and the
frame condition "operations assign nothing on their operands"."""
import ast
import time

import numpy as onp

from pyvc import frontend
from pyvc.spec import *
from pyvc.symexec import Executor, Obligation
from pyvc.solve import ob_dict

FB = 'pyiga/bspline.py'
FG = 'pyiga/geometry.py'


def _mk(oid, ok, desc, detail='', backend='symbolic-execution (recorded calls)', src=''):
    o = Obligation(oid, 'post', 0, [], None, desc, src=src)
    o.status, o.backend, o.time = ('proved' if ok else 'refuted'), backend, 0.0
    if not ok:
        o.goal = detail
    return o


def pointwise_axis_obligations():
    """tp_bsp_*_pointwise: knot-vector axis d is evaluated at the coordinate array points[sdim-1-d] (points in xyz order, knot vectors in
    zyx order), for sdim in 1..3.  The real function is executed with its collocation callee replaced by a recorder; the pairing does not
    depend on the data (control flow is data independent), so one execution per sdim covers all inputs of that sdim."""
    src = frontend.load(FB)
    obs = []
    for fname, callee in (('tp_bsp_eval_pointwise', 'collocation_info'), ('tp_bsp_jac_pointwise', 'collocation_derivs_info'),
                          ('tp_bsp_eval_with_jac_pointwise', 'collocation_derivs_info')):
        fn = src.find(fname)
        code = compile(ast.Module(body=[fn], type_ignores=[]), src.path, 'exec')
        for sdim in (1, 2, 3):
            calls = []

            class KV:
                def __init__(self, d):
                    self.d, self.p = d, 1

            def rec(kv, pts, derivs=None):
                calls.append((kv.d, float(pts[0])))
                n = len(pts)
                idx = onp.zeros(n, dtype=int)
                if derivs is None:
                    return idx, onp.ones((n, 2))
                return idx, onp.ones((derivs + 1, n, 2))
            ns = {'np': onp, callee: rec}
            exec(code, ns)
            kvs = tuple(KV(d) for d in range(sdim))
            # coordinate array k (xyz order) is tagged by its first entry 100+k
            points = tuple(onp.array([100.0 + k, 0.5]) for k in range(sdim))
            coeffs = onp.zeros((2,) * sdim + (1,))
            try:
                ns[fname](kvs, coeffs, points)
                want = [(d, 100.0 + (sdim - 1 - d)) for d in range(sdim)]
                ok = calls == want
                detail = 'recorded (knot-vector axis, coordinate tag): %r, expected %r' % (calls, want)
            except Exception as e:
                ok, detail = False, 'raised %s: %s' % (type(e).__name__, e)
            obs.append(_mk('bspline:%s:post:coll-axis[sdim=%d]' % (fname, sdim), ok,
                           'knot-vector axis d is paired with coordinate sdim-1-d (xyz vs zyx order) and the call does not raise', detail, src='coll = [...]'))
            # point order: the coordinate arrays may have any memory layout (transposed views, Fortran order); the points must reach the
            # collocation routine in index (row-major) order, because the result is reshaped to the shape of the coordinate arrays in that
            # order.  Recorded on 2x3 coordinate arrays that are transposed views (memory order != index order).
            seen = []

            def rec2(kv, pts, derivs=None):
                seen.append((kv.d, [float(x) for x in pts]))
                n = len(pts)
                idx = onp.zeros(n, dtype=int)
                if derivs is None:
                    w = onp.zeros((n, 2))
                    w[:, 0] = onp.asarray(pts)          # weight of local function 0 = the coordinate itself
                    return idx, w
                return idx, onp.ones((derivs + 1, n, 2))
            ns2 = {'np': onp, callee: rec2}
            exec(code, ns2)
            pts2 = tuple((onp.arange(6.0).reshape(3, 2) + 10.0 * (k + 1)).T for k in range(sdim))        # shape (2,3), not C-contiguous
            coeffs2 = onp.ones((2,) * sdim + (1,))
            try:
                out = ns2[fname](kvs, coeffs2, pts2)
                want2 = [(d, [float(x) for x in pts2[sdim - 1 - d].ravel(order='C')]) for d in range(sdim)]
                ok2 = seen == want2
                detail2 = 'coordinates handed to the collocation routine: %r, expected (index order) %r' % (seen, want2)
                if ok2 and fname == 'tp_bsp_eval_pointwise':
                    # with these recorded weights and unit coefficients the value at point (i,j) is the product of its coordinates
                    prod = onp.ones((2, 3))
                    for a in pts2:
                        prod = prod * a
                    got = onp.asarray(out)
                    got = got.reshape(got.shape[:2]) if got.size == 6 else got
                    ok2 = got.shape == (2, 3) and bool(onp.allclose(got, prod))
                    detail2 = 'values come back at permuted positions: got %r, expected %r' % (got.tolist(), prod.tolist())
            except Exception as e:
                ok2, detail2 = False, 'raised %s: %s' % (type(e).__name__, e)
            obs.append(_mk('bspline:%s:post:point-order[sdim=%d]' % (fname, sdim), ok2,
                           'scattered points are processed in index order of the coordinate arrays, independent of their memory layout', detail2, src='XY = ...'))
    return obs, None


_NAMES = {'left': (1, 0), 'right': (1, 1), 'bottom': (2, 0), 'top': (2, 1), 'front': (3, 0), 'back': (3, 1)}


def _bdspec_contract(dim, spec):
    if isinstance(spec, str):
        k, side = _NAMES.get(spec, (None, None))
        valid = k is not None and dim - k >= 0
        want = (dim - k, side) if valid else None
    else:
        valid = len(spec) == 2 and spec[1] in (0, 1) and 0 <= spec[0] < dim
        want = tuple(spec) if valid else None
    from pyvc.values import VTuple
    val = spec if isinstance(spec, str) else VTuple(spec)
    return Contract(
        FB, '_parse_bdspec', name='bspline:_parse_bdspec[dim=%d,%r]' % (dim, spec),
        params={'bdspec': Const(val), 'dim': Const(dim)},
        ensures=(lambda s: [('table', And(s.result[0] == want[0], s.result[1] == want[1]))]) if valid else (lambda s: [('must-raise', False)]),
        raises={} if valid else {'ValueError': lambda s: True},
        options={'no_return_ok': not valid},
    )


BDSPEC_CONTRACTS = [_bdspec_contract(dim, spec) for dim in (1, 2, 3)
                    for spec in list(_NAMES) + [(ax, s_) for ax in range(-1, 4) for s_ in (0, 1, 2)]]


def boundary_function_obligations():
    """_BoundaryFunction.eval inserts the fixed coordinate at position len(x)-axis of the xyz argument list, i.e. at knot-vector axis `axis`"""
    src = frontend.load(FG)
    obs = []
    cls = [c for c in src.classes() if c.name == '_BoundaryFunction'][0]
    code = compile(ast.Module(body=[cls], type_ignores=[]), src.path, 'exec')
    for sdim in (1, 2, 3):
        for axis in range(sdim):
            for side in (0, 1):
                got = {}

                class F:
                    pass
                f = F()
                f.sdim, f.dim = sdim, 1
                f.support = tuple((10.0 * d, 10.0 * d + 1) for d in range(sdim))        # per knot-vector axis
                f.output_shape = lambda: ()
                f.__class__.__call__ = lambda self, *x: got.setdefault('x', x)

                class BS:
                    @staticmethod
                    def _parse_bdspec(b, d):
                        return b

                    class _BaseGeoFunc:
                        pass
                ns = {'bspline': BS, 'np': onp, 'utils': None}
                exec(code, ns)
                B = ns['_BoundaryFunction'](f, (axis, side))
                xs = [float(k) for k in range(sdim - 1)]          # xyz order arguments of the boundary function
                B.eval(*xs)
                full = list(got['x'])                                # xyz order arguments passed to f
                zyx = list(reversed(full))
                fixed = f.support[axis][side]
                rest = [v for d, v in enumerate(zyx) if d != axis]
                ok = zyx[axis] == fixed and rest == list(reversed(xs)) and B.sdim == sdim - 1 and B.support == f.support[:axis] + f.support[axis + 1:]
                obs.append(_mk('geometry:_BoundaryFunction:post:eval-axis[sdim=%d,axis=%d,side=%d]' % (sdim, axis, side), ok,
                               'the fixed coordinate is inserted at knot-vector axis `axis`, the other coordinates keep their order', 'f called with %r' % (full,)))
    return obs, None


# operations that must not alter their operands: (file, qualified name)
OPERATIONS = [
    (FB, 'BSplineFunc.' + m) for m in ('translate', 'scale', 'apply_matrix', 'rotate_2d', 'as_nurbs', 'as_vector', '__getitem__', 'boundary', 'copy',
                                       'cylinderize', 'perturb', 'grid_eval', 'grid_jacobian', 'grid_hessian', 'pointwise_eval', 'pointwise_jacobian')
] + [
    (FG, 'NurbsFunc.' + m) for m in ('translate', 'scale', 'apply_matrix', 'rotate_2d', 'as_nurbs', 'as_vector', '__getitem__', 'boundary', 'copy',
                                     'coeffs_weights', 'grid_eval', 'grid_jacobian', 'grid_hessian', 'pointwise_eval', 'pointwise_jacobian')
] + [(FG, f) for f in ('outer_sum', 'outer_product', 'tensor_product', '_prepare_for_outer', '_nurbs_jacobian')]

_MUT_METHODS = {'sort', 'fill', 'resize', 'put', 'itemset', 'setflags', 'append', 'extend', 'insert', 'pop', 'remove', 'clear', 'update', 'reverse', 'partition'}


def frame_obligations():
    """no statement of an operation stores into an attribute / element of `self` or of a parameter, applies an in-place operator to them, or
    calls a mutating method on them (locals freshly created inside the function may be modified)"""
    obs = []
    for (file, qn) in OPERATIONS:
        src = frontend.load(file)
        try:
            fn = src.find(qn)
        except KeyError:
            continue       # optional operation not present in this version
        params = {a.arg for a in fn.args.args}
        # names that alias a parameter (x = self.coeffs, C = G1.coeffs ...) are tracked one level deep
        alias = set(params)
        fresh = set()
        for st in ast.walk(fn):
            if isinstance(st, ast.Assign) and isinstance(st.value, (ast.Attribute, ast.Subscript, ast.Name)):
                root = st.value
                while isinstance(root, (ast.Attribute, ast.Subscript)):
                    root = root.value
                if isinstance(root, ast.Name) and root.id in alias:
                    for t in st.targets:
                        # only a BINDING (x = self.coeffs, a, b = self.kvs) creates an alias; `f.attr = self.attr` stores into f, it does
                        # not make f an alias of self
                        for e in ([t] if isinstance(t, ast.Name) else (t.elts if isinstance(t, (ast.Tuple, ast.List)) else [])):
                            if isinstance(e, ast.Name):
                                alias.add(e.id)
        bad = []
        for st in ast.walk(fn):
            tg = []
            if isinstance(st, ast.Assign):
                tg = st.targets
            elif isinstance(st, (ast.AugAssign,)):
                tg = [st.target]
                # x += ... on a plain local that aliases a parameter array mutates it in place
                if isinstance(st.target, ast.Name) and st.target.id in alias and st.target.id not in params:
                    bad.append((st.lineno, 'in-place operator on an alias of a parameter: ' + ast.unparse(st)))
            for t in tg:
                for e in ([t] if not isinstance(t, ast.Tuple) else t.elts):
                    if isinstance(e, (ast.Attribute, ast.Subscript)):
                        root = e
                        while isinstance(root, (ast.Attribute, ast.Subscript)):
                            root = root.value
                        if isinstance(root, ast.Name) and root.id in alias:
                            bad.append((st.lineno, 'store into an operand: ' + ast.unparse(st)[:80]))
            if isinstance(st, ast.Call) and isinstance(st.func, ast.Attribute) and st.func.attr in _MUT_METHODS:
                root = st.func.value
                while isinstance(root, (ast.Attribute, ast.Subscript)):
                    root = root.value
                if isinstance(root, ast.Name) and root.id in alias:
                    bad.append((st.lineno, 'mutating call on an operand: ' + ast.unparse(st)[:80]))
        obs.append(_mk('%s:%s:frame:assigns-nothing-on-operands' % (file.split('/')[-1][:-3], qn), not bad,
                       '%s stores nothing into self / its arguments' % qn, '; '.join('line %d: %s' % b for b in bad), backend='ast-frame-analysis',
                       src='def ' + qn.split('.')[-1]))
    return obs, None
