"""C03 contracts on pyiga/_hdiscr.py: the THB code paths are the congruence / transposed transform of the HB results.

Matrices are elements of the executor's abstract vector sort; '@', '.T' and method calls on them are uninterpreted
operations (congruence is all the proof needs).  The HB branch (index bookkeeping over numpy/scipy objects) is outside
the executor's subset and is decided by the bounded tier."""
import z3
from pyvc.spec import *
from pyvc.values import fresh_vec, VecSort

F = 'pyiga/_hdiscr.py'

T_of = z3.Function('thb_to_hb_matrix', z3.IntSort(), VecSort)            # the matrix hs.thb_to_hb() of the space (argument: object identity)
A_hb_of = z3.Function('hb_matrix', z3.BoolSort(), VecSort)                # result of the HB assembly for a given symmetric flag


def _thb_spec(ex, st, call, **k):
    return T_of(z3.IntVal(0))


def _asm_rec(ex, st, call, symmetric=False, **k):
    # the recursive call must run with truncate switched off
    me = st.heap[st.env['self'].id]
    ex.oblige(st, 'pre', call, z3.Not(to_z3(me.attrs['truncate'])), 'the HB matrix is assembled with self.truncate == False', label='recursive-call:truncate-off')
    return A_hb_of(to_z3(symmetric) if z3.is_expr(to_z3(symmetric)) else z3.BoolVal(bool(symmetric)))


def _post(s):
    T = T_of(z3.IntVal(0))
    A = A_hb_of(s.symmetric)
    return [('congruence', s.result == vop('call_tocsr', vop('MatMult', vop('MatMult', vop('attr_T', T), A), T))),
            ('truncate-flag-restored', s.self.truncate == s.old.self.truncate)]


assemble_matrix_thb = Contract(
    F, 'HDiscretization.assemble_matrix', name='hdiscr:HDiscretization.assemble_matrix[THB branch]',
    params={'self': Obj(truncate=Bool(), hs=Opaque()), 'symmetric': Bool()},
    requires=lambda s: [s.self.truncate],
    callees={'self.assemble_matrix': _asm_rec, 'thb_to_hb': _thb_spec},
    ensures=_post,
    options={'timeout_ms': 20000},
    notes=['only the branch self.truncate == True is under contract (precondition); the recursive call is replaced by its abstract result',
           "matrix operations are uninterpreted: the postcondition states that the value returned is (T.T @ A_hb @ T).tocsr() with T = hs.thb_to_hb()"],
)

CONTRACTS = [assemble_matrix_thb]
