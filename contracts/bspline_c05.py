"""C05 contract: bspline.knot_insertion is Boehm's algorithm.

For an open knot vector t_0..t_{n+p} of degree p and kv[p] <= u < kv[n] with span index k (t_k <= u < t_{k+1}), the
returned (n+1) x n matrix P has
    row i <= k-p      : P[i,i]   = 1
    row k-p < i <= k  : P[i,i-1] = 1 - a_i,  P[i,i] = a_i,   a_i = (u - t_i) / (t_{i+p} - t_i) in [0,1]
    row i > k         : P[i,i-1] = 1
and zeros elsewhere -- the coefficient map of knot insertion (Boehm 1980), which represents the same spline over the
refined knot vector; all denominators are positive and all stores in range."""
import z3
from pyvc.spec import *
from contracts.common import open_kv, sorted_leq
from contracts import bspline as B

F = 'pyiga/bspline.py'


def _req(s):
    kv, p, u, n = s.kv.kv, s.kv.p, s.u, s.kv.numdofs
    return open_kv(kv, p) + [sorted_leq(kv), kv.len <= 2**31 - 1, n == kv.len - p - 1, kv[p] <= u, u < kv[n]]


def _alpha(s, i):
    t = s.kv.kv
    return (s.u - t[i]) / (t[i + s.kv.p] - t[i])


def _rows(s, P, k, lo1, done2_from, lo3):
    """rows [0,lo1) identity part, rows [done2_from, n] shifted part, rows [lo3, k] Boehm part are final; everything else still zero"""
    n, p = s.kv.numdofs, s.kv.p
    t = s.kv.kv

    def entry(i, j):
        a = (s.u - t[i]) / (t[i + p] - t[i])
        top = And(0 <= i, i < lo1)
        bot = And(done2_from <= i, i <= n)
        mid = And(lo3 <= i, i <= k, i > k - p)
        return If(And(top, j == i), 1.0,
               If(And(bot, j == i - 1), 1.0,
               If(And(mid, j == i - 1), 1 - a,
               If(And(mid, j == i), a, 0.0))))
    return ForAll('i j', lambda i, j: Implies(And(0 <= i, i <= n, 0 <= j, j < n), P[i, j] == entry(i, j)))


def _inv1(s):
    k, p, n = s.k, s.kv.p, s.kv.numdofs
    return [('rows', _rows(s, s.P, k, s.i, n + 1, k + 1)), ('shape', And(s.P.shape[0] == n + 1, s.P.shape[1] == n)), ('k', And(p <= k, k <= n - 1))]


def _inv2(s):
    k, p, n = s.k, s.kv.p, s.kv.numdofs
    # second loop runs upwards from k+1: rows [k+1, i) are done
    n_, p_ = n, p
    t = s.kv.kv

    def entry(i, j):
        top = And(0 <= i, i < k - p + 1)
        bot = And(k + 1 <= i, i < s.i)
        return If(And(top, j == i), 1.0, If(And(bot, j == i - 1), 1.0, 0.0))
    return [('rows', ForAll('i j', lambda i, j: Implies(And(0 <= i, i <= n, 0 <= j, j < n), s.P[i, j] == entry(i, j)))),
            ('shape', And(s.P.shape[0] == n + 1, s.P.shape[1] == n)), ('k', And(p <= k, k <= n - 1))]


def _inv3(s):
    k, p, n = s.k, s.kv.p, s.kv.numdofs
    # reversed loop: the counter runs from k down to k-p+1; rows (i, k] are done
    return [('rows', _rows(s, s.P, k, k - p + 1, k + 1, s.i + 1)), ('shape', And(s.P.shape[0] == n + 1, s.P.shape[1] == n)),
            ('k', And(p <= k, k <= n - 1)), ('span', And(s.kv.kv[k] <= s.u, s.u < s.kv.kv[k + 1])), ('knots', s.knots.data == s.kv.kv.data if hasattr(s.knots, 'data') else True)]


def _post(s):
    n, p, t, u = s.kv.numdofs, s.kv.p, s.kv.kv, s.u
    P = s.result
    k = z3.Int('k_span')
    span = And(p <= k, k <= n - 1, t[k] <= u, u < t[k + 1])

    def alpha(i):
        return (u - t[i]) / (t[i + p] - t[i])
    return [('shape', And(P.shape[0] == n + 1, P.shape[1] == n)),
            ('boehm', z3.Exists([k], And(span, ForAll('i j', lambda i, j: Implies(And(0 <= i, i <= n, 0 <= j, j < n), P[i, j] ==
                If(And(i <= k - p, j == i), 1.0, If(And(i > k, j == i - 1), 1.0,
                   If(And(k - p < i, i <= k, j == i - 1), 1 - alpha(i), If(And(k - p < i, i <= k, j == i), alpha(i), 0.0))))))))),
            ('convex-rows', ForAll('i j', lambda i, j: Implies(And(0 <= i, i <= n, 0 <= j, j < n), And(P[i, j] >= 0, P[i, j] <= 1))))]


knot_insertion = Contract(
    F, 'knot_insertion',
    params={'kv': Obj(kv=Arr('real', 1, numpy=True), p=Int(0), numdofs=Int(1)), 'u': Real()},
    requires=_req,
    callees={'findspan': B.findspan_m},
    loops={0: LoopSpec(r'for i in range\(k\b[^,]*\):', inv=_inv1),
           1: LoopSpec(r'for i in range\(k \+ 1, n \+ 1\)', inv=_inv2),
           2: LoopSpec(r'for i in reversed\(range\(k - p \+ 1, k \+ 1\)\)', inv=_inv3)},
    ensures=_post,
    options={'timeout_ms': 60000, 'float_div_raises': True},
    notes=['scipy.sparse.lil_matrix((m, n)) is modelled as the m x n zero matrix with element assignment, tocsr() keeps the values (library model)',
           'kv.findspan is used through its contract (C19)', 'real arithmetic instead of IEEE doubles'],
)

CONTRACTS = [knot_insertion]
