"""C16 contracts on pyiga/operators.py: the REAL operator classes (compiled from the current source) are executed over formal vectors
and abstract linear maps; numpy is replaced by the contracts of the few calls the classes make and scipy's LinearOperator by a
minimal base class with its documented dispatch (dot -> _matvec/_matmat, .T -> _transpose(), .H -> _adjoint()).

Obligations (for ALL vectors x and ALL block / factor operators, which are opaque named linear maps):
  block       BlockOperator(layout).dot(x) = sum over non-empty blocks (i,j) of E_i A_ij R_j x   (E_i / R_j: embedding of row-range i /
              restriction to column-range j), for every layout pattern of real / None / NullOperator blocks up to 3x3 (row 0 and column 0
              must carry real or Null operators, as the constructor reads the sizes off them); transpose and adjoint likewise
  blockdiag   BlockDiagonalOperator(A_1..A_k).dot(x) = sum_i E_i A_i R_i x
  subspace    SubspaceOperator(P, B).dot(x) = sum_j P_j B_j P_j^T x, transpose = sum_j P_j B_j^T P_j^T x, double transpose = itself
  kron        KroneckerOperator(*ops).T / .H hand the transposed / adjoint factors to the application routine in the same order; dense or
              non-square factors select the dense routine, square non-dense ones the linear-operator routine
The application routines themselves (tensordot / Fortran-order reshapes) are numpy semantics: bounded tier."""
import ast
import itertools
import time

import sympy as sp

from pyvc import frontend
from pyvc.symexec import Obligation
from .solvers_steps import Vec

F = 'pyiga/operators.py'


class Op:
    """opaque named linear map with shape; transposition and conjugation are tracked as flags (t, c): .T toggles t, .conj() toggles c,
    .H toggles both"""
    has_H = True

    def __init__(self, name, shape, kind='linop', t=False, c=False):
        self.name, self.shape, self.kind, self.t, self.c = name, tuple(shape), kind, t, c
        self.dtype = float

    def _label(self):
        return self.name + {(False, False): '', (True, False): '^T', (True, True): '^H', (False, True): '^C'}[(self.t, self.c)]

    def _new(self, t, c, shape):
        return type(self)(self.name, shape, self.kind, t=t, c=c)

    def dot(self, v):
        if isinstance(v, BlockVec):
            raise TypeError('operator applied to an unrestricted block vector')
        out = Vec()
        for a, cf in v.t.items():
            out = out + Vec({'%s(%s)' % (self._label(), a): cf})
        return out
    __matmul__ = dot

    @property
    def T(self):
        return self._new(not self.t, self.c, self.shape[::-1])

    def conj(self):
        return self._new(self.t, not self.c, self.shape)

    def __getattr__(self, name):
        if name == 'H':
            if not type(self).has_H:
                raise AttributeError("'numpy.ndarray' object has no attribute 'H'")
            return self._new(not self.t, not self.c, self.shape[::-1])
        raise AttributeError(name)


class DenseOp(Op):
    """a factor that is an ndarray / sparse matrix: has .T and .conj() but no .H"""
    has_H = False


class BlockVec:
    """formal vector of length n addressed through range objects that are pairwise identical or disjoint"""

    def __init__(self, n, parts=None, name=None):
        self.n, self.parts, self.name = n, dict(parts or {}), name
        self.ndim = 1
        self.shape = (n,)

    @staticmethod
    def _key(r):
        if not isinstance(r, range) or r.step != 1:
            raise TypeError('block vector indexed by %r' % (r,))
        return (r.start, r.stop)

    def __getitem__(self, r):
        k = self._key(r)
        if self.name is not None:
            return Vec.atom('%s[%d:%d]' % (self.name, k[0], k[1]))
        for (a, b) in self.parts:
            if (a, b) != k and not (b <= k[0] or k[1] <= a):
                raise TypeError('overlapping ranges %r and %r' % ((a, b), k))
        return self.parts.get(k, Vec())

    def __setitem__(self, r, val):
        if self.name is not None:
            raise TypeError('store into the input vector')
        self.parts[self._key(r)] = val

    def __iadd__(self, v):
        # y += v on the whole vector (y = np.zeros(n) accumulating full-length terms)
        if self.name is not None or not isinstance(v, Vec):
            raise TypeError('in-place addition on %r' % (self,))
        k = (0, self.n)
        self.parts[k] = self.parts.get(k, Vec()) + v
        return self

    def __len__(self):
        return self.n


class LinearOperatorBase:
    """scipy.sparse.linalg.LinearOperator, reduced to what the classes rely on"""

    def __init__(self, dtype=None, shape=None):
        self.dtype, self.shape = dtype, tuple(int(s) for s in shape)

    def dot(self, x):
        if getattr(x, 'ndim', 1) == 2:
            return self._matmat(x)
        return self._matvec(x)
    __matmul__ = dot

    @property
    def T(self):
        return self._transpose()

    @property
    def H(self):
        return self._adjoint()


def _namespace(record):
    import numpy as real_np

    class NP:
        float64 = float
        ndarray = DenseOp

        @staticmethod
        def zeros(n, dtype=None):
            if isinstance(n, tuple):
                raise TypeError('matrix right-hand sides are not part of the formal run')
            return BlockVec(int(n)) if not isinstance(n, sp.Basic) else Vec()

        @staticmethod
        def squeeze(x):
            return x

        @staticmethod
        def prod(xs):
            return int(real_np.prod(list(xs)))

        @staticmethod
        def cumsum(xs):
            return real_np.cumsum(list(xs))

        @staticmethod
        def conj(x):
            return x.conj()

    class _SSL:
        LinearOperator = LinearOperatorBase

    class _SS:
        linalg = _SSL

    class _SP:
        sparse = _SS

    class _Kron:
        @staticmethod
        def _apply_kronecker_dense(ops, x):
            record.append(('dense', [o._label() for o in ops]))
            return Vec.atom('kron_dense')

        @staticmethod
        def _apply_kronecker_linops(ops, x):
            record.append(('linops', [o._label() for o in ops]))
            return Vec.atom('kron_linops')
    return {'np': NP, 'scipy': _SP, 'kronecker': _Kron, 'range': range, 'HAVE_MKL': False}


def _load(record):
    src = frontend.load(F)
    body = []
    for st in src.module.body:
        if isinstance(st, (ast.Import, ast.ImportFrom, ast.Try)):
            continue
        if isinstance(st, ast.Assign) and any(isinstance(t, ast.Name) and t.id == 'HAVE_MKL' for t in st.targets):
            continue
        body.append(st)
    ns = _namespace(record)
    exec(compile(ast.Module(body=body, type_ignores=[]), src.path, 'exec'), ns)
    return ns


def _mk(oid, ok, desc, detail=''):
    o = Obligation('operators:' + oid, 'post', 0, [], None, desc, src=F)
    o.status, o.backend, o.time = ('proved' if ok else 'refuted'), 'formal execution of the real class (abstract linear maps)', 0.0
    if not ok:
        o.goal = detail
    return o


def _same(a, b):
    return (a - b).t == {} if isinstance(a, Vec) and isinstance(b, Vec) else a == b


def _blockvec_equal(y, expect):
    parts = {k: v for k, v in y.parts.items() if v.t}
    exp = {k: v for k, v in expect.items() if v.t}
    if set(parts) != set(exp):
        return False, 'non-zero output ranges %r, expected %r' % (sorted(parts), sorted(exp))
    for k in exp:
        if not _same(parts[k], exp[k]):
            return False, 'rows %d:%d: got %r, expected %r' % (k[0], k[1], parts[k].t, exp[k].t)
    return True, ''


def block_obligations():
    rec = []
    ns = _load(rec)
    obs = []
    heights, widths = [2, 3, 1], [1, 2, 4]
    kinds = ('op', 'none', 'null')
    n_layouts = 0
    bad = []
    badT = []
    for M in (1, 2, 3):
        for N in (1, 2, 3):
            cells = [(i, j) for i in range(M) for j in range(N)]
            free = [c for c in cells if c[0] != 0 and c[1] != 0]
            edge = [c for c in cells if c not in free]
            for edge_kinds in itertools.product(('op', 'null'), repeat=len(edge)):
                for free_kinds in itertools.product(kinds, repeat=len(free)):
                    lay = dict(zip(edge, edge_kinds))
                    lay.update(zip(free, free_kinds))
                    if all(v != 'op' for v in lay.values()):
                        continue
                    n_layouts += 1
                    blocks = []
                    for i in range(M):
                        row = []
                        for j in range(N):
                            k = lay[(i, j)]
                            if k == 'op':
                                row.append(Op('A%d%d' % (i, j), (heights[i], widths[j])))
                            elif k == 'null':
                                row.append(ns['NullOperator']((heights[i], widths[j])))
                            else:
                                row.append(None)
                        blocks.append(row)
                    B = ns['BlockOperator'](blocks)
                    ro = [0]
                    for h in heights[:M]:
                        ro.append(ro[-1] + h)
                    co = [0]
                    for w in widths[:N]:
                        co.append(co[-1] + w)
                    if tuple(B.shape) != (ro[-1], co[-1]):
                        bad.append('layout %r: shape %r' % (lay, B.shape))
                        continue
                    x = BlockVec(co[-1], name='x')
                    y = B.dot(x)
                    exp = {}
                    for (i, j), k in lay.items():
                        if k == 'op':
                            key = (ro[i], ro[i + 1])
                            exp[key] = exp.get(key, Vec()) + Vec.atom('A%d%d(x[%d:%d])' % (i, j, co[j], co[j + 1]))
                    ok, detail = _blockvec_equal(y, exp)
                    if not ok:
                        bad.append('layout %r: %s' % (sorted(lay.items()), detail))
                    for attr, tag in (('T', '^T'), ('H', '^H')):
                        z = BlockVec(ro[-1], name='z')
                        yt = getattr(B, attr).dot(z)
                        expT = {}
                        for (i, j), k in lay.items():
                            if k == 'op':
                                key = (co[j], co[j + 1])
                                expT[key] = expT.get(key, Vec()) + Vec.atom('A%d%d%s(z[%d:%d])' % (i, j, tag, ro[i], ro[i + 1]))
                        okT, detailT = _blockvec_equal(yt, expT)
                        if tuple(getattr(B, attr).shape) != (co[-1], ro[-1]):
                            okT, detailT = False, 'shape %r' % (getattr(B, attr).shape,)
                        if not okT:
                            badT.append('layout %r .%s: %s' % (sorted(lay.items()), attr, detailT))
    obs.append(_mk('BlockOperator:acts-like-the-block-matrix', not bad, 'for all %d layouts of real / None / NullOperator blocks up to 3x3 and all x: '
                   'BlockOperator(blocks).dot(x) = sum of E_i A_ij R_j x over the real blocks, shape = (sum of row heights, sum of column widths)' % n_layouts,
                   '; '.join(bad[:2])))
    obs.append(_mk('BlockOperator:transpose-and-adjoint', not badT, 'for the same layouts: .T / .H act like the transposed / adjoint block matrix '
                   '(blocks transposed / adjoint, row and column ranges exchanged)', '; '.join(badT[:2])))
    # block diagonal
    bad = []
    for k in (1, 2, 3):
        shapes = [(2, 3), (1, 1), (3, 2)][:k]
        ops = [Op('D%d' % i, s) for i, s in enumerate(shapes)]
        B = ns['BlockDiagonalOperator'](*ops)
        ro = [0]
        co = [0]
        for (m, n) in shapes:
            ro.append(ro[-1] + m)
            co.append(co[-1] + n)
        y = B.dot(BlockVec(co[-1], name='x'))
        exp = {(ro[i], ro[i + 1]): Vec.atom('D%d(x[%d:%d])' % (i, co[i], co[i + 1])) for i in range(k)}
        ok, detail = _blockvec_equal(y, exp)
        if not ok or tuple(B.shape) != (ro[-1], co[-1]):
            bad.append('%d blocks: %s shape %r' % (k, detail, B.shape))
    obs.append(_mk('BlockDiagonalOperator:acts-like-the-block-diagonal-matrix', not bad, 'BlockDiagonalOperator(A_1..A_k).dot(x) = sum_i E_i A_i R_i x for '
                   'rectangular blocks, k <= 3', '; '.join(bad[:2])))
    return obs, None


def subspace_obligations():
    rec = []
    ns = _load(rec)
    obs = []
    bad = []
    n = 5
    for k in (1, 2, 3):
        Ps = [Op('P%d' % j, (n, 1 + j)) for j in range(k)]
        Bs = [Op('B%d' % j, (1 + j, 1 + j)) for j in range(k)]
        S = ns['SubspaceOperator'](Ps, Bs)
        x = Vec.atom('x')
        x_ = _VecArg(x, n)
        y = S.dot(x_)
        exp = Vec()
        for j in range(k):
            exp = exp + Vec.atom('P%d(B%d(P%d^T(x)))' % (j, j, j))
        if not _same(_unwrap(y), exp) or tuple(S.shape) != (n, n):
            bad.append('k=%d: %r' % (k, _unwrap(y).t))
        yt = S.T.dot(x_)
        expT = Vec()
        for j in range(k):
            expT = expT + Vec.atom('P%d(B%d^T(P%d^T(x)))' % (j, j, j))
        if not _same(_unwrap(yt), expT):
            bad.append('k=%d transpose: %r' % (k, _unwrap(yt).t))
        if not _same(_unwrap(S.T.T.dot(x_)), exp):
            bad.append('k=%d double transpose' % k)
    obs.append(_mk('SubspaceOperator:additive-subspace-correction', not bad, 'SubspaceOperator(P, B).dot(x) = sum_j P_j B_j P_j^T x; its transpose uses B_j^T; '
                   'transposing twice gives the operator back (k <= 3 subspaces, all x)', '; '.join(bad[:2])))
    return obs, None


class _VecArg(Vec):
    """a formal vector that also answers len() and .ndim like a 1-d array"""

    def __init__(self, v, n):
        super().__init__(v.t)
        self._n = n
        self.ndim = 1

    def __len__(self):
        return self._n


def _unwrap(y):
    if isinstance(y, BlockVec):
        tot = Vec()
        for v in y.parts.values():
            tot = tot + v
        return tot
    return y


def kron_obligations():
    obs = []
    bad = []
    for kinds in itertools.product(('dense', 'linop'), repeat=2):
        # (the third shape list: rectangular factors whose product is square -- still the dense routine)
        for shapes in ([(2, 2), (3, 3)], [(2, 3), (3, 1)], [(2, 3), (3, 2)], [(2, 2), (1, 3)]):
            square = all(m == n for (m, n) in shapes)
            rec = []
            ns = _load(rec)
            ops = [(DenseOp if kd == 'dense' else Op)('K%d' % i, s, kind=kd) for i, (s, kd) in enumerate(zip(shapes, kinds))]
            K = ns['KroneckerOperator'](*ops)
            want_shape = (shapes[0][0] * shapes[1][0], shapes[0][1] * shapes[1][1])
            if tuple(K.shape) != want_shape:
                bad.append('%r %r: shape %r' % (kinds, shapes, K.shape))
            alldense = all(kd == 'dense' for kd in kinds)
            route = 'dense' if (alldense or not square) else 'linops'
            for attr, suffix in ((None, ''), ('T', '^T'), ('H', '^H')):
                del rec[:]
                Kx = K if attr is None else getattr(K, attr)
                Kx.dot(_VecArg(Vec.atom('x'), 1))
                want = (route, ['K%d%s' % (i, suffix) for i in range(2)])
                if rec != [want]:
                    bad.append('%r square=%s %s: routed %r, expected %r' % (kinds, square, attr or 'plain', rec, want))
                sh = want_shape if attr is None else want_shape[::-1]
                if tuple(Kx.shape) != sh:
                    bad.append('%r %s: shape %r' % (kinds, attr, Kx.shape))
    obs.append(_mk('KroneckerOperator:factors-order-and-dispatch', not bad, 'KroneckerOperator(*ops), .T and .H apply the (transposed / adjoint) factors in the '
                   'given order; all-dense or non-square factors use the dense routine, square non-dense ones the linear-operator routine; shape = '
                   '(prod rows, prod cols); dense factors need no .H attribute', '; '.join(bad[:2])))
    return obs, None


def _guard(fn, oid):
    """an exception inside the formal run (the shims model only what the unchanged classes use) is undecided, not a refutation"""
    def run():
        try:
            return fn()
        except Exception as e:
            import traceback
            o = Obligation('operators:' + oid, 'post', 0, [], None, 'formal execution of the operator classes', src=F)
            o.status, o.backend, o.time = 'unknown', 'formal execution of the real class (abstract linear maps)', 0.0
            o.goal = 'formal run raised %s: %s | %s' % (type(e).__name__, e, traceback.format_exc(limit=3)[-400:])
            return [o], None
    return run


def results():
    from pyvc import solve
    return [solve.custom_result('operators:block', F, 'BlockOperator / BlockDiagonalOperator / BaseBlockOperator', _guard(block_obligations, 'block:run')),
            solve.custom_result('operators:subspace', F, 'SubspaceOperator', _guard(subspace_obligations, 'subspace:run')),
            solve.custom_result('operators:kronecker', F, 'KroneckerOperator', _guard(kron_obligations, 'kron:run'))]
