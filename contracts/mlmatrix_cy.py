"""Contracts for pyiga/mlmatrix_cy.pyx (multi-level structured matrices, compiled kernels)."""
import z3
from pyvc.spec import *

F = 'pyiga/mlmatrix_cy.pyx'
U32 = (0, 2**32 - 1)
BIG = 2**31 - 1


def bidx_sort():
    from pyvc.frontend import CType
    return Arr('int', 2, shape=(None, 2), elem_range=U32, elem_ctype=CType('int', bits=32, signed=False))


def wf_level(b, m, n):
    """every listed nonzero (row, col) of a level lies inside its m x n block"""
    return ForAll('q', lambda q: Implies(And(0 <= q, q < b.len), And(b[q, 0] < m, b[q, 1] < n)))


def horner(idx, dims):
    r = idx[0]
    for k in range(1, len(idx)):
        r = r * dims[k] + idx[k]
    return r


# ------------------------------------------------------------------------------------------------
# index maps

def _rfr_post(s):
    return [('decode', And(s.result[0] == s.g_b0 * s.m2 + s.g_i0, s.result[1] == s.g_b1 * s.n2 + s.g_i1)),
            ('range', And(s.result[0] < s.m1 * s.m2, s.result[1] < s.n1 * s.n2))]


# ghost parameters g_*: the block / inner coordinates the indices encode (i = g_b0*n1 + g_b1, j = g_i0*n2 + g_i1)
reindex_from_reordered = Contract(
    F, 'reindex_from_reordered',
    params={'g_b0': Int(0), 'g_b1': Int(0), 'g_i0': Int(0), 'g_i1': Int(0)},
    requires=lambda s: [s.n1 > 0, s.n2 > 0, s.m1 > 0, s.m2 > 0, s.m1 <= 2**30, s.n1 <= 2**30, s.m2 <= 2**30, s.n2 <= 2**30,
                        s.i == s.g_b0 * s.n1 + s.g_b1, s.g_b1 < s.n1, s.g_b0 < s.m1,
                        s.j == s.g_i0 * s.n2 + s.g_i1, s.g_i1 < s.n2, s.g_i0 < s.m2],
    ensures=_rfr_post,
    options={'timeout_ms': 60000},
)


def _toseq_contract(n):
    I64 = (-(2**63), 2**63 - 1)
    return Contract(
        F, 'to_seq', name='mlmatrix_cy:to_seq[n=%d]' % n,
        params={'I': PtrTo(Arr('int', 1, shape=(8,), elem_range=I64)), 'dims': PtrTo(Arr('int', 1, shape=(8,), elem_range=I64)), 'n': Const(n)},
        requires=lambda s: [And(*[And(0 <= s.I.arr[k], s.I.arr[k] < s.dims.arr[k], s.dims.arr[k] <= 2**15) for k in range(n)])],
        ensures=lambda s: [('value', s.result == horner([s.I.arr[k] for k in range(n)], [s.dims.arr[k] for k in range(n)])),
                           ('nonneg', s.result >= 0)],
    )


to_seq_instances = [_toseq_contract(n) for n in (1, 2, 3, 4)]


def _fromseq_contract(L):
    return Contract(
        F, 'from_seq', name='mlmatrix_cy:from_seq[L=%d]' % L,
        params={'i': Int(0), 'dims': Arr('int', 1, shape=(L,), elem_range=(-(2**63), 2**63 - 1))},
        requires=lambda s: [And(*[And(s.dims[k] > 0, s.dims[k] <= 2**15) for k in range(L)]), s.i < _prod([s.dims[k] for k in range(L)])],
        ensures=lambda s: [('digits-in-range', And(*[And(0 <= s.result[k], s.result[k] < s.dims[k]) for k in range(L)])),
                           ('recompose', horner(list(s.result), [s.dims[k] for k in range(L)]) == s.old.i)],
    )


from_seq_instances = [_fromseq_contract(L) for L in (1, 2, 3)]


def _rfm_contract(L):
    return Contract(
        F, 'reindex_from_multilevel', name='mlmatrix_cy:reindex_from_multilevel[L=%d]' % L,
        params=dict([('M', Tup(*[Int(0) for _ in range(L)])), ('bs', Arr('int', 2, shape=(L, 2), elem_range=(-(2**63), 2**63 - 1)))] +
                    [('g_r%d' % k, Int(0)) for k in range(L)] + [('g_c%d' % k, Int(0)) for k in range(L)]),
        requires=lambda s: [And(*[And(s.bs[k, 0] > 0, s.bs[k, 1] > 0, s.bs[k, 0] <= 2**10, s.bs[k, 1] <= 2**10,
                                      s.M[k] == getattr(s, 'g_r%d' % k) * s.bs[k, 1] + getattr(s, 'g_c%d' % k),
                                      getattr(s, 'g_c%d' % k) < s.bs[k, 1], getattr(s, 'g_r%d' % k) < s.bs[k, 0]) for k in range(L)])],
        ensures=lambda s: [('decode', And(s.result[0] == horner([getattr(s, 'g_r%d' % k) for k in range(L)], [s.bs[k, 0] for k in range(L)]),
                                          s.result[1] == horner([getattr(s, 'g_c%d' % k) for k in range(L)], [s.bs[k, 1] for k in range(L)])))],
        callees={'from_seq2': Inline(F, 'from_seq2')},
        options={'timeout_ms': 60000},
    )


rfm_instances = [_rfm_contract(L) for L in (1, 2)]   # L=3: the nonlinear decode VC is beyond both solvers' budget (bounded tier covers it)

# ------------------------------------------------------------------------------------------------
# nonzero pattern enumeration

BS2 = lambda: Tup(Tup(Int(1, BIG), Int(1, BIG)), Tup(Int(1, BIG), Int(1, BIG)))
BS3 = lambda: Tup(Tup(Int(1, BIG), Int(1, BIG)), Tup(Int(1, BIG), Int(1, BIG)), Tup(Int(1, BIG), Int(1, BIG)))


def _nz2_req(s):
    b1, b2 = s.bidx
    (m1, n1), (m2, n2) = s.block_sizes
    return [wf_level(b1, m1, n1), wf_level(b2, m2, n2), b1.len <= 2**20, b2.len <= 2**20,
            m1 * m2 <= 2**40, n1 * n2 <= 2**40]


# completeness of the (lower-triangular) pattern: cnt(i, j) = number of qualifying pairs among those lexicographically before (i, j)
_nz2cnt = z3.Function('nz2_count', z3.IntSort(), z3.IntSort(), z3.IntSort())


def _nz2_qual(s, i, j):
    b1, b2 = s.bidx
    (m1, n1), (m2, n2) = s.block_sizes
    return Or(Not(s.lower_tri), b1[i, 1] * n2 + b2[j, 1] <= b1[i, 0] * m2 + b2[j, 0])


def _nz2_count_axioms(s):
    b1, b2 = s.bidx
    return [_nz2cnt(0, 0) == 0,
            ForAll('i j', lambda i, j: Implies(And(0 <= i, 0 <= j, j < b2.len), _nz2cnt(i, j + 1) == _nz2cnt(i, j) + If(_nz2_qual(s, i, j), 1, 0))),
            ForAll('i', lambda i: Implies(0 <= i, _nz2cnt(i + 1, 0) == _nz2cnt(i, b2.len)))]


def _nz2_write(s):
    b1, b2 = s.bidx
    (m1, n1), (m2, n2) = s.block_sizes
    return [('row', s.I == b1[s.i, 0] * m2 + b2[s.j, 0]),
            ('slot', Implies(Not(s.lower_tri), s.idx == s.i * s.Nj + s.j)),
            ('filter', Implies(s.lower_tri, s.J <= s.I))]


def _nz2_write_col(s):
    b1, b2 = s.bidx
    (m1, n1), (m2, n2) = s.block_sizes
    return [('col', s.J == b1[s.i, 1] * n2 + b2[s.j, 1])]


ml_nonzero_2d = Contract(
    F, 'ml_nonzero_2d',
    params={'bidx': Tup(bidx_sort(), bidx_sort()), 'block_sizes': BS2(), 'lower_tri': Bool()},
    requires=lambda s: _nz2_req(s) + _nz2_count_axioms(s),
    loops={0: LoopSpec(r'for i in range\(Ni\)', inv=lambda s: [('count', And(0 <= s.idx, s.idx <= s.i * s.Nj)),
                                                              ('slot', Implies(Not(s.lower_tri), s.idx == s.i * s.Nj)),
                                                              ('complete', And(s.idx == _nz2cnt(s.i, 0), s.Nj == s.bidx[1].len))]),
           1: LoopSpec(r'for j in range\(Nj\)', inv=lambda s: [('count', And(0 <= s.idx, s.idx <= s.i * s.Nj + s.j)),
                                                              ('slot', Implies(Not(s.lower_tri), s.idx == s.i * s.Nj + s.j)),
                                                              ('i', And(0 <= s.i, s.i < s.Ni)),
                                                              ('complete', And(s.idx == _nz2cnt(s.i, s.j), s.Nj == s.bidx[1].len))])},
    checks=[(r'IJ\[0,idx\] = I', _nz2_write), (r'IJ\[1,idx\] = J', _nz2_write_col)],
    ensures=lambda s: [],
    options={'timeout_ms': 60000, 'check_int_products': True},
    notes=['pattern clause is a write-time contract: each stored pair is the Kronecker position of the current (i,j), stored at rank i*Nj+j '
           '(full pattern) resp. only if J<=I (lower_tri); idx is strictly increasing, so no slot is overwritten',
           'completeness: idx equals the number of qualifying pairs (all pairs, resp. those with J<=I) lexicographically before the current '
           '(i,j) -- nz2_count, defined by its recurrences (assumed definitional axioms) -- so no qualifying pair is skipped and the k-th '
           'qualifying pair is stored in slot k'],
)


def _nz3_req(s):
    b1, b2, b3 = s.bidx
    (m1, n1), (m2, n2), (m3, n3) = s.block_sizes
    return [wf_level(b1, m1, n1), wf_level(b2, m2, n2), wf_level(b3, m3, n3), b1.len <= 2**12, b2.len <= 2**12, b3.len <= 2**12,
            m1 <= 2**12, n1 <= 2**12, m2 <= 2**12, n2 <= 2**12, m3 <= 2**12, n3 <= 2**12]


_nz3cnt = z3.Function('nz3_count', z3.IntSort(), z3.IntSort(), z3.IntSort(), z3.IntSort())


def _nz3_qual(s, i, j, k):
    b1, b2, b3 = s.bidx
    (m1, n1), (m2, n2), (m3, n3) = s.block_sizes
    return Or(Not(s.lower_tri), (b1[i, 1] * n2 + b2[j, 1]) * n3 + b3[k, 1] <= (b1[i, 0] * m2 + b2[j, 0]) * m3 + b3[k, 0])


def _nz3_count_axioms(s):
    b1, b2, b3 = s.bidx
    return [_nz3cnt(0, 0, 0) == 0,
            ForAll('i j k', lambda i, j, k: Implies(And(0 <= i, 0 <= j, 0 <= k, k < b3.len), _nz3cnt(i, j, k + 1) == _nz3cnt(i, j, k) + If(_nz3_qual(s, i, j, k), 1, 0))),
            ForAll('i j', lambda i, j: Implies(And(0 <= i, 0 <= j), _nz3cnt(i, j + 1, 0) == _nz3cnt(i, j, b3.len))),
            ForAll('i', lambda i: Implies(0 <= i, _nz3cnt(i + 1, 0, 0) == _nz3cnt(i, b2.len, 0)))]


def _nz3_write(s):
    b1, b2, b3 = s.bidx
    (m1, n1), (m2, n2), (m3, n3) = s.block_sizes
    return [('row', s.I == (b1[s.i, 0] * m2 + b2[s.j, 0]) * m3 + b3[s.k, 0]),
            ('slot', Implies(Not(s.lower_tri), s.idx == (s.i * s.Nj + s.j) * s.Nk + s.k)),
            ('filter', Implies(s.lower_tri, s.J <= s.I))]


def _nz3_write_col(s):
    b1, b2, b3 = s.bidx
    (m1, n1), (m2, n2), (m3, n3) = s.block_sizes
    return [('col', s.J == (b1[s.i, 1] * n2 + b2[s.j, 1]) * n3 + b3[s.k, 1])]


ml_nonzero_3d = Contract(
    F, 'ml_nonzero_3d',
    params={'bidx': Tup(bidx_sort(), bidx_sort(), bidx_sort()), 'block_sizes': BS3(), 'lower_tri': Bool()},
    requires=lambda s: _nz3_req(s) + _nz3_count_axioms(s),
    loops={0: LoopSpec(r'for i in range\(Ni\)', inv=lambda s: [('count', And(0 <= s.idx, s.idx <= s.i * s.Nj * s.Nk)),
                                                              ('slot', Implies(Not(s.lower_tri), s.idx == s.i * s.Nj * s.Nk)),
                                                              ('complete', And(s.idx == _nz3cnt(s.i, 0, 0), s.Nj == s.bidx[1].len, s.Nk == s.bidx[2].len))]),
           1: LoopSpec(r'for j in range\(Nj\)', inv=lambda s: [('count', And(0 <= s.idx, s.idx <= (s.i * s.Nj + s.j) * s.Nk)),
                                                              ('slot', Implies(Not(s.lower_tri), s.idx == (s.i * s.Nj + s.j) * s.Nk)),
                                                              ('i', And(0 <= s.i, s.i < s.Ni)),
                                                              ('complete', And(s.idx == _nz3cnt(s.i, s.j, 0), s.Nj == s.bidx[1].len, s.Nk == s.bidx[2].len))]),
           2: LoopSpec(r'for k in range\(Nk\)', inv=lambda s: [('count', And(0 <= s.idx, s.idx <= (s.i * s.Nj + s.j) * s.Nk + s.k)),
                                                              ('slot', Implies(Not(s.lower_tri), s.idx == (s.i * s.Nj + s.j) * s.Nk + s.k)),
                                                              ('ij', And(0 <= s.i, s.i < s.Ni, 0 <= s.j, s.j < s.Nj)),
                                                              ('complete', And(s.idx == _nz3cnt(s.i, s.j, s.k), s.Nj == s.bidx[1].len, s.Nk == s.bidx[2].len))])},
    checks=[(r'IJ\[0,idx\] = I', _nz3_write), (r'IJ\[1,idx\] = J', _nz3_write_col)],
    options={'timeout_ms': 90000, 'check_int_products': True},
)


def _nznd_contract(L):
    def req(s):
        cs = [And(s.bidx[k].len >= 1, s.bidx[k].len <= 2**7, wf_level(s.bidx[k], s.block_sizes[k][0], s.block_sizes[k][1]),
                  s.block_sizes[k][0] <= 2**7, s.block_sizes[k][1] <= 2**7) for k in range(L)]
        return cs

    def cursor(s):
        return [('cursor-%d' % k, And(0 <= s.cur_idx[k], s.cur_idx[k] < s.NN[k],
                                      s.block_i[k] == s.bidx[k][s.cur_idx[k], 0],
                                      s.block_j[k] == s.bidx[k][s.cur_idx[k], 1])) for k in range(L)]

    def inv(s):
        rank = horner([s.cur_idx[k] for k in range(L)], [s.NN[k] for k in range(L)])
        return [('frame-%d' % k, And(s.NN[k] == s.bidx[k].len, s.block_rows[k] == s.block_sizes[k][0], s.block_cols[k] == s.block_sizes[k][1])) for k in range(L)] + \
               [('cursor', Implies(Not(s.done), And(*[c for _, c in cursor(s)])))] + \
               [('count', And(0 <= s.idx, Implies(Not(s.done), s.idx <= rank), s.idx <= s.N)),
                ('slot', Implies(And(Not(s.lower_tri), Not(s.done)), s.idx == rank)),
                ('N', s.N == horner([1] + [s.NN[k] for k in range(L)], [1] + [s.NN[k] for k in range(L)]) if False else s.N == _prod([s.NN[k] for k in range(L)]))]

    def write(s):
        return [('row', s.I == horner([s.bidx[k][s.cur_idx[k], 0] for k in range(L)], [s.block_sizes[k][0] for k in range(L)])),
                ('filter', Implies(s.lower_tri, s.J <= s.I))]

    def write_col(s):
        return [('col', s.J == horner([s.bidx[k][s.cur_idx[k], 1] for k in range(L)], [s.block_sizes[k][1] for k in range(L)]))]

    return Contract(
        F, 'ml_nonzero_nd', name='mlmatrix_cy:ml_nonzero_nd[L=%d]' % L,
        params={'bidx': Tup(*[bidx_sort() for _ in range(L)]), 'block_sizes': Tup(*[Tup(Int(1, 2**7), Int(1, 2**7)) for _ in range(L)]), 'lower_tri': Bool()},
        requires=req,
        loops={1: LoopSpec(r'while not done', inv=inv)},
        checks=[(r'IJ\[0,idx\] = I', write), (r'IJ\[1,idx\] = J', write_col)],
        callees={'to_seq': Inline(F, 'to_seq')},
        options={'timeout_ms': 120000},
        notes=['cursor-consistency invariant: block_i/block_j[k] are the row/column of nonzero cur_idx[k] of level k'],
    )


def _prod(xs):
    r = xs[0]
    for x in xs[1:]:
        r = r * x
    return r


nznd_instances = [_nznd_contract(L) for L in (1, 2, 3, 4)]

# ------------------------------------------------------------------------------------------------
# matvec: memory safety under the structure well-formedness


def _mv2_req(s):
    b1, b2 = s.bidx
    (m1, n1), (m2, n2) = s.block_sizes
    return [wf_level(b1, m1, n1), wf_level(b2, m2, n2), b1.len == s.X.shape[0], b2.len == s.X.shape[1],
            s.x.len == n1 * n2, s.y.len == m1 * m2, m1 <= 2**20, n1 <= 2**20, m2 <= 2**20, n2 <= 2**20]


ml_matvec_2d = Contract(
    F, 'ml_matvec_2d',
    params={'bidx': Tup(bidx_sort(), bidx_sort()), 'block_sizes': BS2()},
    requires=_mv2_req,
    modifies=('y',),
    loops={0: LoopSpec(r'for i in range\(M\)', inv=lambda s: [('len', s.y.len == s.old.y.len)]),
           1: LoopSpec(r'for j in range\(N\)', inv=lambda s: [('i', And(0 <= s.i, s.i < s.M)), ('len', s.y.len == s.old.y.len)])},
    checks=[(r'y\[I\] \+= X\[i,j\] \* x\[J\]', lambda s: [('row', s.I == s.bidx[0][s.i, 0] * s.block_sizes[1][0] + s.bidx[1][s.j, 0]),
                                                        ('col', s.J == s.bidx[0][s.i, 1] * s.block_sizes[1][1] + s.bidx[1][s.j, 1])])],
    options={'timeout_ms': 60000, 'check_int_products': True},
)


def _mv3_req(s):
    b1, b2, b3 = s.bidx
    (m1, n1), (m2, n2), (m3, n3) = s.block_sizes
    return [wf_level(b1, m1, n1), wf_level(b2, m2, n2), wf_level(b3, m3, n3),
            b1.len == s.X.shape[0], b2.len == s.X.shape[1], b3.len == s.X.shape[2],
            s.x.len == n1 * n2 * n3, s.y.len == m1 * m2 * m3] + [v <= 2**12 for v in (m1, n1, m2, n2, m3, n3)]


ml_matvec_3d = Contract(
    F, 'ml_matvec_3d',
    params={'bidx': Tup(bidx_sort(), bidx_sort(), bidx_sort()), 'block_sizes': BS3()},
    requires=_mv3_req,
    modifies=('y',),
    loops={0: LoopSpec(r'for i in range\(Ni\)', inv=lambda s: []),
           1: LoopSpec(r'for j in range\(Nj\)', inv=lambda s: [('i', And(0 <= s.i, s.i < s.Ni))]),
           2: LoopSpec(r'for k in range\(Nk\)', inv=lambda s: [('ij', And(0 <= s.i, s.i < s.Ni, 0 <= s.j, s.j < s.Nj))])},
    checks=[(r'y\[I\] \+= X\[i,j,k\] \* x\[J\]', lambda s: [
        ('row', s.I == (s.bidx[0][s.i, 0] * s.block_sizes[1][0] + s.bidx[1][s.j, 0]) * s.block_sizes[2][0] + s.bidx[2][s.k, 0]),
        ('col', s.J == (s.bidx[0][s.i, 1] * s.block_sizes[1][1] + s.bidx[1][s.j, 1]) * s.block_sizes[2][1] + s.bidx[2][s.k, 1])])],
    options={'timeout_ms': 90000, 'check_int_products': True},
)

CONTRACTS = [reindex_from_reordered] + to_seq_instances + from_seq_instances + rfm_instances + \
            [ml_nonzero_2d, ml_nonzero_3d] + nznd_instances + [ml_matvec_2d, ml_matvec_3d]
