"""Stage-equation contracts for `dirk_step` and `rosenbrock_step` (pyiga/solvers.py).

The *real* function (compiled from /repo's current source on every run) is executed over an abstract real vector
space: vectors are formal linear combinations of atoms with polynomial coefficients (sympy), `M`, `J(y)` are
linear-operator symbols, and the library dependencies are replaced by their contracts:

    newton(G, G', x0, ...)   returns a fresh point y with G(y) = 0 recorded, G evaluated last at y
    make_solver(C)           exact inverse of C
    np.allclose(b, row)      true iff the rows are identical (tolerance 1e-8 is a listed assumption)

Postconditions (taken from the property statement: "one step satisfies the stage equations of its tableau") are
identities between such formal vectors for *all* coefficient values, state, step size and F; the finite part is
the tableau shape (stage count s <= SMAX, stiffly accurate or not, embedded row or not, explicit first stage or
not, mass matrix given or None)."""
import ast
import itertools
import time

import numpy as onp
import sympy as sp

from pyvc import frontend
from pyvc.symexec import Obligation
from pyvc.solve import ob_dict

F_ = 'pyiga/solvers.py'


class Vec:
    """formal linear combination of atoms (strings) with sympy coefficients"""

    def __init__(self, terms=None):
        self.t = {k: sp.expand(v) for k, v in (terms or {}).items() if sp.expand(v) != 0}

    @staticmethod
    def atom(name):
        return Vec({name: sp.Integer(1)})

    @property
    def shape(self):
        return (sp.Symbol('N', positive=True, integer=True),)

    def _coerce(self, o):
        if isinstance(o, Vec):
            return o
        if o == 0:
            return Vec()
        raise TypeError('adding scalar %r to a vector' % (o,))

    def __add__(self, o):
        o = self._coerce(o)
        d = dict(self.t)
        for k, v in o.t.items():
            d[k] = d.get(k, 0) + v
        return Vec(d)
    __radd__ = __add__

    def __neg__(self):
        return Vec({k: -v for k, v in self.t.items()})

    def __sub__(self, o):
        return self + (-self._coerce(o))

    def __rsub__(self, o):
        return self._coerce(o) - self

    def __mul__(self, c):
        if isinstance(c, Vec):
            raise TypeError('vector * vector')
        return Vec({k: v * c for k, v in self.t.items()})
    __rmul__ = __mul__

    def __truediv__(self, c):
        return self * (1 / sp.sympify(c))

    def __iadd__(self, o):
        return self + o

    def __eq__(self, o):
        if not isinstance(o, Vec):
            return NotImplemented
        return (self - o).t == {}

    def __hash__(self):
        return hash(self.key())

    def key(self):
        return ' + '.join('(%s)*%s' % (sp.sstr(v), k) for k, v in sorted(self.t.items())) or '0'

    def __repr__(self):
        return 'Vec<%s>' % self.key()


class LinOp:
    """formal linear combination of operator symbols; '1' is the identity"""

    def __init__(self, terms):
        self.t = {k: sp.expand(v) for k, v in terms.items() if sp.expand(v) != 0}

    @staticmethod
    def sym(name):
        return LinOp({name: sp.Integer(1)})

    def __add__(self, o):
        d = dict(self.t)
        for k, v in o.t.items():
            d[k] = d.get(k, 0) + v
        return LinOp(d)

    def __sub__(self, o):
        return self + (o * -1)

    def __mul__(self, c):
        if isinstance(c, (LinOp, Vec)):
            return self.apply(c) if isinstance(c, Vec) else NotImplemented
        return LinOp({k: v * c for k, v in self.t.items()})
    __rmul__ = lambda self, c: LinOp({k: v * c for k, v in self.t.items()})

    def apply(self, v):
        out = Vec()
        for op, c in self.t.items():
            for a, ca in v.t.items():
                out = out + Vec({_app(op, a): c * ca})
        return out

    def __matmul__(self, v):
        return self.apply(v)

    def dot(self, v):
        return self.apply(v)

    def key(self):
        return ' + '.join('(%s)*%s' % (sp.sstr(v), k) for k, v in sorted(self.t.items())) or '0'

    def __eq__(self, o):
        return isinstance(o, LinOp) and (self - o).t == {}

    def __hash__(self):
        return hash(self.key())


def _app(op, atom):
    if op == '1':
        return atom
    inv = 'inv[%s]' % op if not op.startswith('inv[') else op[4:-1]
    if atom.startswith(inv + '(') and atom.endswith(')'):
        return atom[len(inv) + 1:-1]          # op(inv_op(a)) = a   and   inv_op(op(a)) = a
    return '%s(%s)' % (op, atom)


class Recorder:
    def __init__(self):
        self.newton_calls = []     # (y atom name, residual Vec, jacobian LinOp, x_start, kwargs)
        self.solves = []           # (C LinOp key, rhs Vec, result atom)
        self.F_calls = []
        self.J_calls = []
        self.k = 0


def run_real(funcname, ns_extra, args, kwargs):
    """compile the current source of `funcname` and run it in a namespace of contract shims"""
    src = frontend.load(F_)
    fn = src.find(funcname)
    mod = ast.Module(body=[fn], type_ignores=[])
    code = compile(mod, src.path, 'exec')
    ns = dict(ns_extra)
    exec(code, ns)
    fn.compiled = ns[funcname]        # (kept for obligations that call the same function object again)
    return ns[funcname](*args, **kwargs), src, fn


def _Fshim(rec):
    def F(v):
        name = v.key() if len(v.t) != 1 or list(v.t.values())[0] != 1 else list(v.t)[0]
        rec.F_calls.append(name)
        return Vec.atom('F(%s)' % name)
    return F


def _Jshim(rec):
    def J(v):
        name = v.key() if len(v.t) != 1 or list(v.t.values())[0] != 1 else list(v.t)[0]
        rec.J_calls.append(name)
        return LinOp.sym('J(%s)' % name)
    return J


class _NPshim:
    @staticmethod
    def allclose(a, b, **kw):
        return all(sp.expand(sp.sympify(x) - sp.sympify(y)) == 0 for x, y in zip(list(a), list(b))) and len(a) == len(b)


class _ScipySparse:
    @staticmethod
    def eye(n):
        return LinOp.sym('1')


class _Scipy:
    sparse = _ScipySparse


def _ob(oid, ok, desc, detail=''):
    o = Obligation(oid, 'post', 0, [], None, desc, src='')
    o.status, o.backend, o.time = ('proved' if ok else 'refuted'), 'formal-vector-identity (sympy)', 0.0
    if not ok:
        o.goal = detail
    return o


def dirk_instances(smax):
    for s in range(1, smax + 1):
        for sa, emb, expl, mnone, fx in itertools.product((False, True), repeat=5):
            if fx and not expl:
                continue
            yield dict(s=s, sa=sa, emb=emb, expl=expl, mnone=mnone, fx=fx)


def check_dirk(inst):
    s, sa, emb, expl = inst['s'], inst['sa'], inst['emb'], inst['expl']
    tag = 's%d%s%s%s%s%s' % (s, '-sa' if sa else '', '-emb' if emb else '', '-expl' if expl else '', '-Mnone' if inst['mnone'] else '', '-Fx' if inst['fx'] else '')
    a = [[sp.Symbol('a%d%d' % (i, j)) if j <= i else sp.Integer(0) for j in range(s)] for i in range(s)]
    if expl:
        a[0][0] = sp.Integer(0)
    b = list(a[s - 1]) if sa else [sp.Symbol('b%d' % j) for j in range(s)]
    rows = a + [b]
    bh = None
    if emb:
        bh = [sp.Symbol('bh%d' % j) for j in range(s)]
        rows = rows + [bh]
    A = onp.array(rows, dtype=object)
    tau = sp.Symbol('tau')
    rec = Recorder()
    M = None if inst['mnone'] else LinOp.sym('M')
    Mop = LinOp.sym('1') if inst['mnone'] else M
    x = Vec.atom('x')
    Fsh, Jsh = _Fshim(rec), _Jshim(rec)

    def newton(G, dG, x0, **kw):
        y = Vec.atom('y%d' % len(rec.newton_calls))
        jac = dG(y)
        r = G(y)          # contract: the last evaluation of G is at the returned point
        rec.newton_calls.append((y, r, jac, x0, kw))
        return y

    def make_solver(C, **kw):
        if len(C.t) != 1:
            raise TypeError('make_solver of composite operator')
        op = list(C.t)[0]
        if op == '1':
            return LinOp.sym('1') * (1 / C.t[op])
        return LinOp.sym('inv[%s]' % op) * (1 / C.t[op])

    # (min/max of the symbolic step size only occur in the tolerance handed to newton, which the newton contract does not read)
    ns = {'np': _NPshim, 'scipy': _Scipy, 'newton': newton, 'make_solver': make_solver, 'min': lambda *a: sp.Min(*a), 'max': lambda *a: sp.Max(*a)}
    kwargs = {}
    if inst['fx']:
        kwargs['Fx'] = Vec.atom('F(x)')
    out, src, fn = run_real('dirk_step', ns, (A, M, Fsh, Jsh, x, tau), kwargs)
    obs = []
    pre = 'solvers:dirk_step:post:%s:' % tag
    # stage equations
    ys = []
    k = 0
    for i in range(s):
        if expl and i == 0:
            ys.append(x)
            continue
        if k >= len(rec.newton_calls):
            obs.append(_ob(pre + 'stage%d' % i, False, 'stage %d solves a nonlinear system' % i, 'no newton call for stage %d' % i))
            ys.append(Vec.atom('missing'))
            continue
        y, r, jac, x0, kw = rec.newton_calls[k]
        k += 1
        ys.append(y)
    Fy = [Vec.atom('F(%s)' % list(y.t)[0]) for y in ys]
    k = 0
    for i in range(s):
        if expl and i == 0:
            continue
        if k >= len(rec.newton_calls):
            break
        y, r, jac, x0, kw = rec.newton_calls[k]
        k += 1
        spec = Mop.apply(y) - Mop.apply(x) - tau * sum((a[i][j] * Fy[j] for j in range(i + 1)), Vec())
        obs.append(_ob(pre + 'stage%d' % i, r == spec, 'M y_i = M x + tau sum_{j<=i} a_ij F(y_j)  (residual handed to newton)',
                       'residual %s != spec %s' % (r.key(), spec.key())))
        jspec = Mop - LinOp.sym('J(%s)' % list(y.t)[0]) * (tau * a[i][i])
        obs.append(_ob(pre + 'stage%d:jacobian' % i, jac == jspec, 'Jacobian handed to newton is d/dz of the stage residual', '%s != %s' % (jac.key(), jspec.key())))
    obs.append(_ob(pre + 'newton-count', len(rec.newton_calls) == s - (1 if expl else 0), 'one nonlinear solve per implicit stage'))
    x_new = out[0]
    # x_new: M x_new = M x + tau sum b_i F(y_i)
    lhs = Mop.apply(x_new) - Mop.apply(x) - tau * sum((b[i] * Fy[i] for i in range(s)), Vec())
    if sa and not (expl and s == 1):
        # allowed to differ by the (vanishing) residual of the last stage
        last_r = rec.newton_calls[-1][1] if rec.newton_calls else Vec()
        ok = (lhs == Vec()) or (lhs == last_r)
    else:
        ok = lhs == Vec()
    obs.append(_ob(pre + 'x_new', ok, 'M x_new = M x + tau sum b_i F(y_i) (modulo the stage equations)', lhs.key()))
    F_x_new = out[-1]
    if sa:
        okf = isinstance(F_x_new, Vec) and isinstance(x_new, Vec) and len(x_new.t) == 1 and F_x_new == Vec.atom('F(%s)' % list(x_new.t)[0])
        obs.append(_ob(pre + 'F_x_new', okf, 'returned right-hand side is F at the returned point', repr(F_x_new)))
    else:
        obs.append(_ob(pre + 'F_x_new', F_x_new is None, 'no cached right-hand side when x_new is not a stage', repr(F_x_new)))
    if emb:
        ok = len(out) == 3
        if ok:
            lhs = Mop.apply(out[1]) - Mop.apply(x) - tau * sum((bh[i] * Fy[i] for i in range(s)), Vec())
            ok = lhs == Vec()
        obs.append(_ob(pre + 'x_est', ok, 'M x_est = M x + tau sum bhat_i F(y_i)', ''))
    else:
        obs.append(_ob(pre + 'arity', len(out) == 2, 'non-embedded tableau returns (x_new, F_x_new)', ''))
    # history independence: a SECOND call of the same function object with another mass matrix and no `data` argument must use that
    # matrix everywhere (nothing may be remembered from the first call, e.g. a cached solver for the first mass matrix)
    if not inst['mnone'] and not inst['fx']:
        M2 = LinOp.sym('M2')
        rec.newton_calls.clear()
        try:
            out2 = fn.compiled(A, M2, Fsh, Jsh, x, tau)
            keys = ' '.join([o.key() for o in out2 if isinstance(o, Vec)] + [r_.key() for (_, r_, _, _, _) in rec.newton_calls])
            import re as _re
            stale = bool(_re.search(r'(?<![\w\[])M\(|inv\[M\]', keys))
            obs.append(_ob(pre + 'second-call-uses-its-own-mass-matrix', not stale,
                           'a second call without `data` and with another mass matrix refers to that matrix only', keys[:300]))
        except Exception as e:
            obs.append(_ob(pre + 'second-call-uses-its-own-mass-matrix', False, 'a second call without `data` runs', '%s: %s' % (type(e).__name__, e)))
    if expl:
        obs.append(_ob(pre + 'explicit-first-stage', (not inst['fx']) == ('x' in rec.F_calls[:1]) or inst['fx'],
                       'first stage is explicit iff a_00 = 0; F(x) reused when supplied', ''))
    return obs


def ros_instances(smax):
    for s in range(1, smax + 1):
        for emb in (False, True):
            yield dict(s=s, emb=emb)


def check_ros(inst):
    s, emb = inst['s'], inst['emb']
    tag = 's%d%s' % (s, '-emb' if emb else '')
    al = onp.array([[sp.Symbol('al%d%d' % (i, j)) if j < i else sp.Integer(0) for j in range(s)] for i in range(s)], dtype=object)
    gam = sp.Symbol('gam')
    G = onp.array([[sp.Symbol('g%d%d' % (i, j)) if j < i else (gam if i == j else sp.Integer(0)) for j in range(s)] for i in range(s)], dtype=object)
    b = onp.array([sp.Symbol('b%d' % j) for j in range(s)], dtype=object)
    bh = onp.array([sp.Symbol('bh%d' % j) for j in range(s)], dtype=object) if emb else None
    tau = sp.Symbol('tau')
    rec = Recorder()
    x = Vec.atom('x')
    M = LinOp.sym('M')

    class Inv:
        def __init__(self, C):
            self.C = C

        def dot(self, rhs):
            kk = Vec.atom('k%d' % len(rec.solves))
            rec.solves.append((self.C, rhs, kk))
            return kk
        __matmul__ = dot

    ns = {'make_solver': lambda C, **kw: Inv(C)}
    out, src, fn = run_real('rosenbrock_step', ns, (al, G, b, bh, M, _Fshim(rec), _Jshim(rec), x, tau, {}), {})
    obs = []
    pre = 'solvers:rosenbrock_step:post:%s:' % tag
    Jx = LinOp.sym('J(x)')
    Cspec = M - Jx * (tau * gam)
    ks = [kk for (_, _, kk) in rec.solves]
    obs.append(_ob(pre + 'solve-count', len(rec.solves) == s, 'one linear solve per stage', str(len(rec.solves))))
    for i, (C, rhs, kk) in enumerate(rec.solves[:s]):
        yi = x + tau * sum((al[i][j] * ks[j] for j in range(i)), Vec())
        Fyi = _Fshim(Recorder())(yi)
        spec = Fyi + tau * Jx.apply(sum((G[i][j] * ks[j] for j in range(i)), Vec()))
        obs.append(_ob(pre + 'stage%d' % i, C == Cspec and rhs == spec,
                       '(M - tau gamma J) k_i = F(x + tau sum A_ij k_j) + tau J sum Gamma_ij k_j', '%s | %s vs %s' % (C.key(), rhs.key(), spec.key())))
    xs = x + tau * sum((b[i] * ks[i] for i in range(min(s, len(ks)))), Vec())
    obs.append(_ob(pre + 'x_new', out[0] == xs, 'x_new = x + tau sum b_i k_i', ''))
    if emb:
        xe = x + tau * sum((bh[i] * ks[i] for i in range(min(s, len(ks)))), Vec())
        obs.append(_ob(pre + 'x_est', len(out) == 3 and out[1] == xe, 'x_est = x + tau sum bhat_i k_i', ''))
    else:
        obs.append(_ob(pre + 'arity', len(out) == 2, 'non-embedded call returns (x_new, None)', ''))
    return obs


def step_obligations(tier):
    smax = 3 if tier == 'quick' else 5
    results = []
    for (name, insts, chk) in (('dirk_step', list(dirk_instances(smax)), check_dirk), ('rosenbrock_step', list(ros_instances(smax + 1)), check_ros)):
        t0 = time.time()
        src = frontend.load(F_)
        res = {'contract': 'solvers:%s' % name, 'file': F_, 'func': name, 'instance': {'stage counts': '1..%d' % smax, 'shapes': len(insts)},
               'obligations': [], 'status': 'ok', 'error': None, 'paths': len(insts), 'vacuous': False, 'notes': [], 'src_sha': src.sha, 'time': 0.0}
        try:
            for inst in insts:
                for o in chk(inst):
                    res['obligations'].append(ob_dict(o))
        except KeyError as e:
            res['status'], res['error'] = 'missing', str(e)
        except Exception:
            import traceback
            # the real function left the modelled vocabulary (e.g. a new numpy call): undecided, not a violation
            res['status'], res['error'] = 'out-of-subset', traceback.format_exc()[-1500:]
        res['time'] = round(time.time() - t0, 3)
        results.append(res)
    return results


# ---- the method factories: which tableau reaches which step function ------------------------------------------------------------------
def wiring_obligations(tier=None):
    """dirk_method / adaptive_dirk_method / rosenbrock_method / adaptive_rosenbrock_method executed from the current source with recording
    shims for the step functions and the two drivers: the constant-step driver gets a stepper that calls the step function with the MAIN
    tableau only (no embedded weights), the adaptive driver gets (a stepper with main + embedded weights, the documented error order, the
    constant-step method of the same main tableau as fallback for tol=None); the module-level names are bound to the factories applied
    to the coefficient function of the same name."""
    t0 = time.time()
    src = frontend.load(F_)
    obs = []

    def ob(oid, ok, desc, detail=''):
        o = Obligation('solvers:' + oid, 'post', 0, [], None, desc, src='')
        o.status, o.backend, o.time = ('proved' if ok else 'refuted'), 'symbolic-execution (recorded calls)', 0.0
        if not ok:
            o.goal = detail
        obs.append(o)

    class Tab:            # an opaque tableau object; slicing off the embedded row is recorded
        def __init__(self, name):
            self.name = name

        def __getitem__(self, ix):
            return Tab('%s[%s]' % (self.name, ', '.join(_slice_repr(i) for i in (ix if isinstance(ix, tuple) else (ix,)))))

    def _slice_repr(i):
        if isinstance(i, slice):
            return '%s:%s' % ('' if i.start is None else i.start, '' if i.stop is None else i.stop)
        return str(i)

    calls = []
    ns = {}
    ns['dirk_step'] = lambda *a, **k: calls.append(('dirk_step', a, k)) or 'dirk-step-result'
    ns['rosenbrock_step'] = lambda *a, **k: calls.append(('rosenbrock_step', a, k)) or 'ros-step-result'

    class Method:
        def __init__(self, kind, stepper, err_order=None, const_method=None):
            self.kind, self.stepper, self.err_order, self.const_method = kind, stepper, err_order, const_method
            self.__doc__ = ''
    ns['_constant_step_method'] = lambda stepper: Method('const', stepper)
    ns['_adaptive_step_method'] = lambda stepper, err_order, const_method: Method('adaptive', stepper, err_order, const_method)
    names = ('dirk_method', 'adaptive_dirk_method', 'rosenbrock_method', 'adaptive_rosenbrock_method')
    try:
        mod = ast.Module(body=[src.find(n) for n in names], type_ignores=[])
        exec(compile(mod, src.path, 'exec'), ns)
    except Exception as e:
        ob('method-factories:load', False, 'the four method factories exist', '%s: %s' % (type(e).__name__, e))
        return [_wiring_result(src, obs, t0)]

    def step_call(m, *args):
        del calls[:]
        r = m.stepper(*args, extra=1)
        return (calls[0] if len(calls) == 1 else None), r

    A, G, b, bh = Tab('A'), Tab('Gamma'), Tab('b'), Tab('b_hat')
    # dirk_method
    m = ns['dirk_method'](A, 'nm', 'Display')
    c, r = step_call(m, 'M', 'F')
    ob('dirk_method:stepper', m.kind == 'const' and c is not None and c[0] == 'dirk_step' and c[1] == (A, 'M', 'F') and c[2] == {'extra': 1} and r == 'dirk-step-result'
       and m.__name__ == 'nm', 'constant-step DIRK method: stepper(*a, **k) = dirk_step(A, *a, **k)', repr(c))
    # adaptive_dirk_method
    m = ns['adaptive_dirk_method'](A, 3, 'nm', 'Display')
    c, r = step_call(m, 'M', 'F')
    ob('adaptive_dirk_method:stepper', m.kind == 'adaptive' and m.err_order == 3 and c is not None and c[0] == 'dirk_step' and c[1] == (A, 'M', 'F') and r == 'dirk-step-result',
       'adaptive DIRK method: stepper = dirk_step with the full tableau (embedded row included), error order forwarded', repr(c))
    cm = m.const_method
    ok = isinstance(cm, Method) and cm.kind == 'const'
    if ok:
        c, r = step_call(cm, 'M', 'F')
        ok = c is not None and c[0] == 'dirk_step' and isinstance(c[1][0], Tab) and c[1][0].name == 'A[:-1, :]' and c[1][1:] == ('M', 'F')
    ob('adaptive_dirk_method:fallback', ok, 'tol=None fallback: the constant-step method of the tableau without its embedded row (A[:-1, :])', repr(c))
    # rosenbrock_method
    m = ns['rosenbrock_method'](A, G, b, 'nm', 'Display')
    c, r = step_call(m, 'M', 'F')
    ob('rosenbrock_method:stepper', m.kind == 'const' and c is not None and c[0] == 'rosenbrock_step' and c[1] == (A, G, b, None, 'M', 'F') and c[2] == {'extra': 1}
       and r == 'ros-step-result', 'constant-step Rosenbrock method: stepper = rosenbrock_step(A, Gamma, b, None, ...)', repr(c))
    # adaptive_rosenbrock_method
    m = ns['adaptive_rosenbrock_method'](A, G, b, bh, 2, 'nm', 'Display')
    c, r = step_call(m, 'M', 'F')
    ob('adaptive_rosenbrock_method:stepper', m.kind == 'adaptive' and m.err_order == 2 and c is not None and c[0] == 'rosenbrock_step' and c[1] == (A, G, b, bh, 'M', 'F')
       and r == 'ros-step-result', 'adaptive Rosenbrock method: stepper = rosenbrock_step(A, Gamma, b, b_hat, ...), error order forwarded', repr(c))
    cm = m.const_method
    ok = isinstance(cm, Method) and cm.kind == 'const'
    if ok:
        c, r = step_call(cm, 'M', 'F')
        ok = c is not None and c[0] == 'rosenbrock_step' and c[1] == (A, G, b, None, 'M', 'F')
    ob('adaptive_rosenbrock_method:fallback', ok, 'tol=None fallback: the constant-step method with the MAIN weights b (not the embedded weights)', repr(c))
    # module-level bindings: NAME = factory(*coeffs_NAME(), 'NAME', ...) / factory(coeffs_NAME(), 'NAME', ...)
    tree = src.tree if hasattr(src, 'tree') else ast.parse(open(src.path).read())
    bound = 0
    for st in tree.body:
        if isinstance(st, ast.Assign) and len(st.targets) == 1 and isinstance(st.targets[0], ast.Name) and isinstance(st.value, ast.Call) \
                and isinstance(st.value.func, ast.Name) and st.value.func.id in names:
            nm = st.targets[0].id
            a0 = st.value.args[0]
            inner = a0.value if isinstance(a0, ast.Starred) else a0
            if isinstance(inner, ast.Call) and isinstance(inner.func, ast.Name) and inner.func.id.startswith('coeffs_'):
                bound += 1
                strs = [a.value for a in st.value.args if isinstance(a, ast.Constant) and isinstance(a.value, str)]
                adaptive = st.value.func.id.startswith('adaptive_')
                ok = inner.func.id == 'coeffs_' + nm and strs[:1] == [nm] and adaptive == isinstance(a0, ast.Starred)
                ob('binding:%s' % nm, ok, 'the public name is bound to its own coefficient function and carries its own name',
                   '%s = %s' % (nm, ast.unparse(st.value)[:160]))
    ob('binding:count', bound >= 10, 'the module binds its integrators through the factories', '%d bindings found' % bound)
    return [_wiring_result(src, obs, t0)]


def _wiring_result(src, obs, t0):
    return {'contract': 'solvers:method-factories', 'file': F_, 'func': 'dirk_method / adaptive_dirk_method / rosenbrock_method / adaptive_rosenbrock_method',
            'instance': None, 'obligations': [ob_dict(o) for o in obs], 'status': 'ok', 'error': None, 'paths': 4, 'vacuous': False, 'notes': [],
            'src_sha': src.sha, 'time': round(time.time() - t0, 3)}
