"""Contracts for the drivers in pyiga/solvers.py: newton, constant/adaptive step controllers, iterative_solve,
twogrid.  Vectors are abstract (uninterpreted sort), the right-hand side F is an uninterpreted function, norms
are an uninterpreted non-negative function: the contracts pin control flow (which exits exist and what was
tested on them), not numerics."""
import z3
from pyvc.spec import *
from pyvc.values import norm_fn, vlen_fn, fresh_vec, VTuple

F = 'pyiga/solvers.py'


def rmax(a, b):
    return If(a >= b, a, b)


newton = Contract(
    F, 'newton',
    params={'F': Fun(1), 'J': Opaque(), 'x0': Vec(), 'atol': Real(), 'rtol': Real(), 'maxiter': Int(), 'freeze_jac': Int()},
    requires=lambda s: [s.freeze_jac >= 1],
    ensures=lambda s: [('residual-meets-tolerance', norm_fn(s.F(s.result)) < rmax(s.atol, s.rtol * norm_fn(s.F(s.x0))))],
    raises={'NoConvergenceError': lambda s: True},
    loops={0: LoopSpec(r'for num_it in range\(maxiter\)',
                       inv=lambda s: [('res', s.res == s.F(s.x)),
                                      ('target', s.target == rmax(s.atol, s.rtol * norm_fn(s.F(s.x0))))])},
    notes=['exits: return x only after ||F(x)|| < target was evaluated for that x; every other exit raises NoConvergenceError'],
)


def _stepper2(ex, st, call, *args, **kw):
    xn = fresh_vec('xnew')
    return Outcomes(VTuple((xn, fresh_vec('Fx'))), Raise('NoConvergenceError'))


const_step = Contract(
    F, '_constant_step_method._method',
    params={'M': Opaque(), 'F': Opaque(), 'J': Opaque(), 'x': Vec(), 'tau': Real(), 't_end': Real(), 't0': Real(),
            'progress': Const(False)},
    requires=lambda s: [s.tau > 0],
    callees={'stepper': _stepper2},
    options={'identity_wrappers': ('tqdm',)},
    loops={0: LoopSpec(r'for i in tqdm\(range\(num_iter\)\)',
                       inv=lambda s: [('len-times', s.times.len == s.i + 1), ('len-solutions', s.solutions.len == s.i + 1),
                                      ('times', ForAll('k', lambda k: Implies(And(0 <= k, k <= s.i), s.times[k] == s.t0 + z3.ToReal(k) * s.tau)))])},
    ensures=lambda s: [('one-state-per-time', s.result[0].len == s.result[1].len),
                       ('times', ForAll('k', lambda k: Implies(And(0 <= k, k < s.result[0].len), s.result[0][k] == s.t0 + z3.ToReal(k) * s.tau))),
                       ('nonempty', s.result[0].len >= 1)],
)


def _stepper3(ex, st, call, *args, **kw):
    x = args[3]
    xn = fresh_vec('xnew')
    st.pc.append(vlen_fn(xn) == vlen_fn(x))
    return Outcomes(VTuple((xn, fresh_vec('xhat'), fresh_vec('Fxnew'))), Raise('NoConvergenceError'))


def _adaptive_inv(s):
    t, n = s.times, s.times.len
    return [('tau-positive', s.tau > 0), ('lens', n == s.solutions.len), ('nonempty', n >= 1),
            ('t-is-last', s.t == t[n - 1]),
            ('increasing', ForAll('k', lambda k: Implies(And(0 <= k, k < n - 1), t[k] < t[k + 1]))),
            ('accepted-only', s.g_acc), ('factors', s.g_fac), ('x-len', vlen_fn(s.x) >= 1)]


adaptive_step = Contract(
    F, '_adaptive_step_method._method',
    params={'M': Opaque(), 'F': Opaque(), 'J': Opaque(), 'x': Vec(), 'tau0': Real(), 't_end': Real(), 'tol': Real(),
            't0': Real(), 'step_factor': Real(), 'progress': Const(False), 'err_order': Int(1), 'const_method': Opaque()},
    requires=lambda s: [s.tau0 > 0, s.tol > 0, vlen_fn(s.x) >= 1],
    callees={'stepper': _stepper3},
    ghost=[(r'times = \[t0\]', ('g_acc', 'g_fac'), lambda s: {'g_acc': z3.BoolVal(True), 'g_fac': z3.BoolVal(True)}),
           (r'times\.append\(t\)', ('g_acc',), lambda s: {'g_acc': And(s.g_acc, s.r <= 1)}),
           (r'tau \*= fac', ('g_fac',), lambda s: {'g_fac': And(s.g_fac, s.fac >= z3.RealVal('0.2'), s.fac <= 5)})],
    loops={0: LoopSpec(r'while t < t_end', inv=_adaptive_inv)},
    ensures=lambda s: [('strictly-increasing', ForAll('k', lambda k: Implies(And(0 <= k, k < s.result[0].len - 1), s.result[0][k] < s.result[0][k + 1]))),
                       ('one-state-per-time', s.result[0].len == s.result[1].len),
                       ('reaches-end', s.result[0][s.result[0].len - 1] >= s.t_end),
                       ('accepts-only-passing-steps', s.g_acc),
                       ('step-factors-within-bounds', s.g_fac)],
    notes=['termination of the adaptive loop is not proved (liveness)'],
)

CONTRACTS_C12 = [newton, const_step, adaptive_step]
