"""Contracts for the drivers in pyiga/solvers.py: newton, constant/adaptive step controllers, iterative_solve,
twogrid.  Vectors are abstract (uninterpreted sort), the right-hand side F is an uninterpreted function, norms
are an uninterpreted non-negative function: the contracts pin control flow (which exits exist and what was
tested on them), not numerics."""
import z3
from pyvc.spec import *
from pyvc.values import norm_fn, vlen_fn, fresh_vec, VTuple

F = 'pyiga/solvers.py'


def rmax(a, b):
    return If(a >= b, a, b)


newton = Contract(
    F, 'newton',
    params={'F': Fun(1), 'J': Opaque(), 'x0': Vec(), 'atol': Real(), 'rtol': Real(), 'maxiter': Int(), 'freeze_jac': Int()},
    requires=lambda s: [s.freeze_jac >= 1],
    ensures=lambda s: [('residual-meets-tolerance', norm_fn(s.F(s.result)) < rmax(s.atol, s.rtol * norm_fn(s.F(s.x0))))],
    raises={'NoConvergenceError': lambda s: True},
    loops={0: LoopSpec(r'for num_it in range\(maxiter\)',
                       inv=lambda s: [('res', s.res == s.F(s.x)),
                                      ('target', s.target == rmax(s.atol, s.rtol * norm_fn(s.F(s.x0))))])},
    notes=['exits: return x only after ||F(x)|| < target was evaluated for that x; every other exit raises NoConvergenceError'],
)


# ghost function: the value of the right-hand side at a state (what a cached `Fx` must equal)
F_at = z3.Function('F_at', fresh_vec('x').sort(), fresh_vec('x').sort())


def _fx_pre(ex, st, call, args, kw):
    """call-site precondition of the step functions: a supplied Fx is the right-hand side at the state x that is passed"""
    x, Fx = args[3], kw.get('Fx')
    if Fx is None:
        return
    if not (z3.is_expr(Fx) and z3.is_expr(x)):
        ex.oblige(st, 'pre', call, False, 'Fx passed to the stepper is a right-hand side value', label='stepper:Fx-is-F-at-x:L+%d' % ex.rel(call))
        return
    ex.oblige(st, 'pre', call, Fx == F_at(x), 'the cached right-hand side passed to the stepper is F at the state passed to it',
              label='stepper:Fx-is-F-at-x:L+%d' % ex.rel(call))


def _stepper2(ex, st, call, *args, **kw):
    _fx_pre(ex, st, call, args, kw)
    xn = fresh_vec('xnew')
    # stiffly accurate schemes return F at the new state, the others None
    return Outcomes(VTuple((xn, F_at(xn))), VTuple((xn, None)), Raise('NoConvergenceError'))


const_step = Contract(
    F, '_constant_step_method._method',
    params={'M': Opaque(), 'F': Opaque(), 'J': Opaque(), 'x': Vec(), 'tau': Real(), 't_end': Real(), 't0': Real(),
            'progress': Const(False)},
    requires=lambda s: [s.tau > 0],
    callees={'stepper': _stepper2},
    options={'identity_wrappers': ('tqdm',)},
    loops={0: LoopSpec(r'for i in tqdm\(range\(num_iter\)\)',
                       inv=lambda s: [('cached-rhs', True if s.Fx is None else s.Fx == F_at(s.x)),
                                      ('len-times', s.times.len == s.i + 1), ('len-solutions', s.solutions.len == s.i + 1),
                                      ('times', ForAll('k', lambda k: Implies(And(0 <= k, k <= s.i), s.times[k] == s.t0 + z3.ToReal(k) * s.tau)))])},
    ensures=lambda s: [('one-state-per-time', s.result[0].len == s.result[1].len),
                       ('times', ForAll('k', lambda k: Implies(And(0 <= k, k < s.result[0].len), s.result[0][k] == s.t0 + z3.ToReal(k) * s.tau))),
                       ('nonempty', s.result[0].len >= 1)],
)


def _stepper3(ex, st, call, *args, **kw):
    _fx_pre(ex, st, call, args, kw)
    x = args[3]
    xn = fresh_vec('xnew')
    st.pc.append(vlen_fn(xn) == vlen_fn(x))
    return Outcomes(VTuple((xn, fresh_vec('xhat'), F_at(xn))), VTuple((xn, fresh_vec('xhat'), None)), Raise('NoConvergenceError'))


def _adaptive_inv(s):
    t, n = s.times, s.times.len
    return [('tau-positive', s.tau > 0), ('lens', n == s.solutions.len), ('nonempty', n >= 1),
            ('t-is-last', s.t == t[n - 1]),
            ('increasing', ForAll('k', lambda k: Implies(And(0 <= k, k < n - 1), t[k] < t[k + 1]))),
            ('accepted-only', s.g_acc), ('factors', s.g_fac), ('x-len', vlen_fn(s.x) >= 1),
            ('cached-rhs', True if s.Fx is None else s.Fx == F_at(s.x))]


adaptive_step = Contract(
    F, '_adaptive_step_method._method',
    params={'M': Opaque(), 'F': Opaque(), 'J': Opaque(), 'x': Vec(), 'tau0': Real(), 't_end': Real(), 'tol': Real(),
            't0': Real(), 'step_factor': Real(), 'progress': Const(False), 'err_order': Int(1), 'const_method': Opaque()},
    requires=lambda s: [s.tau0 > 0, s.tol > 0, vlen_fn(s.x) >= 1],
    callees={'stepper': _stepper3},
    ghost=[(r'times = \[t0\]', ('g_acc', 'g_fac'), lambda s: {'g_acc': z3.BoolVal(True), 'g_fac': z3.BoolVal(True)}),
           (r'times\.append\(t\)', ('g_acc',), lambda s: {'g_acc': And(s.g_acc, s.r <= 1)}),
           (r'tau \*= fac', ('g_fac',), lambda s: {'g_fac': And(s.g_fac, s.fac >= z3.RealVal('0.2'), s.fac <= 5)})],
    loops={0: LoopSpec(r'while t < t_end', inv=_adaptive_inv)},
    ensures=lambda s: [('strictly-increasing', ForAll('k', lambda k: Implies(And(0 <= k, k < s.result[0].len - 1), s.result[0][k] < s.result[0][k + 1]))),
                       ('one-state-per-time', s.result[0].len == s.result[1].len),
                       ('reaches-end', s.result[0][s.result[0].len - 1] >= s.t_end),
                       ('accepts-only-passing-steps', s.g_acc),
                       ('step-factors-within-bounds', s.g_fac)],
    notes=['termination of the adaptive loop is not proved (liveness)'],
)

CONTRACTS_C12 = [newton, const_step, adaptive_step]


# ---------------------------------------------------------------------------------------------------------------
# C11: dispatch of solvers.gauss_seidel, stopping rules of iterative_solve / twogrid

from . import relaxation_cy as _rc
from pyvc.values import VOpaque as _VOpaque, norm_fn as _norm
from pyvc import symexec as _sx

_CSR = lambda: Obj(shape=Tup(Int(0, 2**31 - 2), Int(0, 2**31 - 2)), indptr=Arr('int', 1, elem_range=_rc.I32),
                   indices=Arr('int', 1, elem_range=_rc.I32), data=Arr('real', 1))


def _csr_req(s):
    A = s.A
    N = A.shape[0]
    rp, ci, da = A.indptr, A.indices, A.data
    return [A.shape[1] == N, s.x.len == N, s.b.len == N, rp.len == N + 1, ci.len == da.len,
            ForAll('k', lambda k: Implies(And(0 <= k, k <= N), And(0 <= rp[k], rp[k] <= ci.len))),
            ForAll('k', lambda k: Implies(And(0 <= k, k < N), rp[k] <= rp[k + 1])),
            ForAll('q', lambda q: Implies(And(0 <= q, q < ci.len), And(0 <= ci[q], ci[q] < N)))]


def _gs_dispatch(sweep, indexed):
    params = {'A': _CSR(), 'x': Arr('real', 1, numpy=True), 'b': Arr('real', 1, numpy=True), 'iterations': Int(0),
              'indices': Arr('int', 1, elem_range=_rc.I32) if indexed else Const(None), 'sweep': Const(sweep)}
    req = _csr_req
    if indexed:
        req = lambda s: _csr_req(s) + [s.indices.len < 2**31 - 1,
                                       ForAll('k', lambda k: Implies(And(0 <= k, k < s.indices.len), And(0 <= s.indices[k], s.indices[k] < s.x.len)))]
    return Contract(
        F, 'gauss_seidel', name='solvers:gauss_seidel[%s%s,csr]' % (sweep, ',indexed' if indexed else ''),
        params=params, requires=req, modifies=('x',),
        callees={'issparse': lambda ex, st, call, *a, **k: True, 'isspmatrix_csr': lambda ex, st, call, *a, **k: True,
                 'asanyarray': lambda ex, st, call, a, **k: a,
                 'gauss_seidel': _rc.gauss_seidel, 'gauss_seidel_indexed': _rc.gauss_seidel_indexed},
        loops={(1 if indexed else 2): LoopSpec(r'for i in range\(iterations\)', inv=lambda s: [('len', s.x.len == s.old.x.len)])},
        checks=[(r'relaxation_cy\.gauss_seidel_indexed\(', lambda s: [('direction', s.reverse == (sweep == 'backward'))])] if indexed else
               [(r'relaxation_cy\.gauss_seidel\(A\.indptr', lambda s: [('row-range', And(s.start == (0 if sweep == 'forward' else s.N - 1),
                                                                                        s.end == (s.N if sweep == 'forward' else -1),
                                                                                        s.step == (1 if sweep == 'forward' else -1), s.N == s.x.len))])],
        ensures=lambda s: [('len', s.x.len == s.old.x.len)],
        options={'timeout_ms': 60000},
        notes=['the call-site obligations `pre:` show that the unchecked kernel is entered with a valid row range / index list'],
    )


def gs_symmetric_obligations():
    """sweep='symmetric': forward then backward, `iterations` times (P(fin) iterations in 0..3): the recursive calls are recorded"""
    from pyvc import frontend
    from pyvc.symexec import Executor, Obligation
    obs = []
    for n in (0, 1, 2, 3):
        calls = []

        def rec(ex, st, call, *a, **k):
            calls.append((k.get('sweep'), k.get('iterations'), k.get('indices') is None))
            return None
        c = Contract(F, 'gauss_seidel', name='solvers:gauss_seidel[symmetric]',
                     params={'A': Opaque(), 'x': Opaque(), 'b': Opaque(), 'iterations': Const(n), 'indices': Const(None), 'sweep': Const('symmetric')},
                     callees={'gauss_seidel': rec})
        fn = frontend.load(F).find('gauss_seidel')
        ex = Executor(fn, c)
        obs += ex.run()
        ok = calls == [('forward', 1, True), ('backward', 1, True)] * n
        o = Obligation('solvers:gauss_seidel[symmetric]:post:forward-then-backward[iterations=%d]' % n, 'post', fn.lineno, [], None,
                       'symmetric sweep = (forward sweep; backward sweep) x iterations', src='def gauss_seidel')
        o.status, o.backend, o.time = ('proved' if ok else 'refuted'), 'symbolic-execution (recorded calls)', 0.0
        if not ok:
            o.goal = 'recorded recursive calls: %r' % (calls,)
        obs.append(o)
    return obs, None


def _iter_req(s):
    return [s.maxiter >= 1]


def _iter_post(x0_given):
    def post(s):
        r = s.result
        resid = _norm(vop('getitem', vop('Sub', s.f, vop('MatMult', s.A, r[0])), s.active_dofs))
        # the reduction is measured against the residual of the STARTING vector (x0 if given, else 0)
        start = vop('Sub', s.f, vop('MatMult', s.A, s.x0)) if x0_given else s.f
        ref = ('reference-is-the-starting-residual', s.res0 == _norm(vop('getitem', start, s.active_dofs)))
        fin = r[1] is not _sx.INF
        if fin:
            return [('returns-count-only-when-converged', And(s.res / s.res0 < s.tol, s.res == resid, r[1] == s.iterations, s.iterations >= 1)), ref]
        return [('inf-only-at-the-iteration-limit', s.iterations >= s.maxiter), ref]
    return post


def _iterative(x0_given, active_given):
    return Contract(
        F, 'iterative_solve', name='solvers:iterative_solve[x0=%s,active=%s]' % ('given' if x0_given else 'None', 'given' if active_given else 'None'),
        params={'step': Fun(1), 'A': Vec(), 'f': Vec(), 'x0': Vec() if x0_given else Const(None),
                'active_dofs': Vec() if active_given else Const(None), 'tol': Real(), 'maxiter': Int()},
        requires=_iter_req,
        loops={0: LoopSpec(r'while True', inv=lambda s: [('count', s.iterations >= 0)])},
        ensures=_iter_post(x0_given),
        options={'float_div_raises': False, 'no_return_ok': False},
        notes=['exits: (x, k) only on the path where res/res0 < tol was evaluated true for that x; (x, inf) only with iterations >= maxiter'],
    )


def _smoother(ex, st, call, *a, **k):
    st.env['u'] = fresh_vec('u')      # the smoother updates u in place
    return None


def _twogrid(u0_kind):
    u0 = {'none': Const(None), 'array': Arr('real', 1, numpy=True)}[u0_kind]
    return Contract(
        F, 'twogrid', name='solvers:twogrid[u0=%s]' % u0_kind,
        params={'A': Vec(), 'f': Vec(), 'P': Vec(), 'smoother': Opaque(), 'u0': u0, 'tol': Real(), 'smooth_steps': Int(0), 'maxiter': Int()},
        requires=lambda s: [s.u0.len >= 2] if u0_kind == 'array' else [],
        callees={'smoother': _smoother},
        loops={0: LoopSpec(r'while True', inv=lambda s: [('count', s.numiter >= 0)]),
               1: LoopSpec(r'for _ in range\(smooth_steps\)', inv=lambda s: [])},
        ensures=lambda s: [('stops-only-on-a-listed-condition', Or(s.res < s.tol * s.res0, s.res > 20 * s.res0, s.numiter > s.maxiter))],
        options={'float_div_raises': False},
        notes=['accepts any starting vector: an ndarray u0 with more than one entry must not raise (bool(ndarray) is ambiguous)'],
    )


CONTRACTS_C11 = [_gs_dispatch('forward', False), _gs_dispatch('backward', False), _gs_dispatch('forward', True), _gs_dispatch('backward', True),
                 _iterative(False, False), _iterative(True, True), _iterative(True, False), _twogrid('none'), _twogrid('array')]
CONTRACTS = CONTRACTS_C12 + CONTRACTS_C11
