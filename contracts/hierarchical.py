"""Contracts for the hierarchical mesh bookkeeping in pyiga/hierarchical.py.

Cells are elements of an uninterpreted sort with `parent : Cell -> Cell`; per level the active/deactivated cells are
sets.  Region invariants (Omega_l = active[l] u deactivated[l]):
    I1  active[l] n deactivated[l] = {}
    I2  for l >= 1:  c in Omega_l  <=>  parent(c) in deactivated[l-1]
The tiling property follows from I1, I2 and Omega_0 = all coarse cells by induction over the levels (bridge argument in DESIGN.md)."""
import z3
from pyvc.spec import *
from pyvc.values import VSetVal, Ref, SetListContent, fresh_name, VTuple

F = 'pyiga/hierarchical.py'
Cell = z3.DeclareSort('Cell')
parent = z3.Function('parent', Cell, Cell)


def children_of(S):
    c = z3.Const(fresh_name('cc'), Cell)
    return z3.Lambda([c], z3.Select(S, parent(c)))


def _cq(names, body):
    vs = [z3.Const(fresh_name(n), Cell) for n in names.split()]
    return z3.ForAll(vs, body(*vs))


def region_inv(act, deact, L):
    """I1 and I2 for the levels 0 <= l < L"""
    return [('I1-disjoint', ForAll('l', lambda l: Implies(And(0 <= l, l < L), _cq('c', lambda c: Not(And(act.member(l, c), deact.member(l, c))))))),
            ('I2-region-is-children-of-deactivated', ForAll('l', lambda l: Implies(And(1 <= l, l < L), _cq('c', lambda c: Or(act.member(l, c), deact.member(l, c)) == deact.member(l - 1, parent(c))))))]


def _cell_children_spec(ex, st, call, lv, cells, **k):
    sv = ex.as_set(st, cells, call)
    n = ex.spec_value(st, st.heap[st.env['self'].id].attrs['meshes'])
    ex.oblige(st, 'pre', call, And(0 <= to_z3(lv), to_z3(lv) < n.len - 1), 'cell_children: 0 <= lv < len(meshes)-1', label='cell_children:level:L+%d' % ex.rel(call))
    return VSetVal(children_of(sv[0]), Cell)


def _skip_max(ex, st):
    m = z3.Int(fresh_name('max_lv'))
    st.env['max_lv'] = m
    marked = ex.spec_value(st, st.env['marked'])
    l = z3.Int(fresh_name('l'))
    c = z3.Const(fresh_name('c'), Cell)
    st.pc.append(z3.ForAll([l, c], Implies(l > m, Not(marked.member(l, c)))))
    c2 = z3.Const(fresh_name('c'), Cell)
    st.pc.append(z3.Exists([c2], marked.member(m, c2)))      # the maximum is attained (max() of an empty sequence raises)
    st.pc.append(m >= 0)


def _ensure_levels(ex, st):
    n = ex.spec_value(st, st.heap[st.env['self'].id].attrs['meshes'])
    # the levels exist already (precondition): the call is a no-op
    from pyvc.symexec import _Line
    ex.oblige(st, 'pre', _Line(ex.fn.lineno + 4), n.len >= st.env['max_lv'] + 2, 'ensure_levels is a no-op: enough levels exist', label='ensure_levels')


def _new_cells(ex, st):
    n = ex.spec_value(st, st.heap[st.env['self'].id].attrs['meshes'])
    r = Ref('new_cells')
    st.heap[r.id] = SetListContent(n.len + 1, z3.K(z3.IntSort(), z3.EmptySet(Cell)), Cell)
    st.env['new_cells'] = r


def _refine_req(s):
    act, deact, L = s.self.active, s.self.deactivated, s.self.meshes.len
    return [c for _, c in region_inv(act, deact, L)] + [
        L >= 1, act.len == L, deact.len == L, s.marked.len == L,
        ForAll('l', lambda l: Implies(And(0 <= l, l < L), _cq('c', lambda c: Implies(s.marked.member(l, c), act.member(l, c))))),
        ForAll('l', lambda l: Implies(Or(l < 0, l >= L - 1), _cq('c', lambda c: Not(s.marked.member(l, c))))),
        # (ensure_levels has been called: the finest level carries no marks)
    ]


def _refine_inv(s):
    act, deact, L, lv = s.self.active, s.self.deactivated, s.self.meshes.len, s.lv
    a0, d0, M = s.old.self.active, s.old.self.deactivated, s.marked
    return [('lengths', And(act.len == L, deact.len == L, L == s.old.self.meshes.len, s.new_cells.len == L + 1)),
            ('done-levels', ForAll('l', lambda l: Implies(And(0 <= l, l < lv), _cq('c', lambda c: And(
                deact.member(l, c) == Or(d0.member(l, c), M.member(l, c)),
                act.member(l, c) == Or(And(a0.member(l, c), Not(M.member(l, c))), And(l >= 1, M.member(l - 1, parent(c))))))))),
            ('current-level', Implies(lv < L, _cq('c', lambda c: And(deact.member(lv, c) == d0.member(lv, c),
                                                                     act.member(lv, c) == Or(a0.member(lv, c), And(lv >= 1, M.member(lv - 1, parent(c)))))))),
            ('later-levels', ForAll('l', lambda l: Implies(And(lv < l, l < L), _cq('c', lambda c: And(deact.member(l, c) == d0.member(l, c), act.member(l, c) == a0.member(l, c)))))),
            ('new-cells', ForAll('l', lambda l: Implies(And(1 <= l, l <= lv), _cq('c', lambda c: s.new_cells.member(l, c) == M.member(l - 1, parent(c))))))]


def _refine_post(s):
    act, deact, L = s.self.active, s.self.deactivated, s.self.meshes.len
    a0, d0, M = s.old.self.active, s.old.self.deactivated, s.marked
    return [('deactivated = old u marked', ForAll('l', lambda l: Implies(And(0 <= l, l < L), _cq('c', lambda c: deact.member(l, c) == Or(d0.member(l, c), M.member(l, c)))))),
            ('active = (old - marked) u children(marked below)', ForAll('l', lambda l: Implies(And(0 <= l, l < L), _cq('c', lambda c:
                act.member(l, c) == Or(And(a0.member(l, c), Not(M.member(l, c))), And(l >= 1, M.member(l - 1, parent(c)))))))),
            ('returns-the-children', ForAll('l', lambda l: Implies(And(1 <= l, l < L), _cq('c', lambda c: s.result.member(l, c) == M.member(l - 1, parent(c)))))),
            ('level-0-region-unchanged', _cq('c', lambda c: Or(act.member(0, c), deact.member(0, c)) == Or(a0.member(0, c), d0.member(0, c))))] + \
           [(lab, f) for lab, f in region_inv(act, deact, L)]


hmesh_refine = Contract(
    F, 'HMesh.refine',
    params={'self': Obj(active=SetList(Cell), deactivated=SetList(Cell), meshes=SetList(Cell)), 'marked': SetList(Cell)},
    requires=_refine_req,
    callees={'self.cell_children': _cell_children_spec},
    replace=[(r'max_lv = max\(', _skip_max), (r'self\.ensure_levels\(max_lv \+ 2\)', _ensure_levels), (r'new_cells = dict\(\)', _new_cells)],
    loops={0: LoopSpec(r'for lv in range\(len\(self\.meshes\) - 1\)', inv=_refine_inv)},
    ensures=_refine_post,
    options={'timeout_ms': 60000},
    notes=['marked is modelled as a total map level -> set (absent key = empty set); marked cells are active cells of their level (precondition; '
           'HSpace.refine adds only active cells); the levels exist already (ensure_levels is a no-op under the precondition)',
           'cell_children(lv, C) is replaced by its contract {c : parent(c) in C}, which is verified on tuples for dim 1..3 separately'],
)


# ---- the parent/children algebra on integer tuples, dim 1..3 -------------------------------------------------------------

def _children_contract(dim):
    return Contract(
        F, 'HMesh.cell_children', name='hierarchical:HMesh.cell_children[dim=%d]' % dim,
        params={'self': Obj(meshes=SetList(Cell)), 'lv': Int(0), 'cells': Const(VTuple((VTuple([z3.Int('c%d' % k) for k in range(dim)]),)))},
        requires=lambda s: [s.lv < s.self.meshes.len - 1],
        ensures=lambda s: [('count', len(s.result) == 2 ** dim),
                           ('parent-of-each-child', And(*[And(*[And(2 * z3.Int('c%d' % k) <= ch[k], ch[k] <= 2 * z3.Int('c%d' % k) + 1) for k in range(dim)]) for ch in s.result])),
                           ('distinct', And(*[Or(*[a[k] != b[k] for k in range(dim)]) for i, a in enumerate(s.result) for b in s.result[i + 1:]]) if dim >= 1 else True),
                           ('complete', ForAll(' '.join('x%d' % k for k in range(dim)), lambda *x: Implies(
                               And(*[And(2 * z3.Int('c%d' % k) <= x[k], x[k] <= 2 * z3.Int('c%d' % k) + 1) for k in range(dim)]),
                               Or(*[And(*[ch[k] == x[k] for k in range(dim)]) for ch in s.result]))))],
    )


def _parent_contract(dim):
    return Contract(
        F, 'HMesh.cell_parent', name='hierarchical:HMesh.cell_parent[dim=%d]' % dim,
        params={'self': Obj(meshes=SetList(Cell)), 'lv': Int(1), 'cells': Const(VTuple((VTuple([z3.Int('c%d' % k) for k in range(dim)]),)))},
        requires=lambda s: [s.lv < s.self.meshes.len] + [z3.Int('c%d' % k) >= 0 for k in range(dim)],
        ensures=lambda s: [('floor-half', And(len(s.result) == 1, *[And(2 * s.result[0][k] <= z3.Int('c%d' % k), z3.Int('c%d' % k) <= 2 * s.result[0][k] + 1) for k in range(dim)]))],
    )


# ---- admissibility marking (finite disparity): HSpace._mark_recursive ------------------------------------------------------
# Nbh(l, S, truncate) is the (uninterpreted) neighbourhood operator of _cell_neighborhood; the marks are CLOSED at level l
# when Nbh(l, marked[l]) is contained in marked[l - d].  refine() calls _mark_recursive(l) for ascending l; each call
# extends closure from "all levels below l" to "all levels up to l" (Bracco/Giannelli/Vazquez: this closure is what bounds
# the level disparity).  The recursion must descend by exactly d: the level it touches is the only one whose closure it broke.

_SetCell = z3.SetSort(Cell)
Nbh = z3.Function('Nbh', z3.IntSort(), _SetCell, z3.BoolSort(), _SetCell)


def _nbh_spec(ex, st, call, l, cells, truncate=False, **k):
    sv = ex.as_set(st, cells, call)
    if sv is None:
        raise OutOfSubset('_cell_neighborhood called with a non-set')
    d = st.heap[st.env['self'].id].attrs['disparity']
    tr = truncate if z3.is_expr(truncate) else z3.BoolVal(bool(truncate))
    return VSetVal(z3.If(to_z3(l) - to_z3(d) < 0, z3.EmptySet(Cell), Nbh(to_z3(l), sv[0], tr)), Cell)


def _closed(M, lv, d, tr):
    return Implies(lv - d >= 0, z3.IsSubset(Nbh(lv, M[lv], tr), M[lv - d]))


def _mark_req(s):
    d, M = s.self.disparity, s.marked
    return [d >= 1, 0 <= s.l, s.l < M.len,
            ForAll('k', lambda k: Implies(And(0 <= k, k < s.l), _closed(M, k, d, s.truncate)))]


def _mark_post(s):
    d, M, M0 = s.self.disparity, s.marked, s.old.marked
    return [('closed-up-to-l', ForAll('k', lambda k: Implies(And(0 <= k, k <= s.l), _closed(M, k, d, s.truncate)))),
            ('length', M.len == M0.len),
            ('only-grows', ForAll('k', lambda k: Implies(And(0 <= k, k < M.len), z3.IsSubset(M0[k], M[k])))),
            ('levels-above-l-minus-d-unchanged', ForAll('k', lambda k: Implies(And(k > s.l - d, k < M.len), M[k] == M0[k])))]


mark_recursive = Contract(
    F, 'HSpace._mark_recursive',
    params={'self': Obj(disparity=Int(1)), 'l': Int(0), 'marked': SetList(Cell), 'truncate': Bool()},
    requires=_mark_req,
    modifies=('marked',),
    callees={'self._cell_neighborhood': _nbh_spec},
    ensures=_mark_post,
    options={'timeout_ms': 60000, 'no_return_ok': True},
    notes=['marked: total map level -> set of cells (absent key = empty set); _cell_neighborhood is replaced by the uninterpreted operator Nbh '
           '(empty below level d, as its first branch states); the recursive call is checked against this same contract (partial correctness; '
           'termination: the level strictly decreases because d >= 1)'],
)
mark_recursive.callees['self._mark_recursive'] = mark_recursive


CONTRACTS = [hmesh_refine, mark_recursive] + [_children_contract(d) for d in (1, 2, 3)] + [_parent_contract(d) for d in (1, 2, 3)]


# ---- the marking pass of HSpace.refine: after it the marks are closed under Nbh on EVERY level -------------------------------------

def _skip_max_h(ex, st):
    _skip_max(ex, st)


def _ensure_levels_h(ex, st):
    # HSpace._ensure_levels(max_lv + 2): afterwards numlevels >= max_lv + 2; modelled by the precondition numlevels == marked.len >= max_lv + 2
    me = st.heap[st.env['self'].id]
    from pyvc.symexec import _Line
    ex.oblige(st, 'pre', _Line(ex.fn.lineno + 14), to_z3(me.attrs['numlevels']) >= st.env['max_lv'] + 2, 'enough levels exist (ensure_levels is a no-op)', label='ensure_levels')


def _marking_post(s):
    d, M, M0 = s.self.disparity, s.marked, s.old.marked
    L = s.self.numlevels
    return [('closed-on-every-level', ForAll('k', lambda k: Implies(And(0 <= k, k < L), _closed(M, k, d, s.truncate)))),
            ('only-grows', ForAll('k', lambda k: Implies(And(0 <= k, k < L), z3.IsSubset(M0[k], M[k])))),
            ("caller's-dict-untouched", ForAll('k', lambda k: Implies(And(0 <= k, k < L), s.old.marked[k] == M0[k])))]


hspace_refine_marking = Contract(
    F, 'HSpace.refine', name='hierarchical:HSpace.refine[admissibility marking]',
    params={'self': Obj(disparity=Int(1), numlevels=Int(1)), 'marked': SetList(Cell), 'truncate': Bool()},
    requires=lambda s: [s.marked.len == s.self.numlevels,
                        # (ensure_levels has run: the finest level and everything beyond carries no marks)
                        ForAll('l', lambda l: Implies(Or(l < 0, l >= s.self.numlevels - 1), _cq('c', lambda c: Not(s.marked.member(l, c)))))],
    callees={'self._mark_recursive': None},
    replace=[(r'max_lv = max\(', _skip_max_h), (r'self\._ensure_levels\(max_lv \+ 2\)', _ensure_levels_h)],
    loops={0: LoopSpec(r'for l in range\(self\.numlevels\)', inv=lambda s: [
        ('closed-below-l', ForAll('k', lambda k: Implies(And(0 <= k, k < s.l), _closed(s.marked, k, s.self.disparity, s.truncate)))),
        ('len', s.marked.len == s.self.numlevels),
        ('only-grows', ForAll('k', lambda k: Implies(And(0 <= k, k < s.marked.len), z3.IsSubset(s.old.marked[k], s.marked[k]))))])},
    ensures=_marking_post,
    options={'timeout_ms': 60000, 'stop_after': r'if self\.disparity < np\.inf', 'no_return_ok': True},
    notes=['only the admissibility-marking pass (up to and including the `if self.disparity < np.inf` block) is under contract; finite disparity '
           '(precondition: disparity is an integer >= 1); _mark_recursive is used through its contract, whose precondition "closed below l" is what '
           'forces the pass to visit every level in ascending order'],
)
hspace_refine_marking.callees['self._mark_recursive'] = mark_recursive


# ---- representation invariant of the cached index tables ---------------------------------------------------------------------
# HSpace caches canonical index tables (__ravel_global, __index_dirichlet, __ravel_dirichlet), which are functions of
# actfun / deactfun / the mesh.  Invariant: "cache empty or consistent with the state".  Every public method that changes
# that state must therefore end with self._clear_cache() on its normal path (private helpers are covered through their callers).

_STATE_ATTRS = ('actfun', 'deactfun', 'hmesh')
_MUT_METHODS = ('append', 'pop', 'add', 'discard', 'remove', 'update', 'clear', 'extend', 'insert', 'refine', 'add_level', 'ensure_levels')


def _mutations(fn):
    import ast
    out = []
    for n in ast.walk(fn):
        tg = []
        if isinstance(n, ast.Assign):
            tg = n.targets
        elif isinstance(n, ast.AugAssign):
            tg = [n.target]
        for t in tg:
            root, path = t, []
            while isinstance(root, (ast.Attribute, ast.Subscript)):
                if isinstance(root, ast.Attribute):
                    path.append(root.attr)
                root = root.value
            if isinstance(root, ast.Name) and root.id == 'self' and path and path[-1] in _STATE_ATTRS:
                out.append(n.lineno)
        if isinstance(n, ast.Call) and isinstance(n.func, ast.Attribute) and n.func.attr in _MUT_METHODS:
            root, path = n.func.value, []
            while isinstance(root, (ast.Attribute, ast.Subscript)):
                if isinstance(root, ast.Attribute):
                    path.append(root.attr)
                root = root.value
            if isinstance(root, ast.Name) and root.id == 'self' and path and path[-1] in _STATE_ATTRS:
                out.append(n.lineno)
    return out


def cache_invalidation_obligations():
    import ast
    from pyvc import frontend
    from pyvc.symexec import Obligation
    src = frontend.load(F)
    cls = [c for c in src.classes() if c.name == 'HSpace'][0]
    methods = {st.name: st for st in cls.body if isinstance(st, ast.FunctionDef)}
    # private helpers that mutate: their mutation is attributed to the callers
    mutating = {nm: _mutations(fn) for nm, fn in methods.items()}
    helpers = {nm for nm, m in mutating.items() if m and nm.startswith('_') and nm != '__init__'}
    changed = True
    while changed:          # helpers calling helpers
        changed = False
        for nm, fn in methods.items():
            if nm in helpers or not nm.startswith('_') or nm == '__init__':
                continue
            for n in ast.walk(fn):
                if isinstance(n, ast.Call) and isinstance(n.func, ast.Attribute) and isinstance(n.func.value, ast.Name) and n.func.value.id == 'self' \
                        and n.func.attr in helpers:
                    helpers.add(nm)
                    changed = True
    def muts_of(nm, fn):
        muts = list(mutating[nm])
        for n in ast.walk(fn):
            if isinstance(n, ast.Call) and isinstance(n.func, ast.Attribute) and isinstance(n.func.value, ast.Name) and n.func.value.id == 'self' \
                    and n.func.attr in helpers:
                muts.append(n.lineno)
        return muts

    def top_level_calls(fn, names):
        """line numbers of top-level statements `self.X(...)` / `return self.X(...)` with X in names"""
        out = []
        for st in fn.body:
            v = st.value if isinstance(st, (ast.Expr, ast.Return)) else None
            if isinstance(v, ast.Call) and isinstance(v.func, ast.Attribute) and isinstance(v.func.value, ast.Name) and v.func.value.id == 'self' \
                    and v.func.attr in names:
                out.append(st.lineno)
        return out

    cand = {nm: fn for nm, fn in methods.items() if nm not in helpers and muts_of(nm, fn)}
    ok_methods = set()
    status = {}
    for _ in range(len(cand) + 1):          # fixpoint: delegating to a method that clears the cache counts as clearing
        for nm, fn in cand.items():
            muts = muts_of(nm, fn)
            clears = top_level_calls(fn, {'_clear_cache'} | ok_methods)
            ok = bool(clears) and max(clears) > max(muts)
            if ok:
                stack = list(fn.body)
                while stack:                  # returns of the method itself (nested helper functions are skipped)
                    n = stack.pop()
                    if isinstance(n, (ast.FunctionDef, ast.Lambda)):
                        continue
                    if isinstance(n, ast.Return) and min(muts) <= n.lineno < max(clears):
                        ok = False
                    stack.extend(ast.iter_child_nodes(n))
            status[nm] = (ok, muts, clears)
            if ok:
                ok_methods.add(nm)
    obs = []
    for nm, fn in cand.items():
        ok, muts, clears = status[nm]
        o = Obligation('hierarchical:HSpace.%s:cache-invalidated-after-mutation' % nm, 'rule', fn.lineno, [], None,
                       'HSpace.%s changes actfun/deactfun/the mesh (lines %s) and afterwards unconditionally calls self._clear_cache() or a method that does'
                       % (nm, sorted(set(muts))[:6]), src=F)
        o.status, o.backend, o.time = ('proved' if ok else 'refuted'), 'ast-frame-analysis', 0.0
        if not ok:
            o.goal = 'state mutated at lines %s; unconditional top-level cache-clearing calls at lines: %s' % (sorted(set(muts)), clears)
        obs.append(o)
    if not obs:
        raise KeyError('no mutating public method of HSpace found')
    return obs, None


# ---- _position_index: positions of a sorted sub-list inside a sorted list -----------------------------------------------------

def _strict(seq):
    return ForAll('a b', lambda a, b: Implies(And(0 <= a, a < b, b < seq.len), seq[a] < seq[b]))


_wit = z3.Function('position_witness', z3.IntSort(), z3.IntSort())


def _pi_req(s):
    sup, sub = s.suplist, s.sublist
    return [_strict(sup), _strict(sub),
            ForAll('j', lambda j: Implies(And(0 <= j, j < sub.len), And(0 <= _wit(j), _wit(j) < sup.len, sup[_wit(j)] == sub[j])))]


def _pi_inv(s):
    sup, sub, out, it = s.suplist, s.sublist, s.out, s._it0
    return [('len', out.len == it),
            ('found', ForAll('j', lambda j: Implies(And(0 <= j, j < it), And(0 <= out[j], out[j] < sup.len, sup[out[j]] == sub[j])))),
            # the search cursor never passes the position of the next candidate: it is at most one past the last found position
            ('cursor', And(0 <= s.k, If(it > 0, s.k <= out[it - 1] + 1, s.k <= 0)))]


position_index = Contract(
    F, '_position_index',
    params={'suplist': IntSeq(), 'sublist': IntSeq()},
    requires=_pi_req,
    loops={0: LoopSpec(r'for candidate in sublist', inv=_pi_inv)},
    ensures=lambda s: [('length', s.result.len == s.sublist.len),
                       ('positions', ForAll('j', lambda j: Implies(And(0 <= j, j < s.sublist.len),
                                                                   And(0 <= s.result[j], s.result[j] < s.suplist.len, s.suplist[s.result[j]] == s.sublist[j]))))],
    options={'timeout_ms': 30000, 'empty_lists_int': True},
    notes=['both lists strictly increasing and sublist contained in suplist (precondition, as documented); list.index(x, k) is modelled exactly '
           '(smallest position >= k, ValueError obligation); the sortedness is what makes the moving start position k sound'],
)

CONTRACTS = CONTRACTS + [position_index, hspace_refine_marking]
