"""Contracts for the hierarchical mesh bookkeeping in pyiga/hierarchical.py.

Cells are elements of an uninterpreted sort with `parent : Cell -> Cell`; per level the active/deactivated cells are
sets.  Region invariants (Omega_l = active[l] u deactivated[l]):
    I1  active[l] n deactivated[l] = {}
    I2  for l >= 1:  c in Omega_l  <=>  parent(c) in deactivated[l-1]
The tiling property follows from I1, I2 and Omega_0 = all coarse cells by induction over the levels (bridge argument in DESIGN.md)."""
import z3
from pyvc.spec import *
from pyvc.values import VSetVal, Ref, SetListContent, fresh_name, VTuple
from pyvc.symexec import OutOfSubset

F = 'pyiga/hierarchical.py'
Cell = z3.DeclareSort('Cell')
parent = z3.Function('parent', Cell, Cell)


def children_of(S):
    c = z3.Const(fresh_name('cc'), Cell)
    return z3.Lambda([c], z3.Select(S, parent(c)))


def _cq(names, body):
    vs = [z3.Const(fresh_name(n), Cell) for n in names.split()]
    return z3.ForAll(vs, body(*vs))


def region_inv(act, deact, L):
    """I1 and I2 for the levels 0 <= l < L"""
    return [('I1-disjoint', ForAll('l', lambda l: Implies(And(0 <= l, l < L), _cq('c', lambda c: Not(And(act.member(l, c), deact.member(l, c))))))),
            ('I2-region-is-children-of-deactivated', ForAll('l', lambda l: Implies(And(1 <= l, l < L), _cq('c', lambda c: Or(act.member(l, c), deact.member(l, c)) == deact.member(l - 1, parent(c))))))]


def _cell_children_spec(ex, st, call, lv, cells, **k):
    sv = ex.as_set(st, cells, call)
    n = ex.spec_value(st, st.heap[st.env['self'].id].attrs['meshes'])
    ex.oblige(st, 'pre', call, And(0 <= to_z3(lv), to_z3(lv) < n.len - 1), 'cell_children: 0 <= lv < len(meshes)-1', label='cell_children:level:L+%d' % ex.rel(call))
    return VSetVal(children_of(sv[0]), Cell)


def _skip_max(ex, st):
    m = z3.Int(fresh_name('max_lv'))
    st.env['max_lv'] = m
    marked = ex.spec_value(st, st.env['marked'])
    l = z3.Int(fresh_name('l'))
    c = z3.Const(fresh_name('c'), Cell)
    st.pc.append(z3.ForAll([l, c], Implies(l > m, Not(marked.member(l, c)))))
    c2 = z3.Const(fresh_name('c'), Cell)
    # max(<levels with marks>, default=-1): attained if anything is marked, -1 otherwise
    st.pc.append(Or(m == -1, And(m >= 0, z3.Exists([c2], marked.member(m, c2)))))


def _ensure_levels(ex, st):
    n = ex.spec_value(st, st.heap[st.env['self'].id].attrs['meshes'])
    # the levels exist already (precondition): the call is a no-op
    from pyvc.symexec import _Line
    ex.oblige(st, 'pre', _Line(ex.fn.lineno + 4), n.len >= st.env['max_lv'] + 2, 'ensure_levels is a no-op: enough levels exist', label='ensure_levels')


def _new_cells(ex, st):
    n = ex.spec_value(st, st.heap[st.env['self'].id].attrs['meshes'])
    r = Ref('new_cells')
    st.heap[r.id] = SetListContent(n.len + 1, z3.K(z3.IntSort(), z3.EmptySet(Cell)), Cell)
    st.env['new_cells'] = r


def _refine_req(s):
    act, deact, L = s.self.active, s.self.deactivated, s.self.meshes.len
    return [c for _, c in region_inv(act, deact, L)] + [
        L >= 1, act.len == L, deact.len == L, s.marked.len == L,
        ForAll('l', lambda l: Implies(And(0 <= l, l < L), _cq('c', lambda c: Implies(s.marked.member(l, c), act.member(l, c))))),
        ForAll('l', lambda l: Implies(Or(l < 0, l >= L - 1), _cq('c', lambda c: Not(s.marked.member(l, c))))),
        # (ensure_levels has been called: the finest level carries no marks)
        # I3: no deactivated cells on the finest level (holds initially, kept by add_level and by this function)
        _cq('c', lambda c: Not(deact.member(L - 1, c))),
    ]


def _refine_inv(s):
    act, deact, L, lv = s.self.active, s.self.deactivated, s.self.meshes.len, s.lv
    a0, d0, M = s.old.self.active, s.old.self.deactivated, s.marked
    return [('lengths', And(act.len == L, deact.len == L, L == s.old.self.meshes.len, s.new_cells.len == L + 1)),
            ('done-levels', ForAll('l', lambda l: Implies(And(0 <= l, l < lv), _cq('c', lambda c: And(
                deact.member(l, c) == Or(d0.member(l, c), M.member(l, c)),
                act.member(l, c) == Or(And(a0.member(l, c), Not(M.member(l, c))), And(l >= 1, M.member(l - 1, parent(c))))))))),
            ('current-level', Implies(lv < L, _cq('c', lambda c: And(deact.member(lv, c) == d0.member(lv, c),
                                                                     act.member(lv, c) == Or(a0.member(lv, c), And(lv >= 1, M.member(lv - 1, parent(c)))))))),
            ('later-levels', ForAll('l', lambda l: Implies(And(lv < l, l < L), _cq('c', lambda c: And(deact.member(l, c) == d0.member(l, c), act.member(l, c) == a0.member(l, c)))))),
            ('new-cells', ForAll('l', lambda l: Implies(And(1 <= l, l <= lv), _cq('c', lambda c: s.new_cells.member(l, c) == M.member(l - 1, parent(c))))))]


def _refine_post(s):
    act, deact, L = s.self.active, s.self.deactivated, s.self.meshes.len
    a0, d0, M = s.old.self.active, s.old.self.deactivated, s.marked
    return [('deactivated = old u marked', ForAll('l', lambda l: Implies(And(0 <= l, l < L), _cq('c', lambda c: deact.member(l, c) == Or(d0.member(l, c), M.member(l, c)))))),
            ('active = (old - marked) u children(marked below)', ForAll('l', lambda l: Implies(And(0 <= l, l < L), _cq('c', lambda c:
                act.member(l, c) == Or(And(a0.member(l, c), Not(M.member(l, c))), And(l >= 1, M.member(l - 1, parent(c)))))))),
            ('returns-the-children', ForAll('l', lambda l: Implies(And(1 <= l, l < L), _cq('c', lambda c: s.result.member(l, c) == M.member(l - 1, parent(c)))))),
            ('level-0-region-unchanged', _cq('c', lambda c: Or(act.member(0, c), deact.member(0, c)) == Or(a0.member(0, c), d0.member(0, c)))),
            ('lengths', And(act.len == L, deact.len == L, s.result.len == L + 1)),
            ('I3-finest-level-has-no-deactivated-cells', _cq('c', lambda c: Not(deact.member(L - 1, c))))] + \
           [(lab, f) for lab, f in region_inv(act, deact, L)]


hmesh_refine = Contract(
    F, 'HMesh.refine',
    params={'self': Obj(active=SetList(Cell), deactivated=SetList(Cell), meshes=SetList(Cell)), 'marked': SetList(Cell)},
    requires=_refine_req,
    modifies=('self.active', 'self.deactivated'), result=SetList(Cell),
    callees={'self.cell_children': _cell_children_spec},
    replace=[(r'max_lv = max\(', _skip_max), (r'self\.ensure_levels\(max_lv \+ 2\)', _ensure_levels), (r'new_cells = dict\(\)', _new_cells)],
    loops={0: LoopSpec(r'for lv in range\(len\(self\.meshes\) - 1\)', inv=_refine_inv)},
    ensures=_refine_post,
    options={'timeout_ms': 60000},
    notes=['marked is modelled as a total map level -> set (absent key = empty set); marked cells are active cells of their level (precondition; '
           'HSpace.refine adds only active cells); the levels exist already (ensure_levels is a no-op under the precondition)',
           'cell_children(lv, C) is replaced by its contract {c : parent(c) in C}, which is verified on tuples for dim 1..3 separately'],
)


# ---- the parent/children algebra on integer tuples, dim 1..3 -------------------------------------------------------------

def _children_contract(dim):
    return Contract(
        F, 'HMesh.cell_children', name='hierarchical:HMesh.cell_children[dim=%d]' % dim,
        params={'self': Obj(meshes=SetList(Cell)), 'lv': Int(0), 'cells': Const(VTuple((VTuple([z3.Int('c%d' % k) for k in range(dim)]),)))},
        requires=lambda s: [s.lv < s.self.meshes.len - 1],
        ensures=lambda s: [('count', len(s.result) == 2 ** dim),
                           ('parent-of-each-child', And(*[And(*[And(2 * z3.Int('c%d' % k) <= ch[k], ch[k] <= 2 * z3.Int('c%d' % k) + 1) for k in range(dim)]) for ch in s.result])),
                           ('distinct', And(*[Or(*[a[k] != b[k] for k in range(dim)]) for i, a in enumerate(s.result) for b in s.result[i + 1:]]) if dim >= 1 else True),
                           ('complete', ForAll(' '.join('x%d' % k for k in range(dim)), lambda *x: Implies(
                               And(*[And(2 * z3.Int('c%d' % k) <= x[k], x[k] <= 2 * z3.Int('c%d' % k) + 1) for k in range(dim)]),
                               Or(*[And(*[ch[k] == x[k] for k in range(dim)]) for ch in s.result]))))],
    )


def _parent_contract(dim):
    return Contract(
        F, 'HMesh.cell_parent', name='hierarchical:HMesh.cell_parent[dim=%d]' % dim,
        params={'self': Obj(meshes=SetList(Cell)), 'lv': Int(1), 'cells': Const(VTuple((VTuple([z3.Int('c%d' % k) for k in range(dim)]),)))},
        requires=lambda s: [s.lv < s.self.meshes.len] + [z3.Int('c%d' % k) >= 0 for k in range(dim)],
        ensures=lambda s: [('floor-half', And(len(s.result) == 1, *[And(2 * s.result[0][k] <= z3.Int('c%d' % k), z3.Int('c%d' % k) <= 2 * s.result[0][k] + 1) for k in range(dim)]))],
    )


# ---- admissibility marking (finite disparity): HSpace._mark_recursive ------------------------------------------------------
# Nbh(l, S, truncate) is the (uninterpreted) neighbourhood operator of _cell_neighborhood; the marks are CLOSED at level l
# when Nbh(l, marked[l]) is contained in marked[l - d].  refine() calls _mark_recursive(l) for ascending l; each call
# extends closure from "all levels below l" to "all levels up to l" (Bracco/Giannelli/Vazquez: this closure is what bounds
# the level disparity).  The recursion must descend by exactly d: the level it touches is the only one whose closure it broke.

_SetCell = z3.SetSort(Cell)
Nbh = z3.Function('Nbh', z3.IntSort(), _SetCell, z3.BoolSort(), _SetCell)


def _nbh_spec(ex, st, call, l, cells, truncate=False, **k):
    sv = ex.as_set(st, cells, call)
    if sv is None:
        raise OutOfSubset('_cell_neighborhood called with a non-set')
    d = st.heap[st.env['self'].id].attrs['disparity']
    tr = truncate if z3.is_expr(truncate) else z3.BoolVal(bool(truncate))
    me = st.heap[st.env['self'].id]
    if 'hmesh' in me.attrs:
        # postcondition of _cell_neighborhood (verified below): the neighbourhood consists of active cells of level l-d
        act = ex.spec_value(st, st.heap[me.attrs['hmesh'].id].attrs['active'])
        ex.assume(st, Implies(to_z3(l) - to_z3(d) >= 0, z3.IsSubset(Nbh(to_z3(l), sv[0], tr), act[to_z3(l) - to_z3(d)])))
    return VSetVal(z3.If(to_z3(l) - to_z3(d) < 0, z3.EmptySet(Cell), Nbh(to_z3(l), sv[0], tr)), Cell)


def _closed(M, lv, d, tr):
    return Implies(lv - d >= 0, z3.IsSubset(Nbh(lv, M[lv], tr), M[lv - d]))


def _marks_active(M, act):
    return ForAll('k', lambda k: Implies(And(0 <= k, k < M.len), z3.IsSubset(M[k], act[k])))


def _mark_req(s):
    d, M = s.self.disparity, s.marked
    return [d >= 1, 0 <= s.l, s.l < M.len, s.self.hmesh.active.len == M.len, _marks_active(M, s.self.hmesh.active),
            ForAll('k', lambda k: Implies(And(0 <= k, k < s.l), _closed(M, k, d, s.truncate)))]


def _mark_post(s):
    d, M, M0 = s.self.disparity, s.marked, s.old.marked
    return [('closed-up-to-l', ForAll('k', lambda k: Implies(And(0 <= k, k <= s.l), _closed(M, k, d, s.truncate)))),
            ('length', M.len == M0.len),
            ('only-grows', ForAll('k', lambda k: Implies(And(0 <= k, k < M.len), z3.IsSubset(M0[k], M[k])))),
            ('levels-above-l-minus-d-unchanged', ForAll('k', lambda k: Implies(And(k > s.l - d, k < M.len), M[k] == M0[k]))),
            ('marks-are-active-cells', _marks_active(M, s.self.hmesh.active))]


mark_recursive = Contract(
    F, 'HSpace._mark_recursive',
    params={'self': Obj(disparity=Int(1), hmesh=Obj(active=SetList(Cell))), 'l': Int(0), 'marked': SetList(Cell), 'truncate': Bool()},
    requires=_mark_req,
    modifies=('marked',),
    callees={'self._cell_neighborhood': _nbh_spec},
    ensures=_mark_post,
    options={'timeout_ms': 60000, 'no_return_ok': True},
    notes=['marked: total map level -> set of cells (absent key = empty set); _cell_neighborhood is replaced by the uninterpreted operator Nbh '
           '(empty below level d, as its first branch states); the recursive call is checked against this same contract (partial correctness; '
           'termination: the level strictly decreases because d >= 1)'],
)
mark_recursive.callees['self._mark_recursive'] = mark_recursive


Ext = z3.Function('support_extension', z3.IntSort(), _SetCell, z3.IntSort(), _SetCell)
ParentSet = z3.Function('parent_set', z3.IntSort(), _SetCell, _SetCell)


def _ext_spec(ex, st, call, l, cells, k, **kw):
    sv = ex.as_set(st, cells, call)
    if sv is None:
        raise OutOfSubset('cell_support_extension called with a non-set')
    return VSetVal(Ext(to_z3(l), sv[0], to_z3(k)), Cell)


def _parent_set_spec(ex, st, call, lv, cells, **kw):
    sv = ex.as_set(st, cells, call)
    return VSetVal(ParentSet(to_z3(lv), sv[0]), Cell)


_ext_spec.writes = ()
_parent_set_spec.writes = ()


def _as_set_term(r):
    return z3.EmptySet(Cell) if isinstance(r, tuple) and len(r) == 0 else r


cell_neighborhood = Contract(
    F, 'HSpace._cell_neighborhood',
    params={'self': Obj(disparity=Int(1), hmesh=Obj(active=SetList(Cell))), 'l': Int(0), 'cells': SetOf(Cell), 'truncate': Bool()},
    requires=lambda s: [s.l < s.self.hmesh.active.len],
    callees={'self.cell_support_extension': _ext_spec, 'cell_parent': _parent_set_spec},
    replace=[],
    ensures=lambda s: [('only-active-cells-of-level-l-minus-d', Implies(s.l - s.self.disparity >= 0,
                                                                         z3.IsSubset(_as_set_term(s.result), s.self.hmesh.active[s.l - s.self.disparity]))),
                       ('empty-below-level-d', Implies(s.l - s.self.disparity < 0, _as_set_term(s.result) == z3.EmptySet(Cell)))],
    options={'timeout_ms': 30000},
    notes=['the support extension and the parent map are uninterpreted set operators: whatever they return, the neighbourhood is intersected '
           'with the active cells of level l - d, so marking it keeps the marks inside the active cells (the precondition of HMesh.refine)'],
)

CONTRACTS = [hmesh_refine, mark_recursive, cell_neighborhood] + [_children_contract(d) for d in (1, 2, 3)] + [_parent_contract(d) for d in (1, 2, 3)]


# ---- the marking pass of HSpace.refine: after it the marks are closed under Nbh on EVERY level -------------------------------------

def _snapshot_marks(ex, st):
    """`marked = {lv: set(cells) for (lv, cells) in marked.items()}`: a copy of the marks, level by level.  The model holds the marks BY VALUE
    (level -> set of cells), so the copy is the identity on it; what the copy is for -- marks that alias the mesh's own sets -- is outside
    the value model and decided in the bounded tier (`alias` cases)."""
    return None


def _skip_max_h(ex, st):
    _skip_max(ex, st)


def _ensure_levels_h(ex, st):
    # HSpace._ensure_levels(max_lv + 2): afterwards numlevels >= max_lv + 2; modelled by the precondition numlevels == marked.len >= max_lv + 2
    me = st.heap[st.env['self'].id]
    from pyvc.symexec import _Line
    ex.oblige(st, 'pre', _Line(ex.fn.lineno + 14), to_z3(me.attrs['numlevels']) >= st.env['max_lv'] + 2, 'enough levels exist (ensure_levels is a no-op)', label='ensure_levels')


def _marking_post(s):
    d, M, M0 = s.self.disparity, s.marked, s.old.marked
    L = s.self.numlevels
    return [('closed-on-every-level', ForAll('k', lambda k: Implies(And(0 <= k, k < L), _closed(M, k, d, s.truncate)))),
            ('only-grows', ForAll('k', lambda k: Implies(And(0 <= k, k < L), z3.IsSubset(M0[k], M[k])))),
            ('marks-are-active-cells', _marks_active(M, s.self.hmesh.active)),
            ("caller's-dict-untouched", ForAll('k', lambda k: Implies(And(0 <= k, k < L), s.old.marked[k] == M0[k])))]


hspace_refine_marking = Contract(
    F, 'HSpace.refine', name='hierarchical:HSpace.refine[admissibility marking]',
    params={'self': Obj(disparity=Int(1), numlevels=Int(1), hmesh=Obj(active=SetList(Cell))), 'marked': SetList(Cell), 'truncate': Bool()},
    requires=lambda s: [s.marked.len == s.self.numlevels, s.self.hmesh.active.len == s.self.numlevels, _marks_active(s.marked, s.self.hmesh.active),
                        # (ensure_levels has run: the finest level and everything beyond carries no marks)
                        ForAll('l', lambda l: Implies(Or(l < 0, l >= s.self.numlevels - 1), _cq('c', lambda c: Not(s.marked.member(l, c)))))],
    callees={'self._mark_recursive': None},
    replace=[(r'marked = \{lv: set\(cells\) for', _snapshot_marks), (r'max_lv = max\(', _skip_max_h), (r'self\._ensure_levels\(max_lv \+ 2\)', _ensure_levels_h)],
    loops={0: LoopSpec(r'for l in range\(self\.numlevels\)', inv=lambda s: [
        ('closed-below-l', ForAll('k', lambda k: Implies(And(0 <= k, k < s.l), _closed(s.marked, k, s.self.disparity, s.truncate)))),
        ('len', s.marked.len == s.self.numlevels),
        ('marks-are-active-cells', _marks_active(s.marked, s.self.hmesh.active)),
        ('only-grows', ForAll('k', lambda k: Implies(And(0 <= k, k < s.marked.len), z3.IsSubset(s.old.marked[k], s.marked[k]))))])},
    ensures=_marking_post,
    options={'timeout_ms': 60000, 'stop_after': r'if self\.disparity < np\.inf', 'no_return_ok': True},
    notes=['only the admissibility-marking pass (up to and including the `if self.disparity < np.inf` block) is under contract; finite disparity '
           '(precondition: disparity is an integer >= 1); _mark_recursive is used through its contract, whose precondition "closed below l" is what '
           'forces the pass to visit every level in ascending order'],
)
hspace_refine_marking.callees['self._mark_recursive'] = mark_recursive


# ---- representation invariant of the cached index tables ---------------------------------------------------------------------
# HSpace caches canonical index tables (__ravel_global, __index_dirichlet, __ravel_dirichlet), which are functions of
# actfun / deactfun / the mesh.  Invariant: "cache empty or consistent with the state".  Every public method that changes
# that state must therefore end with self._clear_cache() on its normal path (private helpers are covered through their callers).

_STATE_ATTRS = ('actfun', 'deactfun', 'hmesh')
_MUT_METHODS = ('append', 'pop', 'add', 'discard', 'remove', 'update', 'clear', 'extend', 'insert', 'refine', 'add_level', 'ensure_levels')


def _mutations(fn):
    import ast
    out = []
    for n in ast.walk(fn):
        tg = []
        if isinstance(n, ast.Assign):
            tg = n.targets
        elif isinstance(n, ast.AugAssign):
            tg = [n.target]
        for t in tg:
            root, path = t, []
            while isinstance(root, (ast.Attribute, ast.Subscript)):
                if isinstance(root, ast.Attribute):
                    path.append(root.attr)
                root = root.value
            if isinstance(root, ast.Name) and root.id == 'self' and path and path[-1] in _STATE_ATTRS:
                out.append(n.lineno)
        if isinstance(n, ast.Call) and isinstance(n.func, ast.Attribute) and n.func.attr in _MUT_METHODS:
            root, path = n.func.value, []
            while isinstance(root, (ast.Attribute, ast.Subscript)):
                if isinstance(root, ast.Attribute):
                    path.append(root.attr)
                root = root.value
            if isinstance(root, ast.Name) and root.id == 'self' and path and path[-1] in _STATE_ATTRS:
                out.append(n.lineno)
    return out


def cache_invalidation_obligations():
    import ast
    from pyvc import frontend
    from pyvc.symexec import Obligation
    src = frontend.load(F)
    cls = [c for c in src.classes() if c.name == 'HSpace'][0]
    methods = {st.name: st for st in cls.body if isinstance(st, ast.FunctionDef)}
    # private helpers that mutate: their mutation is attributed to the callers
    mutating = {nm: _mutations(fn) for nm, fn in methods.items()}
    helpers = {nm for nm, m in mutating.items() if m and nm.startswith('_') and nm != '__init__'}
    changed = True
    while changed:          # helpers calling helpers
        changed = False
        for nm, fn in methods.items():
            if nm in helpers or not nm.startswith('_') or nm == '__init__':
                continue
            for n in ast.walk(fn):
                if isinstance(n, ast.Call) and isinstance(n.func, ast.Attribute) and isinstance(n.func.value, ast.Name) and n.func.value.id == 'self' \
                        and n.func.attr in helpers:
                    helpers.add(nm)
                    changed = True
    def muts_of(nm, fn):
        muts = list(mutating[nm])
        for n in ast.walk(fn):
            if isinstance(n, ast.Call) and isinstance(n.func, ast.Attribute) and isinstance(n.func.value, ast.Name) and n.func.value.id == 'self' \
                    and n.func.attr in helpers:
                muts.append(n.lineno)
        return muts

    def top_level_calls(fn, names):
        """line numbers of top-level statements `self.X(...)` / `return self.X(...)` with X in names"""
        out = []
        for st in fn.body:
            v = st.value if isinstance(st, (ast.Expr, ast.Return)) else None
            if isinstance(v, ast.Call) and isinstance(v.func, ast.Attribute) and isinstance(v.func.value, ast.Name) and v.func.value.id == 'self' \
                    and v.func.attr in names:
                out.append(st.lineno)
        return out

    cand = {nm: fn for nm, fn in methods.items() if nm not in helpers and muts_of(nm, fn)}
    ok_methods = set()
    status = {}
    for _ in range(len(cand) + 1):          # fixpoint: delegating to a method that clears the cache counts as clearing
        for nm, fn in cand.items():
            muts = muts_of(nm, fn)
            clears = top_level_calls(fn, {'_clear_cache'} | ok_methods)
            ok = bool(clears) and max(clears) > max(muts)
            if ok:
                stack = list(fn.body)
                while stack:                  # returns of the method itself (nested helper functions are skipped)
                    n = stack.pop()
                    if isinstance(n, (ast.FunctionDef, ast.Lambda)):
                        continue
                    if isinstance(n, ast.Return) and min(muts) <= n.lineno < max(clears):
                        ok = False
                    stack.extend(ast.iter_child_nodes(n))
            status[nm] = (ok, muts, clears)
            if ok:
                ok_methods.add(nm)
    obs = []
    for nm, fn in cand.items():
        ok, muts, clears = status[nm]
        o = Obligation('hierarchical:HSpace.%s:cache-invalidated-after-mutation' % nm, 'rule', fn.lineno, [], None,
                       'HSpace.%s changes actfun/deactfun/the mesh (lines %s) and afterwards unconditionally calls self._clear_cache() or a method that does'
                       % (nm, sorted(set(muts))[:6]), src=F)
        o.status, o.backend, o.time = ('proved' if ok else 'refuted'), 'ast-frame-analysis', 0.0
        if not ok:
            o.goal = 'state mutated at lines %s; unconditional top-level cache-clearing calls at lines: %s' % (sorted(set(muts)), clears)
        obs.append(o)
    if not obs:
        raise KeyError('no mutating public method of HSpace found')
    # _clear_cache itself: it must reset EVERY memo attribute.  Memo attributes are the private (name-mangled) attributes self.__x that
    # some method other than _clear_cache and __init__ assigns (filled lazily after construction; a private attribute set once in the
    # constructor is configuration, not a cache); each of them needs an unconditional top-level `self.__x = None` in _clear_cache.
    def private_stores(fn, top_level_only=False):
        out = {}
        nodes = fn.body if top_level_only else list(ast.walk(fn))
        for n in nodes:
            if isinstance(n, ast.Assign):
                for t in n.targets:
                    for e in (t.elts if isinstance(t, (ast.Tuple, ast.List)) else [t]):
                        if isinstance(e, ast.Attribute) and isinstance(e.value, ast.Name) and e.value.id == 'self' and \
                                e.attr.startswith('__') and not e.attr.endswith('__'):
                            if not top_level_only or (isinstance(n.value, ast.Constant) and n.value.value is None):
                                out.setdefault(e.attr, n.lineno)
        return out
    if '_clear_cache' not in methods:
        raise KeyError('HSpace._clear_cache not found')
    memo = {}
    for nm, fn in methods.items():
        if nm not in ('_clear_cache', '__init__'):
            for a_, ln in private_stores(fn).items():
                memo.setdefault(a_, (nm, ln))
    reset = private_stores(methods['_clear_cache'], top_level_only=True)
    if not memo:
        raise KeyError('no memo attribute of HSpace found')
    for a_, (nm, ln) in sorted(memo.items()):
        o = Obligation('hierarchical:HSpace._clear_cache:resets:%s' % a_.lstrip('_'), 'rule', methods['_clear_cache'].lineno, [], None,
                       '_clear_cache() unconditionally resets the memo attribute self.%s (assigned in %s, line %d) to None' % (a_, nm, ln), src=F)
        ok = a_ in reset
        # (refuted only if _clear_cache is the plain list of `self.__x = None` statements this analysis understands; any other way of
        # resetting -- a loop, setattr, del -- is undecided here and left to the persistent-object checks of the bounded tier)
        plain = all(isinstance(st_, ast.Assign) and isinstance(st_.value, ast.Constant) and st_.value.value is None or
                    (isinstance(st_, ast.Expr) and isinstance(st_.value, ast.Constant)) for st_ in methods['_clear_cache'].body)
        o.status, o.backend, o.time = ('proved' if ok else ('refuted' if plain else 'unknown')), 'ast-frame-analysis', 0.0
        if not ok:
            o.goal = 'self.%s is assigned in HSpace.%s (line %d) but _clear_cache() has no top-level `self.%s = None`; it resets only %s' % (
                a_, nm, ln, a_, sorted(reset))
        obs.append(o)
    return obs, None


# ---- _position_index: positions of a sorted sub-list inside a sorted list -----------------------------------------------------

def _strict(seq):
    return ForAll('a b', lambda a, b: Implies(And(0 <= a, a < b, b < seq.len), seq[a] < seq[b]))


_wit = z3.Function('position_witness', z3.IntSort(), z3.IntSort())


def _pi_req(s):
    sup, sub = s.suplist, s.sublist
    return [_strict(sup), _strict(sub),
            ForAll('j', lambda j: Implies(And(0 <= j, j < sub.len), And(0 <= _wit(j), _wit(j) < sup.len, sup[_wit(j)] == sub[j])))]


def _pi_inv(s):
    sup, sub, out, it = s.suplist, s.sublist, s.out, s._it0
    return [('len', out.len == it),
            ('found', ForAll('j', lambda j: Implies(And(0 <= j, j < it), And(0 <= out[j], out[j] < sup.len, sup[out[j]] == sub[j])))),
            # the search cursor never passes the position of the next candidate: it is at most one past the last found position
            ('cursor', And(0 <= s.k, If(it > 0, s.k <= out[it - 1] + 1, s.k <= 0)))]


position_index = Contract(
    F, '_position_index',
    params={'suplist': IntSeq(), 'sublist': IntSeq()},
    requires=_pi_req,
    loops={0: LoopSpec(r'for candidate in sublist', inv=_pi_inv)},
    ensures=lambda s: [('length', s.result.len == s.sublist.len),
                       ('positions', ForAll('j', lambda j: Implies(And(0 <= j, j < s.sublist.len),
                                                                   And(0 <= s.result[j], s.result[j] < s.suplist.len, s.suplist[s.result[j]] == s.sublist[j]))))],
    options={'timeout_ms': 30000, 'empty_lists_int': True},
    notes=['both lists strictly increasing and sublist contained in suplist (precondition, as documented); list.index(x, k) is modelled exactly '
           '(smallest position >= k, ValueError obligation); the sortedness is what makes the moving start position k sound'],
)

CONTRACTS = CONTRACTS + [position_index, hspace_refine_marking]


# ---- function activation: HSpace._functions_to_deactivate and the activation loop of HSpace.refine -----------------------------------
# Basis functions are elements of an uninterpreted sort; insupp(l, f, c) says that cell c of level l lies in the support of the level-l
# function f (every function has at least one cell: wit).  TPMesh objects are identified with their level; the two support queries
# are used through their contracts
#     mesh(l).supported_in(C) = {f : exists c in C. insupp(l, f, c)}       mesh(l).support(F) = {c : exists f in F. insupp(l, f, c)}
# With Omega_l = active[l] u deactivated[l] (level-l cells of the level-l region; deactivated[l] = level-l cells of the level-(l+1) region):
#     F-inv   f in actfun[l]    <=>  supp(f) <= Omega_l  and not  supp(f) <= deactivated[l]
#             f in deactfun[l]  <=>  supp(f) <= deactivated[l]
# which is the activation clause of the property, stated level by level.
Fun = z3.DeclareSort('Fun')
insupp = z3.Function('insupp', z3.IntSort(), Fun, Cell, z3.BoolSort())
wit = z3.Function('supp_witness', z3.IntSort(), Fun, Cell)


def _fq(body):
    f = z3.Const(fresh_name('f'), Fun)
    return z3.ForAll([f], body(f))


def _supp_in(l, f, pred):
    """supp_l(f) is contained in {c : pred(c)}"""
    return _cq('c', lambda c: Implies(insupp(l, f, c), pred(c)))


def _supp_meets(l, f, pred):
    c = z3.Const(fresh_name('c'), Cell)
    return z3.Exists([c], And(insupp(l, f, c), pred(c)))


def _mesh_spec(ex, st, call, lv, **k):
    return to_z3(lv)


def _level_of_receiver(ex, st, call):
    lv = ex.ev(call.func.value, st)
    if not (isinstance(lv, int) or (z3.is_expr(lv) and z3.is_int(lv))):
        raise OutOfSubset('support query on something that is not self.mesh(level) at line %d' % call.lineno)
    return to_z3(lv)


def _supported_in_spec(ex, st, call, cells, **k):
    lv = _level_of_receiver(ex, st, call)
    sv = ex.as_set(st, cells, call)
    if sv is None:
        raise OutOfSubset('supported_in called with a non-set')
    f, c = z3.Const(fresh_name('f'), Fun), z3.Const(fresh_name('c'), Cell)
    return VSetVal(z3.Lambda([f], z3.Exists([c], And(z3.Select(sv[0], c), insupp(lv, f, c)))), Fun)


def _support_spec(ex, st, call, funcs, **k):
    lv = _level_of_receiver(ex, st, call)
    c = z3.Const(fresh_name('c'), Cell)
    if isinstance(funcs, Ref) and hasattr(st.heap[funcs.id], 'items'):
        items = list(st.heap[funcs.id].items)       # support([f]): a literal list of functions
        return VSetVal(z3.Lambda([c], Or(*[insupp(lv, ex.pack(f, Fun), c) for f in items]) if items else z3.BoolVal(False)), Cell)
    sv = ex.as_set(st, funcs, call)
    if sv is None:
        raise OutOfSubset('support called with neither a list literal nor a set')
    f = z3.Const(fresh_name('f'), Fun)
    return VSetVal(z3.Lambda([c], z3.Exists([f], And(z3.Select(sv[0], f), insupp(lv, f, c)))), Cell)


for _f in (_mesh_spec, _supported_in_spec, _support_spec):
    _f.writes = ()


class _HM:
    """the view of the HMesh stored in self.hmesh, shaped like the view HMesh.refine's own contract is written over"""

    def __init__(self, s, old=False):
        self.self = (s.old.self if old else s.self).hmesh
        self.marked = s.marked
        self._s, self._old = s, old

    @property
    def old(self):
        return _HM(self._s, old=True)


def _finv(act, deact, A, D, L, lo=0):
    """F-inv on the levels lo <= l < L"""
    return [('active-iff-in-region-l-not-in-region-l+1', ForAll('l', lambda l: Implies(And(lo <= l, l < L), _fq(lambda f: act.member(l, f) == And(
                _supp_in(l, f, lambda c: Or(A.member(l, c), D.member(l, c))), Not(_supp_in(l, f, lambda c: D.member(l, c)))))))),
            ('deactivated-iff-in-region-l+1', ForAll('l', lambda l: Implies(And(lo <= l, l < L), _fq(lambda f: deact.member(l, f) == _supp_in(l, f, lambda c: D.member(l, c))))))]


def _supports_nonempty():
    l = z3.Int(fresh_name('l'))
    f = z3.Const(fresh_name('f'), Fun)
    return z3.ForAll([l, f], insupp(l, f, wit(l, f)))


def _mf_spec(mf, s_self, M, L):
    """the set computed by _functions_to_deactivate: active functions meeting a marked cell with no active cell (of the CURRENT mesh) in their support"""
    hm = s_self.hmesh
    return ForAll('l', lambda l: Implies(And(0 <= l, l < L), _fq(lambda f: mf.member(l, f) == And(
        s_self.actfun.member(l, f), _supp_meets(l, f, lambda c: M.member(l, c)), Not(_supp_meets(l, f, lambda c: hm.active.member(l, c)))))))


def _new_mf(ex, st):
    hm = st.heap[st.heap[st.env['self'].id].attrs['hmesh'].id]
    n = ex.spec_value(st, hm.attrs['meshes'])
    r = Ref('mf')
    st.heap[r.id] = SetListContent(n.len, z3.K(z3.IntSort(), z3.EmptySet(Fun)), Fun)
    st.env['mf'] = r


_HSPACE = Obj(hmesh=Obj(active=SetList(Cell), deactivated=SetList(Cell), meshes=SetList(Cell)), actfun=SetList(Fun), deactfun=SetList(Fun))
_SUPPORT_CALLEES = {'mesh': _mesh_spec, 'supported_in': _supported_in_spec, 'support': _support_spec}

functions_to_deactivate = Contract(
    F, 'HSpace._functions_to_deactivate',
    params={'self': _HSPACE, 'marked': SetList(Cell)},
    requires=lambda s: [s.self.hmesh.meshes.len >= 1, s.marked.len == s.self.hmesh.meshes.len, s.self.actfun.len == s.self.hmesh.meshes.len,
                        s.self.hmesh.active.len == s.self.hmesh.meshes.len],
    callees=dict(_SUPPORT_CALLEES),
    replace=[(r'mf = dict\(\)', _new_mf)],
    loops={0: LoopSpec(r'for lv in range\(len\(self\.hmesh\.meshes\)\)', inv=lambda s: [
        ('len', s.mf.len == s.self.hmesh.meshes.len),
        ('done-levels', _mf_spec(s.mf, s.self, s.marked, s.lv))])},
    result=SetList(Fun),
    ensures=lambda s: [('len', s.result.len == s.self.hmesh.meshes.len),
                       ('marked-active-functions-without-active-cells', _mf_spec(s.result, s.self, s.marked, s.self.hmesh.meshes.len))],
    options={'timeout_ms': 60000},
    notes=['basis functions: uninterpreted sort with the support relation insupp(level, f, cell); TPMesh objects are identified with their level '
           '(self.mesh(lv) is lv); supported_in/support are used through their contracts over insupp (assumed here; the tensor-product index '
           'arithmetic behind them is exercised by the bounded tier); marked: total map level -> set; mf = dict() is a total map of empty sets'],
)


def _act_req(s):
    hm = s.self.hmesh
    L = hm.meshes.len
    return list(_refine_req(_HM(s))) + [s.self.actfun.len == L, s.self.deactfun.len == L, L >= 2, _supports_nonempty()] + \
        [f for _, f in _finv(s.self.actfun, s.self.deactfun, hm.active, hm.deactivated, L)]


def _act_inv(s):
    hm, hm0 = s.self.hmesh, s.old.self.hmesh
    L, lv = hm.meshes.len, s.lv
    act, de, act0, de0 = s.self.actfun, s.self.deactfun, s.old.self.actfun, s.old.self.deactfun
    A, D = hm.active, hm.deactivated
    return [('lengths', And(act.len == L, de.len == L)),
            ('done-levels', And(*[f for _, f in _finv(act, de, A, D, lv)])),
            # on the current level the new functions are active already, nothing has been deactivated yet
            ('current-level', Implies(lv < L, _fq(lambda f: And(
                act.member(lv, f) == And(_supp_in(lv, f, lambda c: Or(A.member(lv, c), D.member(lv, c))), Not(_supp_in(lv, f, lambda c: hm0.deactivated.member(lv, c)))),
                de.member(lv, f) == de0.member(lv, f))))),
            ('later-levels', ForAll('l', lambda l: Implies(And(lv < l, l < L), _fq(lambda f: And(act.member(l, f) == act0.member(l, f), de.member(l, f) == de0.member(l, f))))))]


def _act_post(s):
    hm = s.self.hmesh
    return [('I3-finest-level-has-no-deactivated-cells', _i3(hm.deactivated, hm.meshes.len))] + list(region_inv(hm.active, hm.deactivated, hm.meshes.len)) + _finv(s.self.actfun, s.self.deactfun, hm.active, hm.deactivated, hm.meshes.len) + \
        [('lengths', And(s.self.actfun.len == hm.meshes.len, s.self.deactfun.len == hm.meshes.len))]


def _skip_marking(ex, st):
    pass


def _mf_at_entry(mf, s):
    """what the call of _functions_to_deactivate established (it ran before the loop, on the old function sets and the new mesh)"""
    hm = s.self.hmesh
    return ForAll('l', lambda l: Implies(And(0 <= l, l < hm.meshes.len), _fq(lambda f: mf.member(l, f) == And(
        s.old.self.actfun.member(l, f), _supp_meets(l, f, lambda c: s.marked.member(l, c)), Not(_supp_meets(l, f, lambda c: hm.active.member(l, c)))))))


hspace_refine_activation = Contract(
    F, 'HSpace.refine', name='hierarchical:HSpace.refine[function activation]',
    params={'self': _HSPACE, 'marked': SetList(Cell), 'truncate': Bool()},
    requires=_act_req,
    callees=dict(_SUPPORT_CALLEES, **{'self._clear_cache': lambda ex, st, call, *a, **k: None}),
    replace=[(r'marked = \{lv: set\(cells\) for', _snapshot_marks), (r'max_lv = max\(', _skip_max), (r'self\._ensure_levels\(max_lv \+ 2\)', lambda ex, st: None),
             (r'if self\.disparity < np\.inf', _skip_marking)],
    loops={1: LoopSpec(r'for lv in range\(len\(self\.hmesh\.meshes\) - 1\)', inv=lambda s: _act_inv(s) + [
        ('mf-is-what-was-computed', _mf_at_entry(s.mf, s)), ('mf-len', s.mf.len == s.self.hmesh.meshes.len)])},
    ensures=_act_post,
    options={'timeout_ms': 120000},
    notes=['the part of HSpace.refine after the admissibility-marking pass (which has its own contract): `marked` denotes the dictionary after '
           'that pass; the levels exist (precondition) and the marks are active cells below the finest level',
           'HMesh.refine and _functions_to_deactivate are used through their contracts (both verified above); _clear_cache is a no-op on '
           'the modelled state (its placement is the cache-invalidation obligation)',
           'precondition: the region invariants I1/I2 and F-inv hold before the call (they hold for a new HSpace and are re-established by '
           'this postcondition: an inductive invariant of every refinement history); supports are non-empty'],
)
hspace_refine_activation.callees['refine'] = hmesh_refine
hspace_refine_activation.callees['self._functions_to_deactivate'] = functions_to_deactivate

CONTRACTS = CONTRACTS + [functions_to_deactivate, hspace_refine_activation]


# ---- adding levels: the invariants survive, and the precondition "the levels exist" of the refine contracts can be established -----------
# I3: the finest level has no deactivated cells (refine() marks nothing on it: ensure_levels(max_lv + 2)); I3 is what makes I2 hold
# for a freshly appended (empty) level.

def _i3(deact, L):
    return _cq('c', lambda c: Not(deact.member(L - 1, c)))


def _levels_unchanged(new, old, L0, q):
    return ForAll('l', lambda l: Implies(And(0 <= l, l < L0), q(lambda x: new.member(l, x) == old.member(l, x))))


def _skip_stmt(ex, st):
    pass


def _append_mesh(ex, st):
    """self.meshes.append(self.meshes[-1].refine()): one more mesh (the list only carries the number of levels in this model)"""
    me = st.heap[st.env['self'].id]
    c = st.heap[me.attrs['meshes'].id]
    c.data = z3.Store(c.data, to_z3(c.length), z3.EmptySet(Cell))
    c.length = to_z3(c.length) + 1


hmesh_add_level = Contract(
    F, 'HMesh.add_level',
    params={'self': Obj(active=SetList(Cell), deactivated=SetList(Cell), meshes=SetList(Cell), P=SetList(Cell))},
    requires=lambda s: [c for _, c in region_inv(s.self.active, s.self.deactivated, s.self.meshes.len)] + [
        s.self.meshes.len >= 1, s.self.active.len == s.self.meshes.len, s.self.deactivated.len == s.self.meshes.len,
        _i3(s.self.deactivated, s.self.meshes.len)],
    modifies=('self.active', 'self.deactivated', 'self.meshes'),
    replace=[(r'self\.meshes\.append\(self\.meshes\[-1\]\.refine\(\)\)', _append_mesh), (r'self\.P\.append\(tuple\(', _skip_stmt)],
    ensures=lambda s: [('one-more-level', And(s.self.meshes.len == s.old.self.meshes.len + 1, s.self.active.len == s.self.meshes.len,
                                              s.self.deactivated.len == s.self.meshes.len)),
                       ('new-level-empty', _cq('c', lambda c: And(Not(s.self.active.member(s.old.self.meshes.len, c)),
                                                                  Not(s.self.deactivated.member(s.old.self.meshes.len, c))))),
                       ('old-levels-unchanged', And(_levels_unchanged(s.self.active, s.old.self.active, s.old.self.meshes.len, lambda b: _cq('c', b)),
                                                    _levels_unchanged(s.self.deactivated, s.old.self.deactivated, s.old.self.meshes.len, lambda b: _cq('c', b)))),
                       ('I3-finest-level-has-no-deactivated-cells', _i3(s.self.deactivated, s.self.meshes.len))] +
                      [(lab, f) for lab, f in region_inv(s.self.active, s.self.deactivated, s.self.meshes.len)],
    options={'timeout_ms': 60000, 'no_return_ok': True},
    notes=['the mesh list carries only the number of levels; the refined TPMesh and the prolongation matrices appended to self.P are outside '
           'the modelled state (C05/C19 bounded); I2 for the new level needs I3 (no deactivated cells on the old finest level)'],
)


def _numlevels(ex, st, ref):
    hm = st.heap[st.heap[ref.id].attrs['hmesh'].id]
    return to_z3(st.heap[hm.attrs['meshes'].id].length)


_HSPACE_P = Obj(hmesh=Obj(active=SetList(Cell), deactivated=SetList(Cell), meshes=SetList(Cell), P=SetList(Cell)), actfun=SetList(Fun), deactfun=SetList(Fun))


def _hs_inv(s_self, lab=False):
    hm = s_self.hmesh
    L = hm.meshes.len
    out = list(region_inv(hm.active, hm.deactivated, L)) + [
        ('lengths', And(L >= 1, hm.active.len == L, hm.deactivated.len == L, s_self.actfun.len == L, s_self.deactfun.len == L)),
        ('I3-finest-level-has-no-deactivated-cells', _i3(hm.deactivated, L))] + _finv(s_self.actfun, s_self.deactfun, hm.active, hm.deactivated, L)
    return out if lab else [f for _, f in out]


class _HMself:
    def __init__(self, s, old=False):
        self.self = (s.old.self if old else s.self).hmesh
        self._s, self._old = s, old

    @property
    def old(self):
        return _HMself(self._s, old=True)


hspace_add_level = Contract(
    F, 'HSpace._add_level',
    params={'self': _HSPACE_P},
    requires=lambda s: _hs_inv(s.self) + [_supports_nonempty()],
    modifies=('self.actfun', 'self.deactfun', 'self.hmesh.active', 'self.hmesh.deactivated', 'self.hmesh.meshes'),
    callees={'add_level': hmesh_add_level},
    ensures=lambda s: _hs_inv(s.self, lab=True) + [
        ('one-more-level', s.self.hmesh.meshes.len == s.old.self.hmesh.meshes.len + 1),
        ('old-levels-unchanged', And(_levels_unchanged(s.self.actfun, s.old.self.actfun, s.old.self.hmesh.meshes.len, _fq),
                                     _levels_unchanged(s.self.deactfun, s.old.self.deactfun, s.old.self.hmesh.meshes.len, _fq),
                                     _levels_unchanged(s.self.hmesh.active, s.old.self.hmesh.active, s.old.self.hmesh.meshes.len, lambda b: _cq('c', b)),
                                     _levels_unchanged(s.self.hmesh.deactivated, s.old.self.hmesh.deactivated, s.old.self.hmesh.meshes.len, lambda b: _cq('c', b))))],
    options={'timeout_ms': 60000, 'no_return_ok': True, 'assert_mode': 'check'},
    notes=['all representation invariants (I1, I2, I3, F-inv, equal list lengths) are preserved when a level is appended: the new level has no '
           'cells and no functions, and since supports are non-empty no function is active or deactivated there'],
)

hspace_ensure_levels = Contract(
    F, 'HSpace._ensure_levels',
    params={'self': _HSPACE_P, 'L': Int()},
    requires=lambda s: _hs_inv(s.self) + [_supports_nonempty()],
    modifies=('self.actfun', 'self.deactfun', 'self.hmesh.active', 'self.hmesh.deactivated', 'self.hmesh.meshes'),
    callees={'self._add_level': hspace_add_level},
    loops={0: LoopSpec(r'while self\.numlevels < L', inv=lambda s: _hs_inv(s.self, lab=True) + [
        ('only-appends', And(s.self.hmesh.meshes.len >= s.old.self.hmesh.meshes.len,
                             _levels_unchanged(s.self.actfun, s.old.self.actfun, s.old.self.hmesh.meshes.len, _fq),
                             _levels_unchanged(s.self.deactfun, s.old.self.deactfun, s.old.self.hmesh.meshes.len, _fq),
                             _levels_unchanged(s.self.hmesh.active, s.old.self.hmesh.active, s.old.self.hmesh.meshes.len, lambda b: _cq('c', b)),
                             _levels_unchanged(s.self.hmesh.deactivated, s.old.self.hmesh.deactivated, s.old.self.hmesh.meshes.len, lambda b: _cq('c', b))))])},
    ensures=lambda s: _hs_inv(s.self, lab=True) + [
        ('enough-levels', s.self.hmesh.meshes.len >= s.L),
        ('no-level-removed', s.self.hmesh.meshes.len >= s.old.self.hmesh.meshes.len),
        ('old-levels-unchanged', And(_levels_unchanged(s.self.actfun, s.old.self.actfun, s.old.self.hmesh.meshes.len, _fq),
                                     _levels_unchanged(s.self.hmesh.active, s.old.self.hmesh.active, s.old.self.hmesh.meshes.len, lambda b: _cq('c', b))))],
    options={'timeout_ms': 60000, 'no_return_ok': True, 'properties': {'numlevels': _numlevels}},
    notes=['numlevels is the property len(self.hmesh.meshes); establishes the precondition "the levels exist" of the two HSpace.refine contracts '
           'while keeping every invariant (partial correctness; the loop terminates because each iteration adds a level)'],
)

CONTRACTS = CONTRACTS + [hmesh_add_level, hspace_add_level, hspace_ensure_levels]


# ---- the basis flag: `truncate=None` means "the basis of the space", an explicit flag is used as given -------------------------------
def basis_flag_obligations():
    """Every function of pyiga/hierarchical.py with a parameter `truncate=None` (represent_fine, virtual_hierarchy_prolongators,
    coeffs_to_levelwise_funcs, grid_eval, HSplineFunc.__init__): the first statement that mentions `truncate` is

        if <test over truncate>:  truncate = <...>.truncate

    and the test, evaluated as Python on truncate in {None, False, True}, is true for None only -- so that HB coefficients passed with
    an explicit truncate=False are not silently read as THB coefficients on a space built with truncate=True (and vice versa).
    Three-valued: a test that mentions anything but `truncate` and constants, or another statement shape, is undecided here."""
    import ast
    from pyvc import frontend
    from pyvc.symexec import Obligation
    src = frontend.load(F)
    fns = []
    for c in src.classes():
        for st in c.body:
            if isinstance(st, ast.FunctionDef):
                fns.append((c.name + '.' + st.name, st))
    obs = []
    for qn, fn in fns:
        a = fn.args
        names = [x.arg for x in a.args]
        if 'truncate' not in names:
            continue
        k = names.index('truncate') - (len(names) - len(a.defaults))
        if k < 0 or not (isinstance(a.defaults[k], ast.Constant) and a.defaults[k].value is None):
            continue
        o = Obligation('hierarchical:%s:basis-flag-default' % qn, 'rule', fn.lineno, [], None,
                       '%s(truncate=None): None is replaced by the truncate attribute of the space, an explicit False/True is kept' % qn, src=F)
        first = None
        for st in fn.body:
            if any(isinstance(n, ast.Name) and n.id == 'truncate' for n in ast.walk(st)):
                first = st
                break
        status, why = 'unknown', 'statement shape not recognised'
        if isinstance(first, ast.If) and not first.orelse and len(first.body) == 1 and isinstance(first.body[0], ast.Assign) \
                and len(first.body[0].targets) == 1 and isinstance(first.body[0].targets[0], ast.Name) and first.body[0].targets[0].id == 'truncate':
            test, val = first.test, first.body[0].value
            free = {n.id for n in ast.walk(test) if isinstance(n, ast.Name)}
            if free <= {'truncate'} and not any(isinstance(n, (ast.Call, ast.Attribute, ast.Subscript)) for n in ast.walk(test)):
                code = compile(ast.Expression(test), '<test>', 'eval')
                tv = {v: bool(eval(code, {'__builtins__': {}}, {'truncate': v})) for v in (None, False, True)}
                if isinstance(val, ast.Attribute) and val.attr == 'truncate':
                    if tv == {None: True, False: False, True: False}:
                        status, why = 'proved', ''
                    else:
                        status = 'refuted'
                        why = 'line %d: `if %s:` replaces the flag for truncate in %s (must be: None only)' % (
                            first.lineno, ast.unparse(test), sorted((repr(v) for v, t in tv.items() if t)))
                elif isinstance(val, ast.Constant) and tv.get(None):
                    status, why = 'refuted', 'line %d: None is replaced by the constant %r, not by the flag of the space' % (first.lineno, val.value)
        elif first is None:
            status, why = 'refuted', 'the parameter is never read'
        o.status, o.backend, o.time = status, 'ast-frame-analysis', 0.0
        if status != 'proved':
            o.goal = why
        obs.append(o)
    if len(obs) < 4:
        raise KeyError('fewer than 4 functions with a truncate=None parameter found in %s' % F)
    return obs, None


# ---- the one statement the refine contracts replace by its meaning -------------------------------------------------------------------
def max_level_obligations():
    """HMesh.refine and HSpace.refine start with `max_lv = max(<levels of `marked` with a non-empty cell list>, default=-1)`; the contracts
    replace that statement by its meaning (a level above which nothing is marked, attained unless nothing is marked at all).  Obligation:
    the statement is literally that expression.  Three-valued: any other text is undecided here (bounded tier)."""
    import ast
    from pyvc import frontend
    from pyvc.symexec import Obligation
    src = frontend.load(F)
    want = ast.unparse(ast.parse('max_lv = max((lv for (lv, cells) in marked.items() if cells), default=-1)'))
    obs = []
    for cname in ('HMesh', 'HSpace'):
        cls = [c for c in src.classes() if c.name == cname][0]
        fn = [st for st in cls.body if isinstance(st, ast.FunctionDef) and st.name == 'refine'][0]
        stmts = [st for st in fn.body if isinstance(st, ast.Assign) and isinstance(st.targets[0], ast.Name) and st.targets[0].id == 'max_lv']
        o = Obligation('hierarchical:%s.refine:max-marked-level' % cname, 'rule', fn.lineno, [], None,
                       '%s.refine: max_lv is the largest level with a non-empty list of marked cells, -1 if nothing is marked' % cname, src=F)
        ok = len(stmts) == 1 and ast.unparse(stmts[0]) == want
        o.status, o.backend, o.time = ('proved' if ok else 'unknown'), 'ast-frame-analysis', 0.0
        if not ok:
            o.goal = 'statement is %r' % ([ast.unparse(s_) for s_ in stmts],)
        obs.append(o)
    return obs, None
