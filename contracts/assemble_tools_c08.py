"""C08 contracts on pyiga/assemble_tools_cy.pyx (+ genericasm.pxi, which it includes): the thread-pool chunking and the
write frames of the per-chunk / per-iteration kernels.  Schedule independence follows: the chunks partition the index
range, every chunk writes only its own slice of the output, every output element is a function of its own index pair."""
import z3
from pyvc.spec import *
from pyvc.values import Pair, fresh_name, arr_store

F = 'pyiga/assemble_tools_cy.pyx'


# ---- chunk_tasks: the yielded slices are non-empty, consecutive and cover range(len(tasks)) -------------------------------

def _lo(p):
    return Pair.p(p)


def _hi(p):
    return Pair.i(p)


def _chunks_wf(Y, L, upto):
    """the first Y.len slices are non-empty, inside [0, L], start at 0 and are consecutive; the last one ends at `upto`"""
    return [('nonempty-in-range', ForAll('j', lambda j: Implies(And(0 <= j, j < Y.len), And(0 <= _lo(Y[j]), _lo(Y[j]) < _hi(Y[j]), _hi(Y[j]) <= L)))),
            ('consecutive', ForAll('j', lambda j: Implies(And(0 <= j, j + 1 < Y.len), _hi(Y[j]) == _lo(Y[j + 1])))),
            ('starts-at-0', Implies(Y.len > 0, _lo(Y[0]) == 0)),
            ('ends-at', Implies(Y.len > 0, _hi(Y[Y.len - 1]) == upto))]


def _chunk_inv(s):
    L = s.tasks.shape[0]
    i = s.i
    upto = z3.If(i < L, i, L)
    return [('count', s.yielded.len >= 0), ('first', (s.yielded.len == 0) == (i == 0)), ('progress', s.n >= 1)] + _chunks_wf(s.yielded, L, upto)


def _chunk_post(s):
    L = s.tasks.shape[0]
    return _chunks_wf(s.yielded, L, L) + [('empty-iff-no-tasks', (s.yielded.len == 0) == (L == 0))]


chunk_tasks = Contract(
    F, 'chunk_tasks',
    params={'tasks': Arr('real', 1, numpy=True), 'num_chunks': Int(1)},
    loops={0: LoopSpec(r'for i in range\(', inv=_chunk_inv)},
    ensures=_chunk_post,
    options={'no_return_ok': True, 'timeout_ms': 20000},
    notes=['generator: `yield tasks[i:i+n]` appends the clipped bounds (lo, hi) of the slice to the ghost sequence `yielded`; only len(tasks) and '
           'num_chunks enter the bounds, so two calls with equal length and equal num_chunks cut at identical positions',
           'num_chunks >= 1 (get_max_threads() returns the CPU count for falsy settings; multi_entries calls chunk_tasks only when it is > 1)'],
)

CONTRACTS = [chunk_tasks]


# ---- from_seq1/2/3: mixed-radix digits of a sequential index ---------------------------------------------------------------

def _horner(d, n):
    r = d[0]
    for k in range(1, len(d)):
        r = r * n[k] + d[k]
    return r


def _fromseq(L):
    return Contract(
        F, 'from_seq%d' % L, name='assemble_tools_cy:from_seq%d' % L,
        params={'i': Int(0, 2**40), 'ndofs': Arr('int', 1, shape=(L,), elem_range=(1, 2**12)), 'out': Arr('int', 1, shape=(L,))},
        modifies=('out',),
        ensures=lambda s: [('digits-in-range', And(*[And(0 <= s.out[k], s.out[k] < s.ndofs[k]) for k in range(1, L)] + [s.out[0] >= 0])),
                           ('recompose', _horner([s.out[k] for k in range(L)], [s.ndofs[k] for k in range(L)]) == s.old.i)],
        notes=['ndofs[k] >= 1 (a knot vector has at least one basis function); the leading digit is not reduced (as in the code)'],
    )


FROM_SEQ = [_fromseq(L) for L in (1, 2, 3)]

# ---- multi_entries_chunk / multi_blocks_chunk: out[k] is written exactly once, from idx_arr[k] alone --------------------------
# U_d(i, ndofs) is the digit function whose graph from_seq<dim> computes (functional by the Horner injectivity lemma);
# Entry is the (pure) value entry_impl stores -- its frame is checked on the shipped/generated kernels separately.

_IA = z3.ArraySort(z3.IntSort(), z3.IntSort())
Digits = z3.Function('from_seq_digit', z3.IntSort(), _IA, z3.IntSort(), z3.IntSort())          # (i, ndofs, k) -> digit k
Entry = z3.Function('entry_value', _IA, _IA, z3.IntSort(), z3.RealSort())                       # (I, J, component) -> value


def _from_seq_spec(ex, st, call, i, ndofs, out, **k):
    from pyvc.values import ArrContent
    cn, co = st.heap[ndofs.id], st.heap[out.id]
    q = z3.Int(fresh_name('q'))
    co.data = z3.Lambda([q], Digits(to_z3(i), cn.data, q))
    return None


_from_seq_spec.writes = (2,)


# supports_overlap(I, J): the generated entry_impl returns WITHOUT writing when the supports of the two basis functions do not intersect
Overlap = z3.Function('supports_overlap', _IA, _IA, z3.BoolSort())


def _entry_impl_spec(ncomp, partial=False):
    def spec(ex, st, call, I, J, ptr, **k):
        ci, cj, c = st.heap[I.id], st.heap[J.id], st.heap[ptr.ref.id]
        from pyvc.values import arr_select

        def Entry_(ci_data, cj_data, t, where):
            # partial: the stored value is Entry(I, J, t) if the supports overlap, the OLD content of the cell otherwise
            v = Entry(ci_data, cj_data, t)
            return z3.If(Overlap(ci_data, cj_data), v, arr_select(c.data, where)) if partial else v
        import ast as _ast
        midx = getattr(ptr, 'midx', None)
        if midx is not None and len(c.shape) == len(midx) and len(midx) >= 2 and (len(midx) == 2 or not isinstance(c.shape[1], int)):
            # &entries[mu0, ..., 0]: the block is the last axis of the output array
            for t in range(ncomp):
                ok = And(*[And(to_z3(i) >= 0, to_z3(i) < to_z3(n)) for i, n in zip(midx[:-1], c.shape[:-1])] +
                         [to_z3(midx[-1]) + t >= 0, to_z3(midx[-1]) + t < to_z3(c.shape[-1])])
                ex.oblige(st, 'safe:index', call, ok, 'entry_impl writes inside the output row', label='entry_impl:write:%d:L+%d' % (t, ex.rel(call)))
                where = list(midx[:-1]) + [ex.binop(st, _ast.Add(), midx[-1], t, call)]
                c.data = arr_store(c.data, where, Entry_(ci.data, cj.data, z3.IntVal(t), where))
            return None
        for t in range(ncomp):
            flat = ex.binop(st, _ast.Add(), ptr.offset, t, call)
            total = 1
            for s_ in c.shape:
                total = total * s_
            ex.oblige(st, 'safe:index', call, And(to_z3(flat) >= 0, to_z3(flat) < to_z3(total)), 'entry_impl writes inside the output buffer',
                      label='entry_impl:write:%d:L+%d' % (t, ex.rel(call)))
            where = ex.unflatten(c, flat)
            c.data = arr_store(c.data, where, Entry_(ci.data, cj.data, z3.IntVal(t), where))
        return None
    spec.writes = (2,)
    return spec


def _dig(i, nd):
    q = z3.Int(fresh_name('q'))
    return z3.Lambda([q], Digits(to_z3(i), nd, q))


def _chunk_contract(dim, blocks=None):
    cls = ('BaseVectorAssembler%dD' if blocks else 'BaseAssembler%dD') % dim
    meth = 'multi_blocks_chunk' if blocks else 'multi_entries_chunk'
    nc = (blocks[0] * blocks[1]) if blocks else 1
    outsort = Arr('real', 3, shape=(None, blocks[0], blocks[1])) if blocks else Arr('real', 1)

    def at(s, m, t):
        return s.out[m, t // blocks[1], t % blocks[1]] if blocks else s.out[m]

    def old_at(s, m, t):
        return s.old.out[m, t // blocks[1], t % blocks[1]] if blocks else s.old.out[m]

    def val(s, m, t):
        dI, dJ = _dig(s.idx_arr[m, 0], s.self.S1_ndofs.data), _dig(s.idx_arr[m, 1], s.self.S0_ndofs.data)
        return z3.If(Overlap(dI, dJ), Entry(dI, dJ, z3.IntVal(t)), to_z3(old_at(s, m, t)))

    def inv(s):
        return [('done', ForAll('m', lambda m: Implies(And(0 <= m, m < s.k), And(*[at(s, m, t) == val(s, m, t) for t in range(nc)])))),
                ('rest-untouched', ForAll('m', lambda m: Implies(And(s.k <= m, m < s.out.shape[0]), And(*[at(s, m, t) == old_at(s, m, t) for t in range(nc)])))),
                ('shape', s.out.shape[0] == s.old.out.shape[0])]

    def post(s):
        N = s.idx_arr.shape[0]
        return [('each-output-from-its-own-index', Implies(s.self.arity == 2, ForAll('m', lambda m: Implies(And(0 <= m, m < N), And(*[at(s, m, t) == val(s, m, t) for t in range(nc)]))))),
                ('no-op-for-other-arity', Implies(s.self.arity != 2, ForAll('m', lambda m: Implies(And(0 <= m, m < N), And(*[at(s, m, t) == old_at(s, m, t) for t in range(nc)])))))]

    return Contract(
        F, '%s.%s' % (cls, meth), name='assemble_tools_cy:%s.%s%s' % (cls, meth, '[%dx%d]' % blocks if blocks else ''),
        params={'self': Obj(arity=Int(), S0_ndofs=Arr('int', 1, shape=(dim,), elem_range=(1, 2**12)), S1_ndofs=Arr('int', 1, shape=(dim,), elem_range=(1, 2**12))),
                'idx_arr': Arr('int', 2, shape=(None, 2), elem_range=(0, 2**40)), 'out': outsort},
        requires=lambda s: [s.out.shape[0] == s.idx_arr.shape[0]],
        modifies=('out',),
        callees={'from_seq%d' % dim: _from_seq_spec, 'self.entry_impl': _entry_impl_spec(nc, partial=True)},
        loops={0: LoopSpec(r'for k in range\(idx_arr\.shape\[0\]\)', inv=inv)},
        ensures=post,
        options={'no_return_ok': True, 'timeout_ms': 30000},
        notes=['precondition len(out) == len(idx_arr): the two chunk generators cut at identical positions (chunk_tasks contract) and the unchunked '
               'call allocates result with idx_arr.shape[0] rows',
               'entry_impl(I, J, p) is replaced by its frame contract: if the supports of I and J overlap it stores Entry(I, J, t) to p[t], t < number of '
               'block components; otherwise it returns without writing (the generated kernels do); nothing else is written (frame of the shipped and '
               'generated kernels: see the entry_impl frame obligations).  So out[m] is Entry(...) or its OLD content: the callers hand in zero-initialised '
               'arrays (obligation result-zero-initialised)'],
    )


CHUNK_KERNELS = [_chunk_contract(d) for d in (1, 2, 3)] + [_chunk_contract(d, b) for d in (1, 2, 3) for b in ((1, 1), (2, 2), (1, 2), (2, 1), (3, 3))]

CONTRACTS_BASE = [chunk_tasks] + FROM_SEQ + CHUNK_KERNELS


# ---- _asm_core_vec_{1,2,3}d_kernel: one prange iteration writes only rows mu0 and transp0[mu0] of `entries` -------------------

def _vec_kernel(dim, nc):
    nc0, nc1 = nc
    NC = nc0 * nc1
    names = ['bidx%d' % k for k in range(dim)]
    tnames = ['transp%d' % k for k in range(dim)]

    def sel(A, lead, rest):
        return A[tuple([lead] + list(rest))]

    def frame(s):
        """rows other than mu0 / transp0[mu0] (leading axis) are untouched"""
        E, E0 = s.entries, s.old.entries
        m0 = s.old._mu0
        t0 = s.transp0[m0]
        vars_ = 'r ' + ' '.join('a%d' % k for k in range(dim))

        def body(r, *rest):
            return Implies(And(r != m0, Or(Not(s.symmetric), r != t0)), sel(E, r, rest) == sel(E0, r, rest))
        return ForAll(vars_, body)

    def nothing(s):
        E, E0 = s.entries, s.old.entries
        vars_ = 'r ' + ' '.join('a%d' % k for k in range(dim))
        return ForAll(vars_, lambda r, *rest: sel(E, r, rest) == sel(E0, r, rest))

    def shapes(s):
        return And(*[s.entries.shape[k] == s.old.entries.shape[k] for k in range(dim + 1)])

    def inv(s):
        return [('frame', frame(s)), ('shape', shapes(s)), ('lower', Implies(s.symmetric, s.j[0] <= s.i[0]))]

    def inv_level(level):
        # inside the loops over mu_1 .. mu_{level-1}: those counters are in range
        def f(s):
            out = inv(s)
            for k in range(1, level):
                mu = getattr(s, 'mu%d' % k)
                out.append(('mu%d' % k, And(0 <= mu, mu < getattr(s, 'bidx%d' % k).shape[0])))
            return out
        return f
    inv_inner = inv_level(dim)

    def req(s):
        r = [s.entries.shape[dim] == NC, s.numcomp[0] == nc0, s.numcomp[1] == nc1, 0 <= s._mu0, s._mu0 < s.bidx0.shape[0]]
        for k in range(dim):
            b, t = getattr(s, names[k]), getattr(s, tnames[k])
            r += [s.entries.shape[k] == b.shape[0],
                  Implies(s.symmetric, And(t.shape[0] == b.shape[0], ForAll('m', lambda m, b=b, t=t: Implies(And(0 <= m, m < b.shape[0]), And(
                      0 <= t[m], t[m] < b.shape[0], b[t[m], 0] == b[m, 1], b[t[m], 1] == b[m, 0])))))]
        return r

    def post(s):
        m0 = s.old._mu0
        upper = And(s.symmetric, s.bidx0[m0, 1] > s.bidx0[m0, 0])
        return [('frame: only rows mu0 and transp0[mu0]', frame(s)),
                ('strictly-upper blocks write nothing', Implies(upper, nothing(s))),
                ('shape', shapes(s))]

    loops = {}
    for k in range(1, dim):
        loops[k - 1] = LoopSpec(r'for mu%d in range\(MU%d\)' % (k, k), inv=inv_level(k))
    loops[dim - 1] = LoopSpec(r'for row in range\(numcomp\[1\]\)', inv=lambda s: inv_inner(s) + [('row', s.row >= 0)])
    loops[dim] = LoopSpec(r'for col in range\(numcomp\[0\]\)', inv=lambda s: inv_inner(s) + [('rowcol', And(0 <= s.row, s.row < nc1, s.col >= 0))])
    # completeness of the lower triangle: a block is skipped (return / continue) only if it lies STRICTLY ABOVE the diagonal, i.e. the tuple
    # (j_0 - i_0, ..., j_k - i_k) of the levels fixed so far is lexicographically positive (then every completion of it is).  The skipping
    # statements are addressed by their nesting depth (4 spaces per level, as the generator template emits them).
    def lexpos(s, k):
        d = [getattr(s, 'diag%d' % q) for q in range(k + 1)]
        return Or(*[And(*([d[q] == 0 for q in range(p_)] + [d[p_] > 0])) for p_ in range(k + 1)])
    checks = [(r'^ {12}return\s*(#.*)?$', lambda s: [('skipped-only-if-strictly-above-the-diagonal', And(s.symmetric, lexpos(s, 0)))])]
    for k in range(1, dim):
        checks.append((r'^ {%d}continue\s*(#.*)?$' % (12 + 4 * k), lambda s, k=k: [('skipped-only-if-strictly-above-the-diagonal', And(s.symmetric, lexpos(s, k)))]))
    params = {'asm': Opaque(), 'symmetric': Bool(), 'numcomp': Arr('int', 1, shape=(2,)),
              'entries': Arr('real', dim + 1), '_mu0': Int(0)}
    for k in range(dim):
        params[names[k]] = Arr('int', 2, shape=(None, 2), elem_range=(0, 2**20))
        params[tnames[k]] = Arr('int', 1)
    return Contract(
        F, '_asm_core_vec_%dd_kernel' % dim, name='assemble_tools_cy:_asm_core_vec_%dd_kernel[%dx%d]' % (dim, nc0, nc1),
        params=params, requires=req, modifies=('entries',),
        callees={'entry_impl': _entry_impl_spec(NC)},
        loops=loops, ensures=post, checks=checks,
        options={'no_return_ok': True, 'timeout_ms': 60000},
        notes=['transp_k is the contract of get_transpose_idx_for_bidx: bidx_k[transp_k[m]] is the reversed pair of bidx_k[m] (precondition here; checked '
               'on the real function in the bounded tier)',
               'one prange iteration = one call; together with the race lemma distinct iterations write disjoint rows'],
    )


VEC_KERNELS = [_vec_kernel(d, nc) for d in (1, 2, 3) for nc in ((1, 1), (2, 2), (3, 3))]


def race_lemma():
    """distinct prange iterations m != m' of the vector kernels write disjoint sets of rows (leading axis), given the frame contracts"""
    from pyvc.symexec import Obligation
    I = z3.Function('bi', z3.IntSort(), z3.IntSort())
    J = z3.Function('bj', z3.IntSort(), z3.IntSort())
    T = z3.Function('transp', z3.IntSort(), z3.IntSort())
    n, m, m2, r = z3.Ints('n m m2 r')
    sym = z3.Bool('symmetric')
    a, b = z3.Ints('a b')
    hyp = [z3.ForAll([a], Implies(And(0 <= a, a < n), And(0 <= T(a), T(a) < n, I(T(a)) == J(a), J(T(a)) == I(a)))),
           z3.ForAll([a, b], Implies(And(0 <= a, a < n, 0 <= b, b < n, I(a) == I(b), J(a) == J(b)), a == b)),
           0 <= m, m < n, 0 <= m2, m2 < n, m != m2]

    def writes(x, row):
        # rows the iteration x may write according to the kernel contract
        return z3.And(z3.Not(z3.And(sym, J(x) > I(x))), z3.Or(row == x, z3.And(sym, J(x) != I(x), row == T(x))))
    goal = z3.Not(z3.And(writes(m, r), writes(m2, r)))
    ob = Obligation('assemble_tools_cy:prange:disjoint-write-rows', 'lemma', 0, hyp, goal,
                    'two distinct iterations of prange(MU0) never write the same row of `entries` (bidx rows pairwise distinct, transp = index of the reversed pair)', src=F)
    return [ob], None


# ---- frame of the kernels the chunk/prange drivers call: entry_impl / combine write only locals and result[...] ----------------

_PURE_CALLS = {'intersect_intervals', 'make_intv', 'fabs', 'sqrt', 'exp', 'log', 'sin', 'cos', 'tan', 'min', 'max', 'abs', 'range', 'prange',
               '__addr__', '__cast__', 'pow'}


def _kernel_frame(fn, clsname):
    import ast
    params = [a.arg for a in fn.args.args]
    bad = []
    for st in ast.walk(fn):
        tg = []
        if isinstance(st, ast.Assign):
            tg = list(st.targets)
        elif isinstance(st, ast.AugAssign):
            tg = [st.target]
        for t in tg:
            for e in (t.elts if isinstance(t, ast.Tuple) else [t]):
                root, through_attr = e, False
                while isinstance(root, (ast.Attribute, ast.Subscript)):
                    through_attr = through_attr or isinstance(root, ast.Attribute)
                    root = root.value
                if isinstance(e, ast.Name):
                    continue                               # plain local (cdef locals / loop variables)
                if not isinstance(root, ast.Name):
                    bad.append((st.lineno, 'store through a computed base: ' + ast.unparse(st)[:70]))
                elif root.id == 'self' or through_attr:
                    bad.append((st.lineno, 'store into assembler state: ' + ast.unparse(st)[:70]))
                elif root.id in params and root.id != 'result':
                    bad.append((st.lineno, 'store into the argument %s: %s' % (root.id, ast.unparse(st)[:70])))
        if isinstance(st, ast.Call):
            f = st.func
            if isinstance(f, ast.Name):
                if f.id not in _PURE_CALLS:
                    bad.append((st.lineno, 'call of %s (not in the list of pure helpers)' % f.id))
            elif isinstance(f, ast.Attribute):
                if not (f.attr == 'combine' and isinstance(f.value, ast.Name) and f.value.id == clsname):
                    bad.append((st.lineno, 'method call %s' % ast.unparse(f)[:60]))
        if isinstance(st, (ast.Global, ast.Nonlocal)):
            bad.append((st.lineno, 'global statement'))
    return bad


def kernel_frame_obligations():
    """entry_impl and combine of every shipped assembler store only into locals and result[...] and call only pure helpers:
    concurrent calls on one assembler object therefore cannot interfere, and a call changes nothing but its output block"""
    from pyvc import frontend
    from pyvc.symexec import Obligation
    obs = []
    src = frontend.load('pyiga/assemblers.pyx')
    n = 0
    for cls in src.classes():
        for st in cls.body:
            import ast
            if isinstance(st, ast.FunctionDef) and st.name in ('entry_impl', 'combine'):
                n += 1
                bad = _kernel_frame(st, cls.name)
                o = Obligation('assemblers:%s.%s:frame' % (cls.name, st.name), 'rule', st.lineno, [], None,
                               '%s.%s assigns only locals and result[...], calls only pure helpers' % (cls.name, st.name), src='pyiga/assemblers.pyx')
                o.status, o.backend, o.time = ('proved' if not bad else 'refuted'), 'ast-frame-analysis', 0.0
                if bad:
                    o.goal = '; '.join('line %d: %s' % b for b in bad[:3])
                obs.append(o)
    if n < 28:
        raise KeyError('expected entry_impl and combine of 14 shipped assemblers, found %d kernels' % n)
    return obs, None


# ---- lexicographic iteration used by assemble_vector ----------------------------------------------------------------------------

def _nextlex(d):
    def req(s):
        return [And(*[And(s.start[k] <= s.cur[k], s.cur[k] < s.end[k]) for k in range(d)])]

    def post(s):
        c0, c1 = s.old.cur, s.cur
        succ = Or(*[And(*([c1[k] == c0[k] for k in range(p)] + [c1[p] == c0[p] + 1, c1[p] < s.end[p]] +
                          [And(c0[k] == s.end[k] - 1, c1[k] == s.start[k]) for k in range(p + 1, d)])) for p in range(d)])
        last = And(*[c0[k] == s.end[k] - 1 for k in range(d)])
        return [('successor-or-last', If(s.result != 0, succ, last)),
                ('result-is-0-or-1', Or(s.result == 0, s.result == 1)),
                ('stays-in-the-box', Implies(s.result != 0, And(*[And(s.start[k] <= c1[k], c1[k] < s.end[k]) for k in range(d)])))]
    return Contract(
        F, 'next_lexicographic%d' % d, name='assemble_tools_cy:next_lexicographic%d' % d,
        params={'cur': Arr('int', 1, shape=(d,), elem_range=(0, 2**40)), 'start': Arr('int', 1, shape=(d,), elem_range=(0, 2**40)),
                'end': Arr('int', 1, shape=(d,), elem_range=(0, 2**40))},
        requires=req, modifies=('cur',), ensures=post, result=Int(),
        options={'timeout_ms': 20000},
        notes=['cur is advanced to its lexicographic successor inside the box [start, end) (last axis fastest); result 0 iff cur was the last multi-index'],
    )


NEXT_LEX = [_nextlex(d) for d in (1, 2, 3)]


def ravel_successor_lemma():
    """the lexicographic successor in a box [0,n) has raveled (row-major) index + 1: assemble_vector's `out += 1` walks the result array in step
    with next_lexicographic, so every entry is written exactly once, at its own raveled position, and the walk ends at the last element"""
    from pyvc.symexec import Obligation
    obs = []
    for d in (1, 2, 3):
        n = [z3.Int('n%d' % k) for k in range(d)]
        a = [z3.Int('a%d' % k) for k in range(d)]
        b = [z3.Int('b%d' % k) for k in range(d)]

        def rav(x):
            r = x[0]
            for k in range(1, d):
                r = r * n[k] + x[k]
            return r
        hyp = [And(*[And(0 <= a[k], a[k] < n[k], n[k] <= 2**20) for k in range(d)])]
        succ = Or(*[And(*([b[k] == a[k] for k in range(p)] + [b[p] == a[p] + 1, b[p] < n[p]] +
                          [And(a[k] == n[k] - 1, b[k] == 0) for k in range(p + 1, d)])) for p in range(d)])
        obs.append(Obligation('assemble_tools_cy:assemble_vector:ravel-successor[dim=%d]' % d, 'lemma', 0, hyp + [succ], rav(b) == rav(a) + 1,
                              'ravel(successor(I)) == ravel(I) + 1 for multi-indices of a %dD box' % d, src=F))
        last = And(*[a[k] == n[k] - 1 for k in range(d)])
        tot = n[0]
        for k in range(1, d):
            tot = tot * n[k]
        obs.append(Obligation('assemble_tools_cy:assemble_vector:ravel-last[dim=%d]' % d, 'lemma', 0, hyp + [last], rav(a) == tot - 1,
                              'the last multi-index has raveled index size-1 (the pointer never leaves the array)', src=F))
    return obs, None


CONTRACTS = CONTRACTS_BASE + VEC_KERNELS + NEXT_LEX


# ---- assemble_vector: the pointer walk visits every entry of the result exactly once, in raveled order --------------------------

_entry1_fns = {}


def Entry1(idx, t):
    """value entry_impl stores for the multi-index idx (a list of ints) and component t: one uninterpreted function per dimension"""
    d = len(idx)
    if d not in _entry1_fns:
        _entry1_fns[d] = z3.Function('entry1_value_%dd' % d, *([z3.IntSort()] * (d + 1) + [z3.RealSort()]))
    return _entry1_fns[d](*([to_z3(i) for i in idx] + [to_z3(t)]))


def _entry1_spec(ncomp):
    """arity-1 entry_impl(I, NULL, p): call-site precondition `p addresses element I of the (C-contiguous) result array`; effect: that element
    (resp. its ncomp components) receives Entry1(I, t).  Writing through the multi-index avoids un-flattening the address by division."""
    def spec(ex, st, call, I, J, ptr, **k):
        ci, c = st.heap[I.id], st.heap[ptr.ref.id]
        d = len(c.shape) - (1 if ncomp > 1 else 0)
        idx = [z3.Select(ci.data, k_) for k_ in range(d)]
        flat = idx[0]
        for k_ in range(1, d):
            flat = flat * to_z3(c.shape[k_]) + idx[k_]
        if ncomp > 1:
            flat = flat * to_z3(c.shape[d])
        ex.oblige(st, 'pre', call, And(to_z3(ptr.offset) == flat, *[And(idx[k_] >= 0, idx[k_] < to_z3(c.shape[k_])) for k_ in range(d)]),
                  'the output pointer addresses element I of the result array', label='entry_impl:pointer-at-I:L+%d' % ex.rel(call))
        for t in range(ncomp):
            c.data = arr_store(c.data, idx + ([t] if ncomp > 1 else []), Entry1(idx, t))
        return None
    spec.writes = (2,)
    return spec


def _asm_vector(dim, nc=None):
    def rav(idx, n):
        r = idx[0]
        for k in range(1, dim):
            r = r * n[k] + idx[k]
        return r

    def lexless(a, b):
        """multi-index a strictly before b in lexicographic order"""
        return Or(*[And(*([a[k] == b[k] for k in range(p)] + [a[p] < b[p]])) for p in range(dim)])

    def inv(s):
        n = [s.self.S0_ndofs[k] for k in range(dim)]
        I = [s.I[k] for k in range(dim)]
        R = s._result
        names = ' '.join('a%d' % k for k in range(dim))
        inbox = lambda a: And(*[And(0 <= a[k], a[k] < n[k]) for k in range(dim)])
        return [('target', s.out.ref is s._result.ref), ('I-in-box', inbox(I)), ('pointer-at-I', s.out.offset == (rav(I, n) * nc if nc else rav(I, n))),
                ('zero', And(*[s.zero[k] == 0 for k in range(dim)])),
                ('shape', And(*([R.shape[k] == n[k] for k in range(dim)] + ([R.shape[dim] == nc, s.self.numcomp[0] == nc] if nc else [])))),
                ('done-before-I', ForAll(names, lambda *a: Implies(And(inbox(a), lexless(a, I)),
                                                                   And(*[R[tuple(a) + ((t,) if nc else ())] == Entry1(list(a), t) for t in range(nc or 1)]))))]

    def post(s):
        n = [s.self.S0_ndofs[k] for k in range(dim)]
        names = ' '.join('a%d' % k for k in range(dim))
        inbox = lambda a: And(*[And(0 <= a[k], a[k] < n[k]) for k in range(dim)])
        return [('every-entry-is-its-own-value', ForAll(names, lambda *a: Implies(inbox(a), And(*[s.result[tuple(a) + ((t,) if nc else ())] == Entry1(list(a), t)
                                                                                                   for t in range(nc or 1)]))))]

    cls = 'BaseVectorAssembler%dD' % dim if nc else 'BaseAssembler%dD' % dim
    obj = dict(arity=Int(), S0_ndofs=Arr('int', 1, shape=(dim,), elem_range=(1, 2**10)))
    if nc:
        obj['numcomp'] = Arr('int', 1, shape=(2,), elem_range=(1, 8))
    return Contract(
        F, '%s.assemble_vector' % cls, name='assemble_tools_cy:%s.assemble_vector%s' % (cls, '[%d components]' % nc if nc else ''),
        params={'self': Obj(**obj)},
        requires=lambda s: [s.self.arity == 1] + ([s.self.numcomp[0] == nc] if nc else []),
        callees={'self.entry_impl': _entry1_spec(nc or 1), 'next_lexicographic%d' % dim: NEXT_LEX[dim - 1]},
        loops={0: LoopSpec(r'while True', inv=inv)},
        ensures=post,
        options={'timeout_ms': 60000, 'no_return_ok': True},
        notes=['entry_impl(I, NULL, p) is replaced by its frame contract: it stores Entry1(I) to p[0]; next_lexicographic is used through its contract',
               'the dof counts are at least 1 (a knot vector has at least one basis function) and at most 2^10 per axis (keeps the products linear-size for the solver)'],
    )


ASM_VECTOR = [_asm_vector(d) for d in (1, 2, 3)] + [_asm_vector(d, nc) for d in (1, 2, 3) for nc in (2, 3)]
CONTRACTS = CONTRACTS + ASM_VECTOR


def transpose_table_obligations():
    """generic_assemble_core_vec_{1,2,3}d (symmetric assembly): the transpose table of direction k is computed from the sparsity pattern of
    direction k (transp_k = get_transpose_idx_for_bidx(bidx_k)) and the kernel receives (bidx_0.., transp_0..) in direction order -- the
    precondition "transp_k[mu] is the position of the reversed index pair of bidx_k[mu]" under which the vec kernels are verified.
    Reaching-definition analysis on the lowered source of the drivers."""
    import ast
    from pyvc import frontend
    from pyvc.symexec import Obligation
    src = frontend.load(F)
    obs = []
    for d in (1, 2, 3):
        name = 'generic_assemble_core_vec_%dd' % d
        fn = src.find(name)
        defs = {}
        for n in ast.walk(fn):
            if isinstance(n, ast.If) and isinstance(n.test, ast.Name) and n.test.id == 'symmetric':
                for st in n.body:
                    if isinstance(st, ast.Assign) and len(st.targets) == 1 and isinstance(st.targets[0], ast.Name):
                        defs[st.targets[0].id] = ast.unparse(st.value)
        want = {'transp%d' % k: 'get_transpose_idx_for_bidx(bidx%d)' % k for k in range(d)}
        ok1 = all(defs.get(k) == v for k, v in want.items())
        calls = [n for n in ast.walk(fn) if isinstance(n, ast.Call) and isinstance(n.func, ast.Name) and n.func.id == '_asm_core_vec_%dd_kernel' % d]
        args = [ast.unparse(a) for a in calls[0].args] if len(calls) == 1 else []
        seq = ['bidx%d' % k for k in range(d)] + ['transp%d' % k for k in range(d)]
        ok2 = args[2:2 + 2 * d] == seq
        o = Obligation('assemble_tools_cy:%s:transpose-tables' % name, 'rule', fn.lineno, [], None,
                       'transp_k is the transpose table of bidx_k for every direction k and the kernel gets them in direction order', src=F)
        import re as _re
        # three-valued: a table computed from ANOTHER direction's pattern, or tables handed over in another order, is a refutation; any
        # shape this analysis does not recognise is undecided (bounded tier)
        crossed = any((m := _re.fullmatch(r'get_transpose_idx_for_bidx\(bidx(\d)\)', defs.get('transp%d' % k, ''))) and int(m.group(1)) != k for k in range(d))
        misordered = sorted(args[2:2 + 2 * d]) == sorted(seq) and not ok2
        status = 'proved' if ok1 and ok2 else ('refuted' if crossed or misordered else 'unknown')
        o.status, o.backend, o.time = status, 'ast-dataflow (reaching definition)', 0.0
        if not (ok1 and ok2):
            o.goal = 'under `if symmetric:` %r (expected %r); kernel arguments %r (expected %r)' % (defs, want, args[2:2 + 2 * d], seq)
        obs.append(o)
    return obs, None



def zero_init_obligations():
    """multi_entries / multi_blocks of BaseAssembler{1,2,3}D / BaseVectorAssembler{1,2,3}D allocate the array they hand to the chunk kernels with
    np.zeros: entry_impl does not write pairs with disjoint supports, so those entries are 0 only because the array starts as zeros.
    Reaching-definition analysis (names aliased by plain assignments).  Three-valued: np.zeros proved, np.empty refuted, anything else unknown."""
    import ast
    from pyvc import frontend
    from pyvc.symexec import Obligation
    FF = 'pyiga/genericasm.pxi'
    src = frontend.load(FF)
    obs = []
    for cls in src.classes():
        for fn in cls.body:
            if not (isinstance(fn, ast.FunctionDef) and fn.name in ('multi_entries', 'multi_blocks')):
                continue
            chunk = fn.name + '_chunk'
            defs = {}
            for n in ast.walk(fn):
                if isinstance(n, (ast.Assign, ast.AnnAssign)) and getattr(n, 'value', None) is not None:
                    tg = n.targets[0] if isinstance(n, ast.Assign) else n.target
                    if isinstance(tg, ast.Name):
                        defs.setdefault(tg.id, []).append(n.value)
            arg = None
            for n in ast.walk(fn):
                if isinstance(n, ast.Call) and isinstance(n.func, ast.Attribute) and n.func.attr == chunk and isinstance(n.func.value, ast.Name) \
                        and n.func.value.id == 'self' and len(n.args) == 2 and isinstance(n.args[1], ast.Name) and n.args[1].id in defs:
                    arg = n.args[1].id
                    break
            o = Obligation('assemble_tools_cy:%s.%s:result-zero-initialised' % (cls.name, fn.name), 'rule', fn.lineno, [], None,
                           '%s.%s hands a zero-initialised array to %s (pairs with disjoint supports are not written)' % (cls.name, fn.name, chunk), src=FF)
            status, why = 'unknown', 'call of self.%s(idx_arr, <name>) not found' % chunk
            seen = set()
            while arg is not None and arg not in seen:
                seen.add(arg)
                vs = defs.get(arg, [])
                if len(vs) != 1:
                    why = '%s has %d definitions' % (arg, len(vs))
                    break
                v = vs[0]
                if isinstance(v, ast.Call) and isinstance(v.func, ast.Name) and v.func.id == '__cast__':
                    v = v.args[0]
                if isinstance(v, ast.Name):
                    arg = v.id
                    continue
                txt = ast.unparse(v)
                if txt.startswith('np.zeros('):
                    status, why = 'proved', ''
                elif txt.startswith('np.empty('):
                    status, why = 'refuted', 'allocated by %s' % txt
                else:
                    why = 'allocated by %s' % txt
                break
            o.status, o.backend, o.time = status, 'ast-dataflow (reaching definition)', 0.0
            if status != 'proved':
                o.goal = why
            obs.append(o)
    if len(obs) < 6:
        raise KeyError('expected multi_entries/multi_blocks of 6 base classes, found %d' % len(obs))
    return obs, None
