"""Predicates shared by several contract files."""
import z3
from pyvc.spec import *


def open_kv(kv, p, strict=True):
    """open knot vector of degree p: non-decreasing, first and last p+1 knots equal, every basis function
    has non-empty support (interior multiplicity <= p+1)."""
    n = kv.len
    return [
        p >= 0, n >= 2 * p + 2,
        ForAll('i', lambda i: Implies(And(0 <= i, i + 1 < n), kv[i] <= kv[i + 1])),
        ForAll('i', lambda i: Implies(And(0 <= i, i <= p), kv[i] == kv[0])),
        ForAll('i', lambda i: Implies(And(n - p - 1 <= i, i < n), kv[i] == kv[n - 1])),
        ForAll('i', lambda i: Implies(And(0 <= i, i < n - p - 1), kv[i] < kv[i + p + 1])),
    ]


def sorted_leq(kv):
    """consequence of monotonicity in the two-index form (helps the solver)"""
    n = kv.len
    return ForAll('i j', lambda i, j: Implies(And(0 <= i, i <= j, j < n), kv[i] <= kv[j]))
