"""Contracts for pyiga/bspline_cy.pyx"""
import z3
from pyvc.spec import *
from .common import open_kv, sorted_leq

F = 'pyiga/bspline_cy.pyx'
INT_MAX = 2**31 - 1


def findspan_requires(s):
    kv, p, u = s.kv, s.p, s.u
    n = kv.len
    return open_kv(kv, p) + [sorted_leq(kv), n <= INT_MAX, kv[p] <= u, u <= kv[n - p - 1]]


def findspan_post(kv, p, u, r):
    n = kv.len
    return [
        ('range', And(p <= r, r <= n - p - 2)),
        ('left', kv[r] <= u),
        ('right', Or(u < kv[r + 1], And(u == kv[n - p - 1], r == n - p - 2))),
        ('nonempty', kv[r] < kv[r + 1]),
    ]


findspan = Contract(
    F, 'pyx_findspan',
    requires=findspan_requires,
    ensures=lambda s: findspan_post(s.kv, s.p, s.u, s.result),
    loops={0: LoopSpec(r'while b - a > 1',
                       inv=lambda s: [('bounds', And(0 <= s.a, s.a < s.b, s.b <= s.kv.len - 1)),
                                      ('bracket', And(s.kv[s.a] <= s.u, s.u < s.kv[s.b]))],
                       dec=lambda s: s.b - s.a)},
    result=CInt(32, True),
)

findspans = Contract(
    F, 'pyx_findspans',
    requires=lambda s: open_kv(s.kv, s.p) + [sorted_leq(s.kv), s.kv.len <= INT_MAX, s.u.len <= INT_MAX,
                                           ForAll('k', lambda k: Implies(And(0 <= k, k < s.u.len),
                                                                         And(s.kv[s.p] <= s.u[k], s.u[k] <= s.kv[s.kv.len - s.p - 1])))],
    ensures=lambda s: [('all', ForAll('k', lambda k: Implies(And(0 <= k, k < s.u.len), And(*[c for _, c in findspan_post(s.kv, s.p, s.u[k], s.result[k])])))),
                       ('len', s.result.len == s.u.len)],
    loops={0: LoopSpec(r'for i in range\(u\.shape\[0\]\)',
                       inv=lambda s: [('done', ForAll('k', lambda k: Implies(And(0 <= k, k < s.i), And(*[c for _, c in findspan_post(s.kv, s.p, s.u[k], s.result[k])])))),
                                      ('len', s.result.len == s.u.len)])},
    callees={'pyx_findspan': findspan},
)


def uniqueness_lemma():
    """any two indices satisfying findspan's postcondition coincide (lemma over the contract)"""
    import z3
    from pyvc.symexec import Obligation
    from pyvc.values import ArrContent, fresh_arr_data
    kvc = ArrContent((z3.Int('n'),), fresh_arr_data('kv', 'real', 1), 'real')
    kv = SpecArr(kvc)
    p, u, r1, r2 = z3.Int('p'), z3.Real('u'), z3.Int('r1'), z3.Int('r2')
    hyp = open_kv(kv, p) + [sorted_leq(kv)] + [c for _, c in findspan_post(kv, p, u, r1)] + [c for _, c in findspan_post(kv, p, u, r2)]
    return [Obligation('bspline_cy:pyx_findspan:lemma:unique-span', 'lemma', 0, hyp, r1 == r2,
                       'the span satisfying the postcondition is unique', src='(lemma over the contract of pyx_findspan)')], None


CONTRACTS = [findspan, findspans]
