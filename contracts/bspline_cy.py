"""Contracts for pyiga/bspline_cy.pyx"""
import z3
from pyvc.spec import *
from .common import open_kv, sorted_leq

F = 'pyiga/bspline_cy.pyx'
INT_MAX = 2**31 - 1


def findspan_requires(s):
    kv, p, u = s.kv, s.p, s.u
    n = kv.len
    return open_kv(kv, p) + [sorted_leq(kv), n <= INT_MAX, kv[p] <= u, u <= kv[n - p - 1]]


def findspan_post(kv, p, u, r):
    n = kv.len
    return [
        ('range', And(p <= r, r <= n - p - 2)),
        ('left', kv[r] <= u),
        ('right', Or(u < kv[r + 1], And(u == kv[n - p - 1], r == n - p - 2))),
        ('nonempty', kv[r] < kv[r + 1]),
    ]


findspan = Contract(
    F, 'pyx_findspan',
    requires=findspan_requires,
    ensures=lambda s: findspan_post(s.kv, s.p, s.u, s.result),
    loops={0: LoopSpec(r'while b - a > 1',
                       inv=lambda s: [('bounds', And(0 <= s.a, s.a < s.b, s.b <= s.kv.len - 1)),
                                      ('bracket', And(s.kv[s.a] <= s.u, s.u < s.kv[s.b]))],
                       dec=lambda s: s.b - s.a)},
    result=CInt(32, True),
)

findspans = Contract(
    F, 'pyx_findspans',
    requires=lambda s: open_kv(s.kv, s.p) + [sorted_leq(s.kv), s.kv.len <= INT_MAX, s.u.len <= INT_MAX,
                                           ForAll('k', lambda k: Implies(And(0 <= k, k < s.u.len),
                                                                         And(s.kv[s.p] <= s.u[k], s.u[k] <= s.kv[s.kv.len - s.p - 1])))],
    ensures=lambda s: [('all', ForAll('k', lambda k: Implies(And(0 <= k, k < s.u.len), And(*[c for _, c in findspan_post(s.kv, s.p, s.u[k], s.result[k])])))),
                       ('len', s.result.len == s.u.len)],
    loops={0: LoopSpec(r'for i in range\(u\.shape\[0\]\)',
                       inv=lambda s: [('done', ForAll('k', lambda k: Implies(And(0 <= k, k < s.i), And(*[c for _, c in findspan_post(s.kv, s.p, s.u[k], s.result[k])])))),
                                      ('len', s.result.len == s.u.len)])},
    callees={'pyx_findspan': findspan},
)


def uniqueness_lemma():
    """any two indices satisfying findspan's postcondition coincide (lemma over the contract)"""
    import z3
    from pyvc.symexec import Obligation
    from pyvc.values import ArrContent, fresh_arr_data
    kvc = ArrContent((z3.Int('n'),), fresh_arr_data('kv', 'real', 1), 'real')
    kv = SpecArr(kvc)
    p, u, r1, r2 = z3.Int('p'), z3.Real('u'), z3.Int('r1'), z3.Int('r2')
    hyp = open_kv(kv, p) + [sorted_leq(kv)] + [c for _, c in findspan_post(kv, p, u, r1)] + [c for _, c in findspan_post(kv, p, u, r2)]
    return [Obligation('bspline_cy:pyx_findspan:lemma:unique-span', 'lemma', 0, hyp, r1 == r2,
                       'the span satisfying the postcondition is unique', src='(lemma over the contract of pyx_findspan)')], None


CONTRACTS = [findspan, findspans]


# ---------------------------------------------------------------------------------------------------------------
# bspline_active_deriv_single for *every* degree p < 64 and every derivative count: memory safety of the unchecked
# kernel (64-entry stack buffers, NDU, result), non-zero denominators, non-negativity of the values.

def _ads_req(s):
    kv, p, u = s.knotvec.kv, s.knotvec.p, s.u
    n = kv.len
    return open_kv(kv, p) + [sorted_leq(kv), n <= INT_MAX, kv[p] <= u, u <= kv[n - p - 1], p < 64, s.numderiv >= 0]


def _span_facts(s):
    kv, p, u, sp_ = s.kv, s.p, s.u, s.span
    n = kv.len
    return And(p <= sp_, sp_ <= n - p - 2, kv[sp_] <= u, u <= kv[sp_ + 1], kv[sp_] < kv[sp_ + 1], s.NDU.shape[0] == p + 1, s.NDU.shape[1] == p + 1,
               s.result.shape[0] == s.numderiv + 1, s.result.shape[1] == p + 1, p == s.knotvec.p, 0 <= p, p < 64)


def _lr(s, upto):
    return ForAll('i', lambda i: Implies(And(0 <= i, i < upto), And(s.left[i] == s.u - s.kv[s.span - i], s.right[i] == s.kv[s.span + 1 + i] - s.u)))


def _lower_pos(s, jmax):
    return ForAll('a b', lambda a, b: Implies(And(1 <= a, a < jmax, 0 <= b, b < a), s.NDU[a, b] > 0))


def _col_nonneg(s, col, upto):
    return ForAll('a', lambda a: Implies(And(0 <= a, a < upto), s.NDU[a, col] >= 0))


def _ads_loop0(s):
    return [('span', _span_facts(s)), ('knot-splits', _lr(s, s.j - 1)), ('column-nonneg', _col_nonneg(s, s.j - 1, s.j)),
            ('denominators-positive', _lower_pos(s, s.j))]


def _ads_loop1(s):
    return [('span', _span_facts(s)), ('j', And(1 <= s.j, s.j <= s.p)), ('knot-splits', _lr(s, s.j)),
            ('old-column-nonneg', _col_nonneg(s, s.j - 1, s.j)), ('denominators-positive', _lower_pos(s, s.j)),
            ('saved', s.saved >= 0), ('new-column-nonneg', _col_nonneg(s, s.j, s.r)),
            ('new-row-positive', ForAll('b', lambda b: Implies(And(0 <= b, b < s.r), s.NDU[s.j, b] > 0)))]


def _values_nonneg(s, upto):
    return ForAll('a', lambda a: Implies(And(0 <= a, a < upto), s.result[0, a] >= 0))


def _ads_loop2(s):
    return [('span', _span_facts(s)), ('last-column-nonneg', _col_nonneg(s, s.p, s.p + 1)), ('denominators-positive', _lower_pos(s, s.p + 1)),
            ('values-nonneg', _values_nonneg(s, s.j))]


def _ads_deriv_common(s):
    return [('span', _span_facts(s)), ('denominators-positive', _lower_pos(s, s.p + 1)), ('values-nonneg', _values_nonneg(s, s.p + 1)),
            ('buffers', s.a1.ref is not s.a2.ref)]


active_deriv_single = Contract(
    F, 'bspline_active_deriv_single',
    params={'knotvec': Obj(kv=Arr('real', 1), p=Int(0, 63)), 'u': Real(), 'numderiv': CInt(32, True), 'result': Const(None)},
    requires=_ads_req,
    callees={'pyx_findspan': findspan},
    loops={0: LoopSpec(r'for j in range\(1, p\+1\)', inv=_ads_loop0),
           1: LoopSpec(r'for r in range\(j\)', inv=_ads_loop1),
           2: LoopSpec(r'for j in range\(p\+1\)', inv=_ads_loop2),
           3: LoopSpec(r'for r in range\(p\+1\)', inv=_ads_deriv_common),
           4: LoopSpec(r'for k in range\(1, numderiv\+1\)', inv=lambda s: _ads_deriv_common(s) + [('r', And(0 <= s.r, s.r <= s.p)), ('k', s.k >= 1)]),
           5: LoopSpec(r'for j in range\(j1, j2\+1\)', inv=lambda s: _ads_deriv_common(s) + [
               ('r', And(0 <= s.r, s.r <= s.p)), ('k', And(s.k >= 1, s.k <= s.numderiv)), ('rk', And(s.rk == s.r - s.k, s.pk == s.p - s.k)),
               ('j1', And(s.j1 == If(s.rk >= -1, 1, -s.rk), s.j2 == If(s.r - 1 <= s.pk, s.k - 1, s.p - s.r)))])},
    ensures=lambda s: [('values-nonneg', ForAll('a', lambda a: Implies(And(0 <= a, a <= s.knotvec.p), s.result[0, a] >= 0))),
                       ('shape', And(s.result.shape[0] == s.numderiv + 1, s.result.shape[1] == s.knotvec.p + 1))],
    options={'overflow': False, 'timeout_ms': 60000},
    notes=['C int overflow of fac = p!/(p-k)! for p >= 13 is outside this contract (overflow obligations disabled for this function; '
           'the property ranges over p <= 12)',
           'for every p < 64 and every derivative count: all accesses to left/right/a1/a2 (64 entries), NDU and result are in bounds (the '
           'blocks guarded by r>=k, j1..j2, r<=pk are dead when k > p), all denominators are positive, values are non-negative'],
)

CONTRACTS = [findspan, findspans, active_deriv_single]
