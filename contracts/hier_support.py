"""Contracts for the support queries behind the activation clause (pyiga/hierarchical.py).

`_compute_supported_functions(kv, meshsupp)` turns the table "function j lives on the cells [lo_j, hi_j)" into the table
"cell k carries the functions [first_k, last_k)".  The activation contracts (contracts/hierarchical.py) use the two tables through ONE
support relation insupp(f, c); this contract is the 1D lemma that makes that legitimate:

    for every cell k and function j:   lo_j <= k < hi_j   <=>   sf[k,0] <= j < sf[k,1]

under the precondition that both interval ends are non-decreasing in j (B-spline supports move to the right), which is what makes
the set of functions over one cell an interval.  `TPMesh.support` / `TPMesh.supported_in` then take the Cartesian product of these 1D
ranges over the axes (contracts for dim 1..3 below)."""
import z3
from pyvc.spec import *

F = 'pyiga/hierarchical.py'


def _cov(ms, j, k):
    return And(ms[j, 0] <= k, k < ms[j, 1])


def _csf_req(s):
    ms, N, n = s.meshsupp, s.kv.numdofs, s.kv.numspans
    return [N >= 1, n >= 0, ms.shape[0] == N,
            ForAll('j', lambda j: Implies(And(0 <= j, j < N), And(0 <= ms[j, 0], ms[j, 0] <= ms[j, 1], ms[j, 1] <= n))),
            ForAll('i j', lambda i, j: Implies(And(0 <= i, i <= j, j < N), And(ms[i, 0] <= ms[j, 0], ms[i, 1] <= ms[j, 1])))]


def _row_inv(s, k, jdone):
    """state of row k of sf after the functions j' < jdone have been processed (before the final += 1)"""
    ms, sf, N = s.meshsupp, s.sf, s.kv.numdofs
    return And(
        ForAll('q', lambda q: Implies(And(0 <= q, q < jdone, _cov(ms, q, k)), And(sf[k, 0] <= q, q <= sf[k, 1]))),
        Or(sf[k, 0] == N, And(0 <= sf[k, 0], sf[k, 0] < jdone, _cov(ms, sf[k, 0], k))),
        Or(And(sf[k, 1] == 0, Or(sf[k, 0] == N, _cov(ms, 0, k))), And(0 < sf[k, 1], sf[k, 1] < jdone, _cov(ms, sf[k, 1], k))))


def _outer_inv(s):
    n = s.kv.numspans
    return [('shape', And(s.sf.shape[0] == n, s.n == n)),
            ('rows', ForAll('k', lambda k: Implies(And(0 <= k, k < n), _row_inv(s, k, s.j))))]


def _inner_inv(s):
    n, ms, j = s.kv.numspans, s.meshsupp, s.j
    return [('shape', And(s.sf.shape[0] == n, s.n == n)),
            ('rows', ForAll('k', lambda k: Implies(And(0 <= k, k < n),
                                                   z3.If(And(ms[j, 0] <= k, k < s.k), _row_inv(s, k, j + 1), _row_inv(s, k, j)))))]


def _csf_post(s):
    ms, sf, N, n = s.meshsupp, s.result, s.kv.numdofs, s.kv.numspans
    return [('shape', And(sf.shape[0] == n, sf.shape[1] == 2)),
            ('cell-k-carries-exactly-the-functions-in-its-range', ForAll('k j', lambda k, j: Implies(
                And(0 <= k, k < n, 0 <= j, j < N), _cov(ms, j, k) == And(sf[k, 0] <= j, j < sf[k, 1])))),
            ('ranges-inside-the-function-index-set', ForAll('k', lambda k: Implies(And(0 <= k, k < n), And(0 <= sf[k, 0], sf[k, 1] <= N))))]


compute_supported_functions = Contract(
    F, '_compute_supported_functions',
    params={'kv': Obj(numspans=Int(0), numdofs=Int(1)), 'meshsupp': Arr('int', ndim=2, shape=(None, 2), numpy=True)},
    requires=_csf_req,
    loops={0: LoopSpec(r'for j in range\(meshsupp\.shape\[0\]\)', inv=_outer_inv),
           1: LoopSpec(r'for k in range\(meshsupp\[j,0\], meshsupp\[j,1\]\)', inv=_inner_inv)},
    ensures=_csf_post,
    options={'timeout_ms': 60000},
    notes=['meshsupp: N x 2 integer table of half-open cell ranges, both ends non-decreasing in the function index and inside [0, numspans] '
           '(precondition; what KnotVector.mesh_support_idx_all returns for a non-decreasing knot vector); numpy integers as mathematical '
           'integers; sf[:,0] = c and sf[:,1] += 1 are modelled as column-wise updates'],
)

CONTRACTS = [compute_supported_functions]


# ---- TPMesh.support / TPMesh.supported_in: Cartesian products of the 1D ranges, dim 1..3 ---------------------------------------------
from pyvc.values import int_tuple_sort, tuple_components, SetContent, Ref, fresh_name


def _tq(dim, body, name='t'):
    t = z3.Const(fresh_name(name), int_tuple_sort(dim))
    return z3.ForAll([t], body(t, tuple_components(t)))


def _tex(dim, body, name='w'):
    t = z3.Const(fresh_name(name), int_tuple_sort(dim))
    return z3.Exists([t], body(t, tuple_components(t)))


def _insupp(ms, fc, cc):
    """cell (tuple of components cc) lies in the support of function (components fc): axis by axis"""
    return And(*[_cov(ms[d], fc[d], cc[d]) for d in range(len(fc))])


def _tables_ok(tabs, extents):
    """every row of every table is a half-open range inside [0, extent_d]"""
    out = []
    for d, (tab, n) in enumerate(zip(tabs, extents)):
        out.append(ForAll('j', lambda j, tab=tab, n=n: Implies(And(0 <= j, j < tab.shape[0]), And(0 <= tab[j, 0], tab[j, 1] <= n))))
    return out


def _typed_empty_set(var, dim):
    def f(ex, st):
        r = Ref(var)
        srt = int_tuple_sort(dim)
        st.heap[r.id] = SetContent(z3.EmptySet(srt), srt)
        st.env[var] = r
    return f


def _support_contract(dim):
    T = int_tuple_sort(dim)

    def spec_set(S, ms):
        return lambda t, cc: _tex(dim, lambda w, fc: And(z3.IsMember(w, S), _insupp(ms, fc, cc)))

    return Contract(
        F, 'TPMesh.support', name='hierarchical:TPMesh.support[dim=%d]' % dim,
        params={'self': Obj(meshsupp=Tup(*[Arr('int', ndim=2, shape=(None, 2), numpy=True) for _ in range(dim)])), 'indices': SetOf(T)},
        requires=lambda s: [_tq(dim, lambda t, fc: Implies(z3.IsMember(t, s.indices), And(*[And(0 <= fc[d], fc[d] < s.self.meshsupp[d].shape[0]) for d in range(dim)])))],
        replace=[(r'supp = set\(\)', _typed_empty_set('supp', dim))],
        loops={0: LoopSpec(r'for jj in indices', inv=lambda s: [
            ('cells-of-the-visited-functions', _tq(dim, lambda t, cc: z3.IsMember(t, s.supp.data) == spec_set(s._visited0, s.self.meshsupp)(t, cc)))])},
        ensures=lambda s: [('union-of-the-supports', _tq(dim, lambda t, cc: z3.IsMember(t, s.result.data) == spec_set(s.indices, s.self.meshsupp)(t, cc)))],
        options={'timeout_ms': 60000},
        notes=['functions and cells are tuples of %d integers; the function indices lie inside the tables (precondition: negative numpy indices '
               'would wrap around); itertools.product of ranges is the box of integer tuples (order and multiplicity are irrelevant for '
               'set.update); `supp = set()` is the empty set of cells' % dim],
    )


def _supported_in_contract(dim):
    T = int_tuple_sort(dim)

    def lemma_1d(ms, sf):
        """postcondition of _compute_supported_functions (the class invariant TPMesh.__init__ establishes axis by axis)"""
        N, n = ms.shape[0], sf.shape[0]
        return And(ForAll('k j', lambda k, j: Implies(And(0 <= k, k < n, 0 <= j, j < N), _cov(ms, j, k) == And(sf[k, 0] <= j, j < sf[k, 1]))),
                   ForAll('k', lambda k: Implies(And(0 <= k, k < n), And(0 <= sf[k, 0], sf[k, 1] <= N))),
                   ForAll('j', lambda j: Implies(And(0 <= j, j < N), And(0 <= ms[j, 0], ms[j, 1] <= n))))

    return Contract(
        F, 'TPMesh.supported_in', name='hierarchical:TPMesh.supported_in[dim=%d]' % dim,
        params={'self': Obj(meshsupp=Tup(*[Arr('int', ndim=2, shape=(None, 2), numpy=True) for _ in range(dim)]),
                            suppfunc=Tup(*[Arr('int', ndim=2, shape=(None, 2), numpy=True) for _ in range(dim)])), 'cells': SetOf(T)},
        requires=lambda s: [lemma_1d(s.self.meshsupp[d], s.self.suppfunc[d]) for d in range(dim)] + [
            _tq(dim, lambda t, cc: Implies(z3.IsMember(t, s.cells), And(*[And(0 <= cc[d], cc[d] < s.self.suppfunc[d].shape[0]) for d in range(dim)])))],
        replace=[(r'funcs = set\(\)', _typed_empty_set('funcs', dim))],
        loops={0: LoopSpec(r'for kk in cells', inv=lambda s: [
            ('functions-over-the-visited-cells', _tq(dim, lambda t, fc: z3.IsMember(t, s.funcs.data) == And(
                And(*[And(0 <= fc[d], fc[d] < s.self.meshsupp[d].shape[0]) for d in range(dim)]),
                _tex(dim, lambda w, cc: And(z3.IsMember(w, s._visited0), _insupp(s.self.meshsupp, fc, cc))))))])},
        ensures=lambda s: [('functions-whose-support-meets-the-cells', _tq(dim, lambda t, fc: z3.IsMember(t, s.result.data) == And(
            And(*[And(0 <= fc[d], fc[d] < s.self.meshsupp[d].shape[0]) for d in range(dim)]),
            _tex(dim, lambda w, cc: And(z3.IsMember(w, s.cells), _insupp(s.self.meshsupp, fc, cc))))))],
        options={'timeout_ms': 60000},
        notes=['stated over the SAME support relation as TPMesh.support (function table meshsupp), although the code reads the transposed table '
               'suppfunc: the precondition is the verified postcondition of _compute_supported_functions for every axis (class invariant '
               'established in TPMesh.__init__, which is not itself under contract); cells inside the mesh (precondition)'],
    )


CONTRACTS = CONTRACTS + [_support_contract(d) for d in (1, 2, 3)] + [_supported_in_contract(d) for d in (1, 2, 3)]
