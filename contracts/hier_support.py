"""Contracts for the support queries behind the activation clause (pyiga/hierarchical.py).

`_compute_supported_functions(kv, meshsupp)` turns the table "function j lives on the cells [lo_j, hi_j)" into the table
"cell k carries the functions [first_k, last_k)".  The activation contracts (contracts/hierarchical.py) use the two tables through ONE
support relation insupp(f, c); this contract is the 1D lemma that makes that legitimate:

    for every cell k and function j:   lo_j <= k < hi_j   <=>   sf[k,0] <= j < sf[k,1]

under the precondition that both interval ends are non-decreasing in j (B-spline supports move to the right), which is what makes
the set of functions over one cell an interval.  `TPMesh.support` / `TPMesh.supported_in` then take the Cartesian product of these 1D
ranges over the axes (contracts for dim 1..3 below)."""
import z3
from pyvc.spec import *

F = 'pyiga/hierarchical.py'


def _cov(ms, j, k):
    return And(ms[j, 0] <= k, k < ms[j, 1])


def _csf_req(s):
    ms, N, n = s.meshsupp, s.kv.numdofs, s.kv.numspans
    return [N >= 1, n >= 0, ms.shape[0] == N,
            ForAll('j', lambda j: Implies(And(0 <= j, j < N), And(0 <= ms[j, 0], ms[j, 0] <= ms[j, 1], ms[j, 1] <= n))),
            ForAll('i j', lambda i, j: Implies(And(0 <= i, i <= j, j < N), And(ms[i, 0] <= ms[j, 0], ms[i, 1] <= ms[j, 1])))]


def _row_inv(s, k, jdone):
    """state of row k of sf after the functions j' < jdone have been processed (before the final += 1)"""
    ms, sf, N = s.meshsupp, s.sf, s.kv.numdofs
    return And(
        ForAll('q', lambda q: Implies(And(0 <= q, q < jdone, _cov(ms, q, k)), And(sf[k, 0] <= q, q <= sf[k, 1]))),
        Or(sf[k, 0] == N, And(0 <= sf[k, 0], sf[k, 0] < jdone, _cov(ms, sf[k, 0], k))),
        Or(And(sf[k, 1] == 0, Or(sf[k, 0] == N, _cov(ms, 0, k))), And(0 < sf[k, 1], sf[k, 1] < jdone, _cov(ms, sf[k, 1], k))))


def _outer_inv(s):
    n = s.kv.numspans
    return [('shape', And(s.sf.shape[0] == n, s.n == n)),
            ('rows', ForAll('k', lambda k: Implies(And(0 <= k, k < n), _row_inv(s, k, s.j))))]


def _inner_inv(s):
    n, ms, j = s.kv.numspans, s.meshsupp, s.j
    return [('shape', And(s.sf.shape[0] == n, s.n == n)),
            ('rows', ForAll('k', lambda k: Implies(And(0 <= k, k < n),
                                                   z3.If(And(ms[j, 0] <= k, k < s.k), _row_inv(s, k, j + 1), _row_inv(s, k, j)))))]


def _csf_post(s):
    ms, sf, N, n = s.meshsupp, s.result, s.kv.numdofs, s.kv.numspans
    return [('shape', And(sf.shape[0] == n, sf.shape[1] == 2)),
            ('cell-k-carries-exactly-the-functions-in-its-range', ForAll('k j', lambda k, j: Implies(
                And(0 <= k, k < n, 0 <= j, j < N), _cov(ms, j, k) == And(sf[k, 0] <= j, j < sf[k, 1])))),
            ('ranges-inside-the-function-index-set', ForAll('k', lambda k: Implies(And(0 <= k, k < n), And(0 <= sf[k, 0], sf[k, 1] <= N))))]


compute_supported_functions = Contract(
    F, '_compute_supported_functions',
    params={'kv': Obj(numspans=Int(0), numdofs=Int(1)), 'meshsupp': Arr('int', ndim=2, shape=(None, 2), numpy=True)},
    requires=_csf_req,
    loops={0: LoopSpec(r'for j in range\(meshsupp\.shape\[0\]\)', inv=_outer_inv),
           1: LoopSpec(r'for k in range\(meshsupp\[j,0\], meshsupp\[j,1\]\)', inv=_inner_inv)},
    ensures=_csf_post,
    options={'timeout_ms': 60000},
    notes=['meshsupp: N x 2 integer table of half-open cell ranges, both ends non-decreasing in the function index and inside [0, numspans] '
           '(precondition; what KnotVector.mesh_support_idx_all returns for a non-decreasing knot vector); numpy integers as mathematical '
           'integers; sf[:,0] = c and sf[:,1] += 1 are modelled as column-wise updates'],
)

CONTRACTS = [compute_supported_functions]
