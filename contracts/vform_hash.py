"""Cache-key soundness obligations for pyiga/vform.py and pyiga/compile.py.

Python's hash of a tuple is modelled as an injective uninterpreted function (the 2^-64 collision probability is a
listed assumption).  Then `equal hash => equal code` reduces to a data-flow fact that is generated *mechanically*
from the current source: every identifying attribute a class assigns in __init__ must flow into the tuple its
hash / hash_key method returns (directly, or through the documented projection, e.g. var -> var.name).  A new Expr
subclass or attribute without a hash_key therefore produces a new failing obligation by itself."""
import ast
import time

from pyvc import frontend
from pyvc.symexec import Obligation
from pyvc.solve import ob_dict

FV = 'pyiga/vform.py'
FC = 'pyiga/compile.py'

# attributes that do not identify an expression beyond what Expr.hash adds itself
STRUCTURAL = {'shape', 'children'}
# documented identifying projections: the attribute is an object, the hash uses this projection of it
PROJECTIONS = {('VarRefExpr', 'var'): 'var.name', ('PartialDerivExpr', 'basisfun'): 'basisfun.hash()'}
# classes with explicit hash() methods and the attributes the code generator reads from them
HASHED_OBJECTS = {
    'BasisFun': ['name', 'numcomp', 'component', 'space'],
    'InputField': ['name', 'shape', 'physical', 'updatable'],
    'Parameter': ['name', 'shape'],
    'AsmVar': ['name', 'shape', 'symmetric', 'deriv', 'expr', 'src'],
}
VFORM_ATTRS = ['dim', 'geo_dim', 'is_boundary', 'arity', 'vec', 'spacetime', 'basis_funs', 'inputs', 'vars', 'exprs']


def _paths(node):
    """all `self.a.b` access paths and `self.a.m()` calls syntactically inside `node`"""
    out = set()
    for n in ast.walk(node):
        if isinstance(n, ast.Attribute):
            p = _path_of(n)
            if p:
                out.add(p)
        if isinstance(n, ast.Call) and isinstance(n.func, ast.Attribute):
            p = _path_of(n.func)
            if p:
                out.add(p + '()')
    return out


def _path_of(n):
    parts = []
    while isinstance(n, ast.Attribute):
        parts.append(n.attr)
        n = n.value
    if isinstance(n, ast.Name) and n.id == 'self':
        return '.'.join(reversed(parts))
    return None


def _init_attrs(cls):
    out = []
    for st in cls.body:
        if isinstance(st, ast.FunctionDef) and st.name == '__init__':
            for n in ast.walk(st):
                if isinstance(n, (ast.Assign, ast.AugAssign, ast.AnnAssign)):
                    tg = n.targets if isinstance(n, ast.Assign) else [n.target]
                    for t in tg:
                        for e in ast.walk(t):
                            if isinstance(e, ast.Attribute) and isinstance(e.value, ast.Name) and e.value.id == 'self' \
                                    and isinstance(e.ctx, ast.Store) and e.attr not in out:
                                out.append(e.attr)
    return out


def _method(classes, cname, mname):
    """method lookup through the bases defined in this module (MRO for single inheritance)"""
    seen = set()
    while cname in classes and cname not in seen:
        seen.add(cname)
        c = classes[cname]
        for st in c.body:
            if isinstance(st, ast.FunctionDef) and st.name == mname:
                return st, cname
        bases = [b.id for b in c.bases if isinstance(b, ast.Name)]
        if not bases:
            break
        cname = bases[0]
    return None, None


def _is_expr_subclass(classes, cname):
    seen = set()
    while cname in classes and cname not in seen:
        seen.add(cname)
        if cname == 'Expr':
            return True
        bases = [b.id for b in classes[cname].bases if isinstance(b, ast.Name)]
        if not bases:
            return False
        cname = bases[0]
    return False


def _returned(fn):
    return [n.value for n in ast.walk(fn) if isinstance(n, ast.Return) and n.value is not None]


def _mk(oid, ok, desc, detail='', line=0, src=''):
    o = Obligation(oid, 'rule', line, [], None, desc, src=src)
    o.status, o.backend, o.time = ('proved' if ok else 'refuted'), 'ast-dataflow (hash injective)', 0.0
    if not ok:
        o.goal = detail
    return o


def hash_obligations():
    src = frontend.load(FV)
    t0 = time.time()
    res = {'contract': 'vform:hash-keys', 'file': FV, 'func': 'Expr.hash / hash_key / *.hash', 'instance': {}, 'obligations': [], 'status': 'ok',
           'error': None, 'paths': 0, 'vacuous': False, 'notes': [], 'src_sha': src.sha, 'time': 0.0}
    try:
        classes = {c.name: c for c in src.classes()}
        obs = []
        # 1. Expr.hash itself: type, shape, hash_key(), child hashes
        fn, _ = _method(classes, 'Expr', 'hash')
        rets = _returned(fn)
        txt = ast.unparse(rets[0]) if rets else ''
        ok = bool(rets) and all(t in txt for t in ('type(self)', 'self.shape', 'self.hash_key()', 'child_hashes')) and txt.startswith('hash(')
        obs.append(_mk('vform:Expr.hash:covers', ok, 'Expr.hash = hash((type(self), shape) + hash_key() + child hashes)', txt, fn.lineno, txt))
        # 2. every Expr subclass: each identifying __init__ attribute flows into hash_key()
        for cname in sorted(classes):
            if cname == 'Expr' or not _is_expr_subclass(classes, cname):
                continue
            attrs = [a for a in _init_attrs(classes[cname]) if a not in STRUCTURAL]
            hk, owner = _method(classes, cname, 'hash_key')
            paths = set()
            for r in _returned(hk):
                paths |= _paths(r)
            own_hash, own_owner = _method(classes, cname, 'hash')
            if own_owner != 'Expr':
                obs.append(_mk('vform:%s:hash-inj:overrides-hash' % cname, False, 'Expr subclasses must not override hash()', own_owner or '', classes[cname].lineno))
            if not attrs:
                obs.append(_mk('vform:%s:hash-inj:no-attributes' % cname, True, '%s has no identifying attribute besides type, shape and children' % cname, '', classes[cname].lineno, 'class ' + cname))
            # the elements of the returned tuple must be plain (injective) projections self.X / self.X.name / self.X.hash();
            # anything else (e.g. `self.physical and ...`) is not covered by the injectivity argument: undecided here, the
            # bounded form-pair tier decides
            plain = {}
            rets = _returned(hk)
            shape_ok = len(rets) == 1 and isinstance(rets[0], ast.Tuple)
            if shape_ok:
                for el in rets[0].elts:
                    pth = _path_of(el) if isinstance(el, ast.Attribute) else (_path_of(el.func) + '()' if isinstance(el, ast.Call) and isinstance(el.func, ast.Attribute) and _path_of(el.func) and not el.args else None)
                    # repr(self.X) / self.X.hex(): injective text of a float attribute (and, unlike the float itself, not subject to
                    # CPython's numeric hash collisions such as hash(-1.0) == hash(-2.0))
                    if pth is None and isinstance(el, ast.Call) and isinstance(el.func, ast.Name) and el.func.id == 'repr' and len(el.args) == 1 \
                            and isinstance(el.args[0], ast.Attribute):
                        pth = _path_of(el.args[0])
                    if pth is not None and pth.endswith('.hex()'):
                        pth = pth[:-len('.hex()')]
                    plain[ast.unparse(el)] = pth
            for a in attrs:
                want = PROJECTIONS.get((cname, a), a)
                ok = want in paths
                o = _mk('vform:%s:hash-inj:%s' % (cname, a), ok,
                        'attribute %s of %s flows into its hash_key (as %s): equal hash => equal %s' % (a, cname, want, a),
                        'hash_key of %s (defined in %s) returns %s' % (cname, owner, sorted(paths)), hk.lineno if hk else 0, 'class ' + cname)
                if ok and (not shape_ok or want not in plain.values()):
                    o.status = 'unknown'
                    o.goal = 'attribute %s occurs in hash_key only inside a compound expression (%s): injectivity not established' % (a, list(plain))
                obs.append(o)
        # 3. hashed helper objects
        for cname, attrs in HASHED_OBJECTS.items():
            fn, owner = _method(classes, cname, 'hash')
            if fn is None:
                obs.append(_mk('vform:%s.hash:exists' % cname, False, '%s has a hash() method' % cname))
                continue
            paths = set()
            for n in ast.walk(fn):
                paths |= _paths(n) if isinstance(n, (ast.Return,)) else set()
            body_paths = _paths(fn)
            init = _init_attrs(classes[cname])
            for a in attrs:
                if a not in init:
                    continue
                if cname == 'AsmVar' and a in ('expr', 'src'):
                    ok = a in body_paths
                else:
                    ok = a in paths
                obs.append(_mk('vform:%s.hash:covers:%s' % (cname, a), ok, '%s.%s (read by the code generator) is part of %s.hash()' % (cname, a, cname),
                               'hashed: %s' % sorted(paths), fn.lineno, 'class ' + cname))
        # 4. VForm.hash
        fn, _ = _method(classes, 'VForm', 'hash')
        paths = _paths(fn)
        for a in VFORM_ATTRS:
            obs.append(_mk('vform:VForm.hash:covers:%s' % a, a in paths, 'VForm.%s (read by the code generator) is part of VForm.hash()' % a,
                           'hashed: %s' % sorted(paths), fn.lineno, 'def hash(self)'))
        res['obligations'] = [ob_dict(o) for o in obs]
    except KeyError as e:
        res['status'], res['error'] = 'missing', str(e)
    except Exception:
        import traceback
        res['status'], res['error'] = 'crash', traceback.format_exc()
    res['time'] = round(time.time() - t0, 3)
    return res


def compile_obligations():
    src = frontend.load(FC)
    t0 = time.time()
    res = {'contract': 'compile:cache-keys', 'file': FC, 'func': 'compile_vform / compile_cython_module', 'instance': {}, 'obligations': [],
           'status': 'ok', 'error': None, 'paths': 0, 'vacuous': False, 'notes': [], 'src_sha': src.sha, 'time': 0.0}
    try:
        obs = []
        cv = src.find('compile_vform')
        keys = [n for n in ast.walk(cv) if isinstance(n, ast.Assign) and isinstance(n.targets[0], ast.Name) and n.targets[0].id == 'cache_key']
        txt = ast.unparse(keys[0].value) if keys else ''
        obs.append(_mk('compile:compile_vform:key-contains-hash-and-on_demand', 'vf.hash()' in txt and 'on_demand' in txt,
                       'the in-process cache key contains vf.hash() and the on-demand mode', txt, cv.lineno, txt))
        # get and put use the same key; a hit returns what was stored under that key
        gets = [ast.unparse(n) for n in ast.walk(cv) if isinstance(n, ast.Call) and isinstance(n.func, ast.Attribute) and n.func.attr == 'get']
        puts = [ast.unparse(n.targets[0]) for n in ast.walk(cv) if isinstance(n, ast.Assign) and isinstance(n.targets[0], ast.Subscript)]
        obs.append(_mk('compile:compile_vform:same-key-for-get-and-put', any('cache_key' in g for g in gets) and any('cache_key' in p for p in puts),
                       'lookup and insertion use the same key', '%s / %s' % (gets, puts), cv.lineno))
        args = src.find('__asm_cache_args')
        rt = _returned(args)
        obs.append(_mk('compile:__asm_cache_args:returns-on_demand', bool(rt) and 'on_demand' in ast.unparse(rt[0]), 'cache args carry on_demand',
                       ast.unparse(rt[0]) if rt else '', args.lineno))
        # pre-seeded entries use on_demand=False
        add = src.find('__add_to_vform_asm_cache')
        t = ast.unparse(add)
        obs.append(_mk('compile:preseed:on_demand-false', '__asm_cache_args(False)' in t and 'vf.hash()' in t, 'pre-seeded entries are keyed with on_demand=False', t, add.lineno))
        # module name is a function of the source text only
        cm = src.find('compile_cython_module')
        mn = [n for n in ast.walk(cm) if isinstance(n, ast.Assign) and isinstance(n.targets[0], ast.Name) and n.targets[0].id == 'modname']
        ok = len(mn) == 1
        names = set()
        if ok:
            names = {x.id for x in ast.walk(mn[0].value) if isinstance(x, ast.Name)}
        obs.append(_mk('compile:compile_cython_module:modname-function-of-source', ok and names <= {'src', 'hashlib'},
                       'the on-disk module name depends on the generated source only', 'free names: %s' % sorted(names), cm.lineno,
                       ast.unparse(mn[0]) if mn else ''))
        obs.append(_mk('compile:compile_cython_module:digest-not-builtin-hash', ok and 'hashlib' in names and 'hash(' not in ast.unparse(mn[0].value).replace('hashlib', ''),
                       'module name uses a process-independent digest', '', cm.lineno))
        res['obligations'] = [ob_dict(o) for o in obs]
    except KeyError as e:
        res['status'], res['error'] = 'missing', str(e)
    except Exception:
        import traceback
        res['status'], res['error'] = 'crash', traceback.format_exc()
    res['time'] = round(time.time() - t0, 3)
    return res


def memo_coherence_obligations():
    """VForm.hash() memoizes its value; the memo stays valid only because the form is frozen from that moment on: add() must raise once the
    hash has been taken (executed on the real class, for forms hashed directly and through an in-process compile-cache style lookup)."""
    from contracts import vform_rewrite as R
    from bounded import formgen
    m = R.vform_module()
    obs = []
    for k, spec in enumerate(formgen.base_forms()[:6]):
        if spec.get('predefined'):
            continue
        V = formgen.build(spec, vform=m)
        h0 = V.hash()
        u = V.basis_funs[0]
        extra = m.PartialDerivExpr(u, V.dim * (0,)) * m.dx if not u.numcomp else None
        ok, detail = True, ''
        if extra is not None:
            try:
                V.add(extra)
                ok = V.hash() != h0
                detail = 'add() accepted a new term after hash() was taken and hash() still returns the memoized value: a later compile_vform() ' \
                         'would return the assembler of the shorter form'
            except RuntimeError:
                ok = True
        obs.append(_mk('vform:VForm:memoized-hash-coherent[%02d:%s]' % (k, spec['expr'][:30]), ok,
                       'after hash() either the form rejects add() or hash() reflects the change', detail, src='def add'))
        obs[-1].backend = 'executed on the real class'
    # named variables that no expression refers to WHEN THE HASH IS TAKEN still reach the generated code if they carry one of the lazily
    # resolved predefined names (dx becomes W * ... only in finalize(), and `W`, `Jac`, `JacInv`, ... pick up a user variable of that name):
    # they must be part of the hash
    def form(override):
        vf = m.VForm(2)
        u, v = vf.basisfuns()
        if override is not None:
            name, c = override
            if name == 'W':
                vf.let('W', c * vf.GaussWeight * abs(m.det(vf.Jac)))
            else:
                vf.let(name, vf.Geo[0] * c)
        vf.add(u * v * m.dx)
        return vf
    try:
        hs = {k: form(o).hash() for k, o in (('plain', None), ('W*3', ('W', 3.0)), ('W*0.5', ('W', 0.5)), ('unused*2', ('unused', 2.0)), ('unused*5', ('unused', 5.0)))}
        same = [(a, b) for a in hs for b in hs if a < b and hs[a] == hs[b]]
        ok, detail = not same, 'equal hashes for the forms %r (u*v*dx with / without a user-defined variable named W resp. unused)' % (same,)
    except Exception as e:
        ok, detail = False, 'raised %s: %s' % (type(e).__name__, e)
    obs.append(_mk('vform:VForm.hash:covers[named variables without a reference at hash time]', ok,
                   'forms that differ only in the definition of a named variable no expression refers to yet (e.g. a user-defined W, picked up by dx in finalize()) have different hashes', detail, src='def hash(self)'))
    obs[-1].backend = 'executed on the real class'
    return obs, None



# ---- numeric keys: CPython's hash is not injective on numbers ------------------------------------------------------------------------
# hash(-1) == hash(-2) (for ints and floats alike: -1 is the C-level error value), and floats are hashed modulo 2**61 - 1.  The injectivity
# argument above ("equal hash => equal attribute") therefore needs every numeric attribute to enter the key in a collision-free form.
_COLLIDING = [(-1.0, -2.0), (0.0, 2305843009213693951.0), (1.0, 2305843009213693952.0), (-1.0, 2305843009213693950.0 * -1 - 1.0)]


def numeric_key_obligations():
    """executed on the real classes: constants that collide under CPython's numeric hash still get different expression hashes, and forms
    differing only in such a constant get different VForm hashes (the in-process compile cache is keyed by that hash)."""
    from contracts import vform_rewrite as R
    m = R.vform_module()
    obs = []
    def form(c):
        vf = m.VForm(2)
        u, v = vf.basisfuns()
        vf.add(m.as_expr(c) * u * v * m.dx)
        return vf
    for (a, b) in _COLLIDING:
        if hash(a) != hash(b) or a == b:
            continue        # (not a collision on this interpreter)
        ea, eb = m.ConstExpr(a), m.ConstExpr(b)
        ok = ea.hash(()) != eb.hash(())
        obs.append(_mk('vform:ConstExpr:numeric-key[%r|%r]' % (a, b), ok, 'constants with hash(a) == hash(b) in CPython get different expression hashes',
                       'ConstExpr(%r).hash(()) == ConstExpr(%r).hash(()) == %r: hash_key %r vs %r' % (a, b, ea.hash(()), ea.hash_key(), eb.hash_key()), src='class ConstExpr'))
        obs[-1].backend = 'executed on the real class'

        def form(c):
            vf = m.VForm(2)
            u, v = vf.basisfuns()
            vf.add(m.as_expr(c) * u * v * m.dx)
            return vf
        ha, hb = form(a).hash(), form(b).hash()
        obs.append(_mk('vform:VForm:numeric-key[%r|%r]' % (a, b), ha != hb, 'forms differing only in such a constant get different VForm hashes',
                       'VForm hash of %r*u*v*dx equals that of %r*u*v*dx (%r): compile_vform() would hand out the first assembler for the second form' % (a, b, ha),
                       src='def hash(self)'))
        obs[-1].backend = 'executed on the real class'
    if not obs:
        raise KeyError('no numeric hash collision available on this interpreter')
    # different constants, however close, are different constants: neighbouring doubles, constants that agree to 12 decimals, very small ones
    import math
    near = [(1.0, math.nextafter(1.0, 2.0)), (0.3, 0.1 + 0.2), (1e-13, 4e-13), (8.85e-12, 9.0e-12), (6.626e-34, 0.0), (2.5, math.nextafter(2.5, 0.0)), (1e300, math.nextafter(1e300, 0.0))]
    for (a, b) in near:
        ha, hb = form(a).hash(), form(b).hash()
        obs.append(_mk('vform:VForm:distinct-constants[%r|%r]' % (a, b), ha != hb, 'forms differing only in the constants %r / %r get different VForm hashes' % (a, b),
                       'equal hash %r: the compile cache would hand out the assembler of the first form for the second (ConstExpr keys %r / %r)' % (
                           ha, m.ConstExpr(a).hash_key(), m.ConstExpr(b).hash_key()), src='def hash_key'))
        obs[-1].backend = 'executed on the real class'
    # hash() is total on well-formed forms: a named variable that nothing refers to must not make it fail (compile_vform starts with hash())
    try:
        vf = m.VForm(2)
        u, v = vf.basisfuns()
        vf.let('unused', vf.Geo[0] * 2)
        vf.add(u * v * m.dx)
        h1 = vf.hash()
        ok, detail = isinstance(h1, int), 'hash() returned %r' % (h1,)
    except Exception as e:
        ok, detail = False, 'VForm.hash() raised %s: %s for a form with an unreferenced let-variable: compile_vform() cannot serve it' % (type(e).__name__, e)
    obs.append(_mk('vform:VForm.hash:total[unreferenced let-variable]', ok, 'VForm.hash() returns for a form with an unreferenced named variable', detail, src='def hash(self)'))
    obs[-1].backend = 'executed on the real class'
    return obs, None
