"""Contracts for the closed-form determinant / inverse kernels of pyiga/assemble_tools_cy.pyx."""
import z3
from pyvc.spec import *

F = 'pyiga/assemble_tools_cy.pyx'


def _det2(X, i, j):
    return X[i, j, 0, 0] * X[i, j, 1, 1] - X[i, j, 0, 1] * X[i, j, 1, 0]


def _det3(X, a, b, c):
    e = lambda r, s_: X[a, b, c, r, s_]
    return (e(0, 0) * (e(1, 1) * e(2, 2) - e(1, 2) * e(2, 1)) - e(0, 1) * (e(1, 0) * e(2, 2) - e(1, 2) * e(2, 0))
            + e(0, 2) * (e(1, 0) * e(2, 1) - e(1, 1) * e(2, 0)))


def _req2(s):
    X = s.X
    return [X.shape[2] == 2, X.shape[3] == 2,
            ForAll('i j', lambda i, j: Implies(And(0 <= i, i < X.shape[0], 0 <= j, j < X.shape[1]), _det2(X, i, j) != 0))]


def _inv2_check(s):
    """before the last store of the loop body: the three entries already stored and the fourth expression form the inverse"""
    X, Y, i, j = s.X, s.Y, s.i, s.j
    y = [[Y[i, j, 0, 0], Y[i, j, 0, 1]], [Y[i, j, 1, 0], s.a / s.det]]
    x = [[X[i, j, 0, 0], X[i, j, 0, 1]], [X[i, j, 1, 0], X[i, j, 1, 1]]]
    out = [('leibniz-determinant', s.det == _det2(X, i, j))]
    for r in range(2):
        for c in range(2):
            out.append(('YX[%d,%d]' % (r, c), y[r][0] * x[0][c] + y[r][1] * x[1][c] == (1 if r == c else 0)))
            out.append(('XY[%d,%d]' % (r, c), x[r][0] * y[0][c] + x[r][1] * y[1][c] == (1 if r == c else 0)))
    return out


_loops2 = {0: LoopSpec(r'for i in (prange|range)\(m', inv=lambda s: [('shape', And(s.Y.shape[0] == s.X.shape[0], s.Y.shape[1] == s.X.shape[1], s.Y.shape[2] == 2, s.Y.shape[3] == 2,
                                                                                 s.m == s.X.shape[0], s.n == s.X.shape[1]))]),
           1: LoopSpec(r'for j in range\(n\)', inv=lambda s: [('i', And(0 <= s.i, s.i < s.m)),
                                                              ('shape', And(s.Y.shape[0] == s.X.shape[0], s.Y.shape[1] == s.X.shape[1], s.Y.shape[2] == 2, s.Y.shape[3] == 2,
                                                                            s.m == s.X.shape[0], s.n == s.X.shape[1]))])}

det_and_inv_2x2 = Contract(
    F, 'det_and_inv_2x2',
    requires=lambda s: _req2(s) + [s.det_out.shape[0] == s.X.shape[0], s.det_out.shape[1] == s.X.shape[1]],
    modifies=('det_out',),
    loops=_loops2,
    checks=[(r'Y\[i,j, 1,1\] =  a / det', _inv2_check),
            (r'det_out\[i,j\] = det', lambda s: [('det-out', s.det == _det2(s.X, s.i, s.j))])],
    options={'timeout_ms': 30000},
    notes=['prange iterations write only Y[i,...] / det_out[i,...] of their own i (the stores are indexed by the loop variable): schedule independent'],
)

inverses_2x2 = Contract(
    F, 'inverses_2x2', requires=_req2, loops=_loops2,
    checks=[(r'Y\[i,j, 1,1\] =  a / det', _inv2_check)], options={'timeout_ms': 30000},
)


def _req3(s):
    X = s.X
    return [X.shape[3] == 3, X.shape[4] == 3,
            ForAll('a b c', lambda a, b, c: Implies(And(0 <= a, a < X.shape[0], 0 <= b, b < X.shape[1], 0 <= c, c < X.shape[2]), _det3(X, a, b, c) != 0))]


def _shape3(s):
    return And(*[s.Y.shape[k] == s.X.shape[k] for k in range(3)] + [s.Y.shape[3] == 3, s.Y.shape[4] == 3,
                                                                     s.n0 == s.X.shape[0], s.n1 == s.X.shape[1], s.n2 == s.X.shape[2]])


_loops3 = {0: LoopSpec(r'for i0 in (prange|range)\(n0', inv=lambda s: [('shape', _shape3(s))]),
           1: LoopSpec(r'for i1 in range\(n1\)', inv=lambda s: [('shape', _shape3(s)), ('i0', And(0 <= s.i0, s.i0 < s.n0))]),
           2: LoopSpec(r'for i2 in range\(n2\)', inv=lambda s: [('shape', _shape3(s)), ('i', And(0 <= s.i0, s.i0 < s.n0, 0 <= s.i1, s.i1 < s.n1))])}


def _inv3_check_factory(last_expr):
    def chk(s):
        X, Y = s.X, s.Y
        a, b, c = s.i0, s.i1, s.i2
        x = [[X[a, b, c, r, q] for q in range(3)] for r in range(3)]
        y = [[Y[a, b, c, r, q] for q in range(3)] for r in range(3)]
        y[2][2] = last_expr(s, x)
        out = [('leibniz-determinant', s.det == _det3(X, a, b, c))]
        for r in range(3):
            for q in range(3):
                out.append(('YX[%d,%d]' % (r, q), sum(y[r][k] * x[k][q] for k in range(3)) == (1 if r == q else 0)))
                out.append(('XY[%d,%d]' % (r, q), sum(x[r][k] * y[k][q] for k in range(3)) == (1 if r == q else 0)))
        return out
    return chk


det_and_inv_3x3 = Contract(
    F, 'det_and_inv_3x3',
    requires=lambda s: _req3(s) + [s.det_out.shape[k] == s.X.shape[k] for k in range(3)],
    modifies=('det_out',), loops=_loops3,
    checks=[(r'Y\[i0, i1, i2, 2, 2\] = ', _inv3_check_factory(lambda s, x: (x[0][0] * x[1][1] - x[1][0] * x[0][1]) * s.invdet))],
    options={'timeout_ms': 120000},
)

inverses_3x3 = Contract(
    F, 'inverses_3x3', requires=_req3, loops=_loops3,
    checks=[(r'y\[2, 2\] = ', _inv3_check_factory(lambda s, x: (x[0][0] * x[1][1] - x[1][0] * x[0][1]) * s.invdet))],
    options={'timeout_ms': 120000},
)

determinants_3x3 = Contract(
    F, 'determinants_3x3',
    requires=lambda s: [s.X.shape[3] == 3, s.X.shape[4] == 3],
    loops={0: LoopSpec(r'for i0 in range\(n0\)', inv=lambda s: [('done', ForAll('a b c', lambda a, b, c: Implies(And(0 <= a, a < s.i0, 0 <= b, b < s.n1, 0 <= c, c < s.n2), s.Y[a, b, c] == _det3(s.X, a, b, c)))),
                                                                ('shape', And(s.Y.shape[0] == s.n0, s.Y.shape[1] == s.n1, s.Y.shape[2] == s.n2, s.n0 == s.X.shape[0], s.n1 == s.X.shape[1], s.n2 == s.X.shape[2]))]),
           1: LoopSpec(r'for i1 in range\(n1\)', inv=lambda s: [('done', ForAll('a b c', lambda a, b, c: Implies(And(0 <= a, a <= s.i0, 0 <= b, b < If(a == s.i0, s.i1, s.n1), 0 <= c, c < s.n2), s.Y[a, b, c] == _det3(s.X, a, b, c)))),
                                                                ('i0', And(0 <= s.i0, s.i0 < s.n0)),
                                                                ('shape', And(s.Y.shape[0] == s.n0, s.Y.shape[1] == s.n1, s.Y.shape[2] == s.n2, s.n0 == s.X.shape[0], s.n1 == s.X.shape[1], s.n2 == s.X.shape[2]))]),
           2: LoopSpec(r'for i2 in range\(n2\)', inv=lambda s: [('done', ForAll('a b c', lambda a, b, c: Implies(Or(And(0 <= a, a < s.i0, 0 <= b, b < s.n1, 0 <= c, c < s.n2),
                                                                                                                   And(a == s.i0, 0 <= b, b < s.i1, 0 <= c, c < s.n2),
                                                                                                                   And(a == s.i0, b == s.i1, 0 <= c, c < s.i2)), s.Y[a, b, c] == _det3(s.X, a, b, c)))),
                                                                ('i', And(0 <= s.i0, s.i0 < s.n0, 0 <= s.i1, s.i1 < s.n1)),
                                                                ('shape', And(s.Y.shape[0] == s.n0, s.Y.shape[1] == s.n1, s.Y.shape[2] == s.n2, s.n0 == s.X.shape[0], s.n1 == s.X.shape[1], s.n2 == s.X.shape[2]))])},
    ensures=lambda s: [('all-determinants', ForAll('a b c', lambda a, b, c: Implies(And(0 <= a, a < s.X.shape[0], 0 <= b, b < s.X.shape[1], 0 <= c, c < s.X.shape[2]),
                                                                                   s.result[a, b, c] == _det3(s.X, a, b, c))))],
    options={'timeout_ms': 60000},
)

CONTRACTS = [det_and_inv_2x2, inverses_2x2, det_and_inv_3x3, inverses_3x3, determinants_3x3]
