"""C01 proof-tier obligations: parse-back of the kernels the real code generator emits.

For every enumerated form the REAL pyiga.vform / pyiga.codegen.cython of the tree under check produce the Cython text of
the assembler class.  The text of `precompute_fields` and `combine` is parsed with the Cython front end and executed
symbolically over sympy: Gauss weights, the 1D basis-function jets VDu<k>[nd*i<k>+d], field slots and parameters are
symbols.  Source-field slots (geometry / input-field values and derivative arrays, parameters) are interpreted through
the generator's own slot tables as the jets they are filled with; everything else is what the code computes.

Obligation per form (`kernel:<form>:value[c]`): the integrand accumulated into result[c] equals the denotation of the
UN-finalized form (pyvc/exprsem.py) with separable basis functions u(xi) = prod_c U_c(xi_c) -- an exact identity in all
jets.  This covers the middle end and the expression/kernel emission together, per enumerated program.  Not covered
here: __init__ glue that fills the source slots, entry_impl's support intersection and pointer set-up (bounded tier)."""
import ast
import itertools
import multiprocessing as mp
import os
import sys
import tempfile
import time
import traceback

import sympy as sp

import pyvc
from pyvc import frontend
from pyvc.symexec import Obligation
from pyvc.exprsem import Sem, SemError, is_zero, canon
from bounded import formgen

FC = 'pyiga/codegen/cython.py'
_pkg = [None]


def real_modules():
    """pyiga.vform and pyiga.codegen.cython of the tree under check (pure python; the package __init__ is trivial)"""
    if _pkg[0] is None:
        if 'pyiga' in sys.modules and not os.path.abspath(getattr(sys.modules['pyiga'], '__file__', '')).startswith(os.path.abspath(pyvc.REPO) + os.sep):
            raise RuntimeError('pyiga already imported from elsewhere: %r' % sys.modules['pyiga'].__file__)
        sys.path.insert(0, pyvc.REPO)
        import pyiga.vform as vf
        import pyiga.codegen.cython as backend
        assert os.path.abspath(vf.__file__).startswith(os.path.abspath(pyvc.REPO) + os.sep), vf.__file__
        _pkg[0] = (vf, backend)
    return _pkg[0]


def _ob(oid, status, desc, detail='', backend='sympy (exact identity) on parsed kernel text', t=0.0):
    o = Obligation(oid, 'rule', 0, [], None, desc, src=FC)
    o.status, o.backend, o.time = status, backend, t
    if status != 'proved':
        o.goal = detail
    return o


class _Unsupported(Exception):
    pass


_FUNCS = {'sin': sp.sin, 'cos': sp.cos, 'exp': sp.exp, 'log': sp.log, 'tan': sp.tan, 'sqrt': sp.sqrt, 'fabs': sp.Abs, 'abs': sp.Abs}


class KernelInterp:
    """symbolic execution of the straight-line loop body of a generated kernel"""

    def __init__(self, slot_value):
        self.env = {}
        self.slot_value = slot_value          # (array name, index) -> sympy value for reads of slots never written
        self.written = {}                     # (array name, index) -> sympy value
        self.acc = {}                         # accumulator component -> sympy expression

    def ev(self, n):
        if isinstance(n, ast.Constant):
            if isinstance(n.value, (int, float)):
                return sp.nsimplify(n.value, rational=True)
            raise _Unsupported('constant %r' % (n.value,))
        if isinstance(n, ast.Name):
            if n.id in self.env:
                return self.env[n.id]
            if n.id in ('i0', 'i1', 'i2', 'i3'):
                return sp.Symbol(n.id, integer=True)
            raise _Unsupported('read of unassigned local %s (line %d)' % (n.id, n.lineno))
        if isinstance(n, ast.UnaryOp) and isinstance(n.op, (ast.USub, ast.UAdd)):
            v = self.ev(n.operand)
            return -v if isinstance(n.op, ast.USub) else v
        if isinstance(n, ast.BinOp):
            a, b = self.ev(n.left), self.ev(n.right)
            if isinstance(n.op, ast.Add):
                return a + b
            if isinstance(n.op, ast.Sub):
                return a - b
            if isinstance(n.op, ast.Mult):
                return a * b
            if isinstance(n.op, ast.Div):
                return a / b
            raise _Unsupported('operator %s' % type(n.op).__name__)
        if isinstance(n, ast.Call) and isinstance(n.func, ast.Name):
            if n.func.id in _FUNCS and len(n.args) == 1:
                return _FUNCS[n.func.id](canon(self.ev(n.args[0])))
            if n.func.id == '__cast__':
                return self.ev(n.args[0])
            raise _Unsupported('call of %s' % n.func.id)
        if isinstance(n, ast.Subscript) and isinstance(n.value, ast.Name):
            return self.read(n.value.id, n.slice, n)
        raise _Unsupported('expression %s at line %d' % (type(n).__name__, getattr(n, 'lineno', 0)))

    def index(self, sl):
        v = self.ev(sl)
        return v

    def read(self, name, sl, node):
        if name.startswith('VD') or name.startswith('_gw'):
            idx = sp.expand(self.index(sl))
            k = int(name[-1])
            ik = sp.Symbol('i%d' % k, integer=True)
            if name.startswith('_gw'):
                if idx != ik:
                    raise _Unsupported('Gauss weight index %s' % idx)
                return sp.Symbol('gw%d' % k, positive=True)
            nd = idx.coeff(ik)
            d = idx.subs(ik, 0)
            if not (nd.is_Integer and d.is_Integer and 0 <= d < nd):
                raise _Unsupported('basis jet index %s' % idx)
            return sp.Symbol('%s_%d__nd%d' % (name, int(d), int(nd)))
        idx = self.index(sl)
        if not idx.is_Integer:
            raise _Unsupported('symbolic slot index %s[%s]' % (name, idx))
        key = (name, int(idx))
        if key in self.written:
            return self.written[key]
        if key in self.env:
            return self.env[key]
        return self.slot_value(name, int(idx))

    def run(self, stmts):
        for s in stmts:
            if isinstance(s, ast.For):
                self.run(s.body)
            elif isinstance(s, (ast.AnnAssign,)):
                if s.value is not None:
                    self.assign(s.target, s.value, s)
            elif isinstance(s, ast.Assign):
                for t in s.targets:
                    self.assign(t, s.value, s)
            elif isinstance(s, ast.AugAssign):
                if not isinstance(s.op, ast.Add):
                    raise _Unsupported('augmented assignment %s' % type(s.op).__name__)
                v = self.ev(s.value)
                if isinstance(s.target, ast.Name):
                    key = (s.target.id, 0)
                elif isinstance(s.target, ast.Subscript) and isinstance(s.target.value, ast.Name):
                    key = (s.target.value.id, int(self.index(s.target.slice)))
                else:
                    raise _Unsupported('accumulation target')
                if key[0] != 'r':
                    raise _Unsupported('accumulation into %s' % key[0])
                self.acc[key[1]] = self.acc.get(key[1], sp.Integer(0)) + v
            elif isinstance(s, ast.Expr):
                continue
            elif isinstance(s, ast.Pass):
                continue
            else:
                raise _Unsupported('statement %s at line %d' % (type(s).__name__, s.lineno))

    def assign(self, t, value, s):
        # pointer set-up lines: fields = &_fields[i0, i1, 0]
        if isinstance(value, ast.Call) and isinstance(value.func, ast.Name) and value.func.id == '__addr__':
            return
        if isinstance(t, ast.Name):
            if t.id == 'r' and isinstance(value, (ast.List, ast.Constant)):
                return          # accumulator initialisation
            if isinstance(value, ast.List):
                return
            self.env[t.id] = self.ev(value)
            return
        if isinstance(t, ast.Subscript) and isinstance(t.value, ast.Name):
            name = t.value.id
            idx = self.index(t.slice)
            if not idx.is_Integer:
                raise _Unsupported('store to symbolic index')
            if name == 'result':
                return          # result[k] = r[k]
            v = self.ev(value)
            if name in ('fields', 'temp_fields', 'constants'):
                self.written[(name, int(idx))] = v
            else:
                self.env[(name, int(idx))] = v
            return
        raise _Unsupported('assignment target at line %d' % s.lineno)


def _method(cls, name):
    for st in cls.body:
        if isinstance(st, ast.FunctionDef) and st.name == name:
            return st
    return None


def form_kernel_obligations(spec, idx):
    vf, backend = real_modules()
    oid = 'kernel[%02d:%s]' % (idx, spec['expr'][:40])
    obs = []
    t0 = time.time()
    try:
        import numpy as np
        V0 = formgen.build(spec, vform=vf)
        S0 = Sem(V0, vf)
        dim = V0.dim
        before = [S0.den(e) for e in V0.exprs]
        V = formgen.build(spec, vform=vf)
        code = backend.CodeGen()
        gen = backend.AsmGenerator(V, 'Cls', code)
        try:
            gen.generate()
        except (AssertionError, NotImplementedError, TypeError) as e:
            if 'not implemented' in str(e) or 'cannot' in str(e):
                return []           # the compiler rejects the form with an explicit not-implemented / type error: outside the property
            raise
        text = code.result()
        S = Sem(V, vf)
        # ---- slot tables of the generator: source variables and parameters
        slot_den = {}

        def fill(info, arr):
            for name, (var, sz, ofs) in info.items():
                if var.expr is not None:
                    continue
                shape = var.shape
                for I in (np.ndindex(*shape) if shape else [()]):
                    if len(shape) == 2 and getattr(var, 'symmetric', False) and I[0] > I[1]:
                        continue
                    k = ofs + int(backend.storage_index(var, tuple(int(x) for x in I)))
                    slot_den[(arr, k)] = lambda var=var, I=tuple(int(x) for x in I): S.den(vf.VarRefExpr(var, I))
        fill(gen.global_info, 'fields')
        fill(getattr(gen, 'temp_info', {}), 'temp_fields')
        for name, (par, sz, ofs) in getattr(gen, 'constant_info', {}).items():
            shape = tuple(par.shape)
            for I in (np.ndindex(*shape) if shape else [()]):
                I = tuple(int(x) for x in I)
                k = ofs + (int(np.ravel_multi_index(I, shape)) if shape else 0)
                slot_den[('constants', k)] = lambda name=name, I=I: S.param(name, I)

        def slot_value(arr, k):
            if (arr, k) in slot_den:
                return slot_den[(arr, k)]()
            raise _Unsupported('read of slot %s[%d] that is neither written before nor a source slot' % (arr, k))

        # ---- parse the generated text
        with tempfile.TemporaryDirectory(prefix='pyvc-gen-', dir='/var/tmp') as td:
            with open(os.path.join(td, 'gen.pyx'), 'w') as f:
                f.write(text)
            src = frontend.SourceFile('gen.pyx', td)
            cls = [c for c in src.classes() if c.name == 'Cls'][0]
        pre = _method(cls, 'precompute_fields')
        comb = _method(cls, 'combine')
        if comb is None:
            raise _Unsupported('no combine kernel in the generated class')
        K = KernelInterp(slot_value)
        if pre is not None:
            K.run(pre.body)
        # the kernel reads what precompute wrote into `fields` (temp_fields are precompute-local)
        K.env = {}
        K.acc = {}
        K.run(comb.body)
        # ---- separable basis functions and the VD symbols
        xi = S0.xi
        rep_bf = {}
        for bf in V0.basis_funs:
            names = [bf.name] if bf.numcomp is None else [bf.name]
            full = sp.Function('bf_' + bf.name)(*xi)
            rep_bf[full] = sp.Mul(*[sp.Function('U1_%s_%d' % (bf.name, c))(xi[c]) for c in range(dim)])

        def vd_to_jet(sym):
            nm = sym.name            # VDu0_1__nd2
            head, nd = nm.split('__nd')
            base, d = head.rsplit('_', 1)
            bname, k = base[2:-1], int(base[-1])
            c = dim - 1 - k
            f = sp.Function('U1_%s_%d' % (bname, c))(xi[c])
            return sp.diff(f, xi[c], int(d)) if int(d) else f

        ncomp = max(K.acc.keys(), default=0) + 1
        flat_before = []
        for b in before:
            flat_before.extend(list(b) if isinstance(b, sp.MatrixBase) else [b])
        if len(flat_before) != ncomp:
            obs.append(_ob(oid + ':components', 'refuted', 'the kernel accumulates one value per component of the form',
                           'kernel has %d accumulators, the form %d components' % (ncomp, len(flat_before))))
            return obs
        for c in range(ncomp):
            tt = time.time()
            got = K.acc.get(c, sp.Integer(0))
            got = got.xreplace({s_: vd_to_jet(s_) for s_ in got.free_symbols if s_.name.startswith('VD')})
            want = flat_before[c].subs(rep_bf).doit()
            st, detail = is_zero(got - want, seed=idx)
            obs.append(_ob(oid + ':value[%d]' % c, st, 'the integrand accumulated by the generated kernel (with the fields precompute stores) equals the '
                           'denotation of the un-finalized form for all jets', detail, t=round(time.time() - tt, 3)))
        # every field slot the kernel reads is either a source slot or written by precompute: established by the run above (else Unsupported)
    except _Unsupported as e:
        obs.append(_ob(oid + ':value', 'unknown', 'parse-back of the generated kernel', 'generated code outside the interpreter\'s subset: %s' % e))
    except SemError as e:
        obs.append(_ob(oid + ':value', 'unknown', 'denotation of the form', 'outside the semantic domain: %s' % e))
    except Exception as e:
        obs.append(_ob(oid + ':value', 'refuted', 'code generation succeeds for a documented form',
                       'exception %s: %s | %s' % (type(e).__name__, e, traceback.format_exc(limit=4)[-600:])))
    return obs


def _job(args):
    spec, idx = args
    obs = form_kernel_obligations(spec, idx)
    return [(o.oid, o.status, o.desc, o.goal if isinstance(o.goal, str) else '', o.backend, o.time) for o in obs]


def kernel_obligations(tier):
    real_modules()
    vf, _ = real_modules()
    specs = formgen.base_forms()
    if tier != 'quick':
        seen = {repr(s) for s in specs}
        for s in list(specs):
            for desc, nb in formgen.neighbours(s):
                if repr(nb) in seen:
                    continue
                seen.add(repr(nb))
                try:
                    formgen.build(nb, vform=vf).finalize()
                    if not formgen.is_multilinear(nb, vform=vf):
                        continue          # e.g. u*u: not a bilinear form, outside the property
                except Exception:
                    continue
                specs.append(nb)
    jobs = [(s, i) for i, s in enumerate(specs)]
    ctx = mp.get_context('fork')
    with ctx.Pool(min(16, len(jobs))) as pool:
        res = pool.map(_job, jobs, chunksize=1)
    obs = []
    for r in res:
        for (oid, st, desc, detail, backend, t) in r:
            obs.append(_ob(oid, st, desc, detail, backend=backend, t=t))
    return obs, None


def results(tier):
    from pyvc import solve
    return [solve.custom_result('codegen:kernel-parse-back', FC, 'AsmGenerator.generate_kernel / generate_precomp / gencode', lambda: kernel_obligations(tier))]


# ---- update(): every array variable fed by an updatable input is refreshed ----------------------------------------------------------
_UPD_FORMS = [
    # (label, dim, arity, builder(V, vf, u, v) -> list of updatable names)
    ('f*u*v', 2, 2, lambda V, vf, u, v: (vf.add(vf.input('f', updatable=True) * u * v * V.dx), ['f'])[1]),
    ('f and grad(f)', 2, 2, lambda V, vf, u, v: (lambda f: (vf.add(f * u * v * V.dx + V.inner(V.grad(f), V.grad(v)) * u * V.dx), ['f'])[1])(vf.input('f', updatable=True))),
    ('grad(f) and hess(f) 3D', 3, 2, lambda V, vf, u, v: (lambda f: (vf.add(V.inner(V.grad(f), V.grad(v)) * u * V.dx + V.tr(V.hess(f)) * u * v * V.dx), ['f'])[1])(vf.input('f', updatable=True))),
    ('two fields, functional', 2, 1, lambda V, vf, u, v: (lambda f, g: (vf.add((f * g + V.inner(V.grad(f), V.grad(g))) * u * V.dx), ['f', 'g'])[1])(
        vf.input('f', updatable=True), vf.input('g', updatable=True))),
    ('one of two fields', 2, 2, lambda V, vf, u, v: (lambda f, g: (vf.add(f * u * v * V.dx + g * u * v * V.dx + V.inner(V.grad(g), V.grad(v)) * u * V.dx), ['g'])[1])(
        vf.input('f'), vf.input('g', updatable=True))),
    ('vector field', 2, 2, lambda V, vf, u, v: (lambda b: (vf.add(V.inner(b, V.grad(u)) * v * V.dx + V.div(b) * u * v * V.dx), ['b'])[1])(vf.input('b', shape=(2,), updatable=True))),
]


def update_coherence_obligations():
    """the generated update(name=...) must refresh EVERY slice of self.fields that __init__ fills from that input (value, gradient,
    Hessian, ... are separate array variables): for each form, the set of (slice, right-hand side) pairs __init__ assigns from an
    updatable input equals the set update() assigns under `if <name>:`.  The generator's text is parsed; forms are built on the real
    vform/codegen modules of the tree under check."""
    import re
    V, backend = real_modules()
    obs = []
    asg = re.compile(r'^\s*self\.fields\.base\[(?P<idx>[^\]]*)\]\s*=\s*(?P<rhs>.*)$')
    for label, dim, arity, build in _UPD_FORMS:
        oid = 'codegen:update[%s]:refreshes-every-dependent-field' % label
        t0 = time.time()
        try:
            vf = V.VForm(dim, arity=arity)
            bf = vf.basisfuns()
            u, v = (bf if arity == 2 else (bf, bf)) if not isinstance(bf, tuple) or arity == 2 else (bf[0], bf[0])
            names = build(V, vf, u, v)
            code = backend.CodeGen()
            backend.AsmGenerator(vf, 'UpdAsm', code).generate()
            txt = code.result()
        except Exception as e:
            obs.append(_ob(oid, 'unknown', 'update() refreshes every field slice that depends on an updatable input', 'could not generate: %s: %s' % (type(e).__name__, e),
                           backend='parse of the generated update()', t=time.time() - t0))
            continue
        lines = txt.split('\n')
        try:
            i0 = next(k for k, l in enumerate(lines) if re.match(r'\s*def __init__', l))
            i1 = next(k for k, l in enumerate(lines) if re.match(r'\s*def update\(', l))
        except StopIteration:
            obs.append(_ob(oid, 'refuted', 'update() refreshes every field slice that depends on an updatable input', 'no update() method generated although %r are updatable' % names,
                           backend='parse of the generated update()', t=time.time() - t0))
            continue
        ind = lambda l: len(l) - len(l.lstrip())
        end_of = lambda k: next((j for j in range(k + 1, len(lines)) if lines[j].strip() and ind(lines[j]) <= ind(lines[k])), len(lines))
        init_pairs = {}
        for l in lines[i0:end_of(i0)]:
            m = asg.match(l)
            if m:
                for nm in names:
                    if re.search(r'(?<![\w.])%s(?![\w])' % re.escape(nm), m.group('rhs')):
                        init_pairs.setdefault(nm, set()).add((m.group('idx').replace(' ', ''), m.group('rhs').strip()))
        upd_pairs = {}
        cur = None
        for l in lines[i1 + 1:end_of(i1)]:
            mm = re.match(r'^\s*if (\w+):\s*$', l)
            if mm:
                cur = (mm.group(1), ind(l))
                continue
            if cur and l.strip() and ind(l) <= cur[1]:
                cur = None
            m = asg.match(l)
            if m and cur:
                upd_pairs.setdefault(cur[0], set()).add((m.group('idx').replace(' ', ''), m.group('rhs').strip()))
        missing = {nm: sorted(init_pairs.get(nm, set()) - upd_pairs.get(nm, set())) for nm in names}
        missing = {k: v for k, v in missing.items() if v}
        if not any(init_pairs.get(nm) for nm in names):
            obs.append(_ob(oid, 'unknown', 'update() refreshes every field slice that depends on an updatable input', '__init__ assigns no field slice from %r (text shape changed?)' % names,
                           backend='parse of the generated update()', t=time.time() - t0))
            continue
        obs.append(_ob(oid, 'refuted' if missing else 'proved', 'update() refreshes every field slice that depends on an updatable input',
                       'stale after update(): %r (assigned in __init__ from the updatable input, not in update())' % missing,
                       backend='parse of the generated update()', t=time.time() - t0))
    return obs, None


# ---- update_params(): constants derived from the parameters are recomputed ----------------------------------------------------------
_PARAM_FORMS = [
    ('norm(b)^2', 2, lambda V, vf, u, v: (lambda b: vf.add(V.norm(b) * V.norm(b) * u * v * V.dx))(vf.parameter('b', shape=(2,)))),
    ('shared sin(c)+cos(c)', 2, lambda V, vf, u, v: (lambda c: vf.add((V.sin(c) + V.cos(c)) * u * v * V.dx + (V.sin(c) + V.cos(c)) * V.inner(V.grad(u), V.grad(v)) * V.dx))(vf.parameter('c'))),
    ('two parameters', 3, lambda V, vf, u, v: (lambda c, d: vf.add(V.exp(c * d) * u * v * V.dx + V.exp(c * d) * V.inner(V.grad(u), V.grad(v)) * V.dx))(vf.parameter('c'), vf.parameter('d'))),
    ('plain parameter', 2, lambda V, vf, u, v: (lambda c: vf.add(c * u * v * V.dx))(vf.parameter('c'))),
]


def update_params_obligations():
    """every constant that precompute_fields derives from the parameters (constants[k] = <expression>) is recomputed by update_params():
    the statements `constants[k] = ...` of precompute_fields reappear, with the same right-hand sides, in update_params (generated text
    of the real generator, parsed)."""
    import re
    V, backend = real_modules()
    obs = []
    asg = re.compile(r'^\s*constants\[(\d+)\]\s*=\s*(.*)$')

    def body(lines, header):
        try:
            i0 = next(k for k, l in enumerate(lines) if re.match(header, l))
        except StopIteration:
            return None
        ind = lambda l: len(l) - len(l.lstrip())
        # the signature may span several lines: the body starts after the line ending with ':'
        k = i0
        while not lines[k].rstrip().endswith(':'):
            k += 1
        end = next((j for j in range(k + 1, len(lines)) if lines[j].strip() and ind(lines[j]) <= ind(lines[i0])), len(lines))
        return lines[k + 1:end]
    for label, dim, build in _PARAM_FORMS:
        oid = 'codegen:update_params[%s]:recomputes-derived-constants' % label
        t0 = time.time()
        desc = 'update_params() recomputes every constant that precompute_fields derives from the parameters'
        try:
            vf = V.VForm(dim)
            u, v = vf.basisfuns()
            build(V, vf, u, v)
            code = backend.CodeGen()
            backend.AsmGenerator(vf, 'ParAsm', code).generate()
            lines = code.result().split('\n')
        except Exception as e:
            obs.append(_ob(oid, 'unknown', desc, 'could not generate: %s: %s' % (type(e).__name__, e), backend='parse of the generated update_params()', t=time.time() - t0))
            continue
        pre = body(lines, r'\s*cdef void precompute_fields\(')
        upd = body(lines, r'\s*def update_params\(')
        if upd is None:
            obs.append(_ob(oid, 'refuted', desc, 'no update_params() generated for a form with parameters', backend='parse of the generated update_params()', t=time.time() - t0))
            continue
        want = set()
        for l in (pre or []):
            m = asg.match(l)
            if m:
                want.add((m.group(1), m.group(2).strip()))
        got = set()
        for l in upd:
            m = asg.match(l)
            if m:
                got.add((m.group(1), m.group(2).strip()))
        missing = sorted(want - got)
        obs.append(_ob(oid, 'refuted' if missing else 'proved', desc,
                       'derived constants computed in precompute_fields but not in update_params (stale after an update): %r' % missing,
                       backend='parse of the generated update_params()', t=time.time() - t0))
    return obs, None
