"""Contracts for the Dirichlet-elimination code in pyiga/assemble.py.

RestrictedLinearSystem: the real class (compiled from the current source) is executed over formal vectors and
operators; numpy/scipy are replaced by the contracts of the few calls the class makes:
    I[mask], I[~mask]        complementary row selections R_free / R_elim with R_f R_f^T = I, R_e R_e^T = I, R_f R_e^T = 0
    values[argsort(indices)] the prescribed values in the row order of R_elim
Postconditions hold for all matrices, right-hand sides, values and free vectors (formal identities); which rows
R_elim selects, and in which order, is index-level and checked by the bounded tier."""
import ast
import time

import sympy as sp

from pyvc import frontend
from pyvc.spec import *
from pyvc.symexec import Executor, Obligation
from pyvc.solve import ob_dict
from .solvers_steps import Vec

F = 'pyiga/assemble.py'


def _reduce_atom(op, atom):
    """selection algebra on atoms: Rf(RfT(x)) = x, Re(ReT(x)) = x, Rf(ReT(x)) = 0, Re(RfT(x)) = 0 (same family only)"""
    for fam in ('', 'v'):
        for a, b in (('f', 'e'), ('e', 'f')):
            if op == 'R%s%s' % (a, fam):
                if atom.startswith('R%s%sT(' % (a, fam)) and atom.endswith(')'):
                    return ('same', atom[len('R%s%sT(' % (a, fam)):-1])
                if atom.startswith('R%s%sT(' % (b, fam)) and atom.endswith(')'):
                    return ('zero', None)
    return ('atom', '%s(%s)' % (op, atom))


class Lin:
    """linear map on formal vectors"""

    def __init__(self, fn, name, shape=None, tr=None):
        self.fn, self.name, self._shape, self._tr = fn, name, shape, tr

    @staticmethod
    def named(name, shape=None, tr=None):
        def fn(v):
            out = Vec()
            for a, c in v.t.items():
                kind, val = _reduce_atom(name, a)
                if kind == 'same':
                    out = out + Vec({val: c})
                elif kind == 'atom':
                    out = out + Vec({val: c})
            return out
        return Lin(fn, name, shape, tr)

    def dot(self, x):
        if isinstance(x, Vec):
            return self.fn(x)
        if isinstance(x, Lin):
            return Lin(lambda v: self.fn(x.fn(v)), '%s.%s' % (self.name, x.name))
        raise TypeError('dot with %r' % (x,))
    __matmul__ = dot

    @property
    def T(self):
        if self._tr is None:
            raise TypeError('transpose of %s' % self.name)
        return Lin.named(self._tr)

    @property
    def shape(self):
        return self._shape


class _Mask:
    def __init__(self, comp=False):
        self.comp = comp
        self.cleared = None

    def __setitem__(self, idx, val):
        assert val is False
        self.cleared = idx


class _Eye:
    def __init__(self, fam):
        self.fam = fam

    def __getitem__(self, mask):
        nm = 'R%s%s' % ('e' if mask.comp else 'f', self.fam)
        return Lin.named(nm, tr=nm + 'T')


class _Idx:
    """index array: only its length and its elements-as-a-list are used by the class"""

    def __init__(self, name):
        self.name = name
        self.shape = (sp.Symbol('m_' + name, integer=True, nonnegative=True),)

    def __iter__(self):
        return iter(())

    # the constructor first normalises numpy-style negative indices (indices < 0 -> indices + n): the abstract index array stands
    # for the normalised one, the normalisation itself (element-wise integer arithmetic) is exercised by the bounded tier
    def __lt__(self, other):
        return 'negative-entries-of(%s)' % self.name

    def __add__(self, other):
        self.added = getattr(self, 'added', []) + [other]        # what the normalisation adds to the negative entries
        return self


class _Vals:
    def __init__(self, vec):
        self.vec = vec

    def __getitem__(self, perm):
        return Vec.atom('v_in_row_order')


def rls_obligations():
    src = frontend.load(F)
    t0 = time.time()
    res = {'contract': 'assemble:RestrictedLinearSystem', 'file': F, 'func': 'RestrictedLinearSystem', 'instance': {}, 'obligations': [],
           'status': 'ok', 'error': None, 'paths': 2, 'vacuous': False, 'notes': [], 'src_sha': src.sha, 'time': 0.0}

    def ob(label, ok, desc, detail=''):
        o = Obligation('assemble:RestrictedLinearSystem:post:' + label, 'post', 0, [], None, desc, src='class RestrictedLinearSystem')
        o.status, o.backend, o.time = ('proved' if ok else 'refuted'), 'formal-operator-identity (sympy)', 0.0
        if not ok:
            o.goal = detail
        res['obligations'].append(ob_dict(o))
    try:
        cls_node = [c for c in src.classes() if c.name == 'RestrictedLinearSystem'][0]
        code = compile(ast.Module(body=[cls_node], type_ignores=[]), src.path, 'exec')
        for with_rows in (False, True):
            tag = 'elim_rows' if with_rows else 'default'
            fam_counter = {'n': 0}

            class NP:
                @staticmethod
                def isscalar(x):
                    return False

                @staticmethod
                def ones(n, dtype=None):
                    return _Mask()

                @staticmethod
                def logical_not(m):
                    c = _Mask(comp=not m.comp)
                    return c

                @staticmethod
                def asarray(x, dtype=None):
                    return _Vals(x) if isinstance(x, Vec) else x

                @staticmethod
                def where(cond, a, b):
                    assert isinstance(a, _Idx) and isinstance(b, _Idx) and a is b
                    return b

                @staticmethod
                def argsort(idx, kind=None):
                    return 'perm(%s)' % idx.name

                @staticmethod
                def broadcast_to(x, n):
                    return x

            class SPS:
                @staticmethod
                def eye(n, format=None):
                    fam_counter['n'] += 1
                    return _Eye('' if fam_counter['n'] == 1 else 'v')

                @staticmethod
                def issparse(B):
                    return True

                @staticmethod
                def csr_matrix(B):
                    return B

            class SP:
                sparse = SPS
            ns = {'np': NP, 'scipy': SP, 'sorted': lambda x: x}
            exec(code, ns)
            RLS = ns['RestrictedLinearSystem']
            N = sp.Symbol('N', integer=True, positive=True)
            # with elim_rows the system may be rectangular (Petrov-Galerkin): M equations, N dofs
            M = sp.Symbol('M', integer=True, positive=True) if with_rows else N
            A = Lin.named('A', shape=(M, N))
            b, v, u = Vec.atom('b'), Vec.atom('v'), Vec.atom('u')
            idx_in = _Idx('idx')
            L = RLS(A, b, (idx_in, v), elim_rows=(_Idx('rows') if with_rows else None))
            ob(tag + ':negative-indices-count-from-the-number-of-dofs', getattr(idx_in, 'added', None) == [N],
               'numpy-style negative dof indices are normalised by adding the number of dofs (columns of A), also for a rectangular system',
               'added %r' % (getattr(idx_in, 'added', None),))
            fv = 'v' if with_rows else ''
            Rf, Re = Lin.named('Rf', tr='RfT'), Lin.named('Re', tr='ReT')
            Rfv = Lin.named('Rf' + fv, tr='Rf' + fv + 'T')
            x = L.complete(u)
            vs = Vec.atom('v_in_row_order')
            ob(tag + ':prescribed-values', Re.dot(x) == vs, 'R_elim complete(u) = the prescribed values (in the row order of R_elim)', repr(Re.dot(x)))
            ob(tag + ':free-part', Rf.dot(x) == u and L.restrict(x) == u, 'restrict(complete(u)) = u', repr(Rf.dot(x)))
            ob(tag + ':restrict-extend', L.restrict(L.extend(u)) == u, 'restrict(extend(u)) = u')
            ob(tag + ':extend-has-zero-eliminated-part', Re.dot(L.extend(u)) == Vec(), 'extend pads with zeros')
            lhs = L.A.dot(u) - L.b
            rhs = L.restrict_rhs(A.dot(x) - b)
            ob(tag + ':non-eliminated-equations', lhs == rhs, 'A_r u - b_r = R_free_v (A complete(u) - b): solving the restricted system satisfies every '
               'non-eliminated equation of the original one', '%r vs %r' % (lhs, rhs))
            B = Lin.named('B')
            ob(tag + ':restrict-matrix', L.restrict_matrix(B).dot(u) == Rfv.dot(B.dot(Rf.T.dot(u))), 'restrict_matrix(B) = R_free_v B R_free^T')
            ob(tag + ':restrict-rhs', L.restrict_rhs(b) == Rfv.dot(b), 'restrict_rhs(f) = R_free_v f')
            ob(tag + ':values-kept-in-row-order', L.values == vs, 'self.values is stored in the row order of R_elim')
    except KeyError as e:
        res['status'], res['error'] = 'missing', str(e)
    except Exception:
        import traceback
        res['status'], res['error'] = 'out-of-subset', traceback.format_exc()[-1500:]
    res['time'] = round(time.time() - t0, 3)
    return res


def all_shorthand_obligations():
    """compute_dirichlet_bcs: ('all', f) expands to exactly the 2*dim faces; a list of two (bdspec, f) pairs is NOT the shorthand"""
    src = frontend.load(F)
    fn = src.find('compute_dirichlet_bcs')
    obs = []
    from pyvc.values import VOpaque, VTuple
    for dim in (1, 2, 3):
        for mode in ('all', 'two-pairs'):
            calls = []

            def rec_bc(ex, st, call, kvs, geo, bdspec, g, **k):
                calls.append(tuple(bdspec) if isinstance(bdspec, tuple) else bdspec)
                return VOpaque('bc')

            def rec_combine(ex, st, call, bcs, **k):
                return VOpaque('combined')
            g = VOpaque('g')
            if mode == 'all':
                bdconds = VTuple(('all', g))
            else:
                bdconds = VTuple((VTuple(('left', g)), VTuple(('right', g))))
            c = Contract(F, 'compute_dirichlet_bcs', name='assemble:compute_dirichlet_bcs',
                         params={'kvs': Const(VTuple([VOpaque('kv%d' % d) for d in range(dim)])), 'geo': Opaque(), 'bdconds': Const(bdconds)},
                         callees={'compute_dirichlet_bc': rec_bc, 'combine_bcs': rec_combine})
            ex = Executor(fn, c)
            obs += ex.run()
            if mode == 'all':
                exp = [(ax, side) for ax in range(dim) for side in (0, 1)]
                ok = sorted(calls) == sorted(exp) and len(calls) == 2 * dim
                what = "('all', f) is expanded to exactly the 2*dim faces (axis, side)"
            else:
                ok = calls == ['left', 'right']
                what = 'a list of two (bdspec, f) pairs is not mistaken for the shorthand'
            o = Obligation('assemble:compute_dirichlet_bcs:post:%s[dim=%d]' % (mode, dim), 'post', fn.lineno, [], None, what, src='def compute_dirichlet_bcs')
            o.status, o.backend, o.time = ('proved' if ok else 'refuted'), 'symbolic-execution (recorded calls)', 0.0
            if not ok:
                o.goal = 'recorded faces: %r' % (calls,)
            obs.append(o)
    return obs, None


def multipatch_bc_obligations():
    """Multipatch.compute_dirichlet_bcs: for EVERY condition (p, bdspec, g) in the list the local indices are mapped through the patch-to-global
    table of ITS OWN patch p -- checked for all sequences of patches of length <= 4 over three patches (every revisit pattern of the cache);
    the conditions are combined in the given order"""
    import itertools
    src = frontend.load(F)
    fn = src.find('Multipatch.compute_dirichlet_bcs')
    obs = []
    from pyvc.values import VOpaque, VTuple, Ref, ListContent, ObjContent
    npatch = 3
    bad = []
    nseq = 0
    for L in (1, 2, 3, 4):
        for seq in itertools.product(range(npatch), repeat=L):
            nseq += 1
            combined = []

            def rec_bc(ex, st, call, kvs, geo, bdspec, g, **k):
                tag = 'bc[%s|%s|%s]' % (getattr(kvs, 'what', kvs), getattr(bdspec, 'what', bdspec), getattr(g, 'what', g))
                return VTuple((VOpaque('I:' + tag), VOpaque('V:' + tag)))

            def rec_p2g(ex, st, call, p, **k):
                return VOpaque('G%s' % (p,))

            def rec_combine(ex, st, call, bcs, **k):
                items = st.heap[bcs.id].items if isinstance(bcs, Ref) else list(bcs)
                for it in items:
                    combined.append((getattr(it[0], 'what', repr(it[0])), getattr(it[1], 'what', repr(it[1]))))
                return VOpaque('combined')

            def init(ex, st):
                me = Ref('self')
                patches = Ref('patches')
                st.heap[patches.id] = ListContent([VTuple((VOpaque('kvs%d' % q), VOpaque('geo%d' % q))) for q in range(npatch)])
                st.heap[me.id] = ObjContent({'patches': patches})
                st.env['self'] = me
                conds = Ref('bdconds')
                st.heap[conds.id] = ListContent([VTuple((p, VOpaque('face%d' % k), VOpaque('g%d' % k))) for k, p in enumerate(seq)])
                st.env['bdconds'] = conds
            c = Contract(F, 'Multipatch.compute_dirichlet_bcs', name='assemble:Multipatch.compute_dirichlet_bcs',
                         callees={'compute_dirichlet_bc': rec_bc, 'self.patch_to_global_idx': rec_p2g, 'combine_bcs': rec_combine})
            ex = Executor(fn, c)
            obs += ex.run(init=init)
            want = [('subscript of G%d' % p, 'V:bc[kvs%d|face%d|g%d]' % (p, k, k)) for k, p in enumerate(seq)]
            if combined != want:
                bad.append('patch sequence %r: combined %r, expected %r' % (seq, combined[:4], want[:4]))
    o = Obligation('assemble:Multipatch.compute_dirichlet_bcs:post:own-patch-map', 'post', fn.lineno, [], None,
                   'for all %d patch sequences of length <= 4 over 3 patches: condition k is evaluated on the knot vectors/geometry of its patch and its local '
                   'indices go through patch_to_global_idx of the same patch; conditions are combined in order' % nseq, src='def compute_dirichlet_bcs')
    o.status, o.backend, o.time = ('proved' if not bad else 'refuted'), 'symbolic-execution (recorded calls)', 0.0
    if bad:
        o.goal = '; '.join(bad[:2])
    obs.append(o)
    return obs, None
