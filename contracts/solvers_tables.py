"""Order-condition obligations for the shipped Runge-Kutta / Rosenbrock coefficient tables in pyiga/solvers.py.

The tables are read from the module-level wiring of the *current* source (`name = dirk_method(...)`,
`adaptive_dirk_method(*coeffs_x(), ...)`, `adaptive_rosenbrock_method(*coeffs_x(), ...)`), evaluated exactly
(pyvc.exacteval) and compared with the algebraic order conditions.  Documented orders are taken from the comments
next to each table (DIRK) resp. from the convention main = err_order + 1, embedded = err_order (Rosenbrock)."""
import ast
import time

import sympy as sp

from pyvc import frontend, exacteval
from pyvc.symexec import Obligation

F = 'pyiga/solvers.py'
TOL = sp.Rational(5, 10**9)

# documented orders (main, embedded) -- from the comments in the source
DIRK_ORDERS = {
    'crank_nicolson': (2, None),
    'sdirk3': (3, None),
    'sdirk3_b': (4, None),
    'sdirk21': (2, 1),
    'dirk34': (3, 2),
    'esdirk23': (2, 3),
    'esdirk34': (3, 4),
}
DIRK_STIFFLY_ACCURATE = {'crank_nicolson', 'sdirk3', 'sdirk21', 'dirk34', 'esdirk23', 'esdirk34'}
ROS_METHODS = ('ros3p', 'ros3pw', 'rowdaind2', 'rodasp', 'rosi2p1')


def rk_conditions(A, b, order):
    """list of (name, residual) for orders 1..order; A sympy Matrix s x s, b list"""
    s = A.shape[0]
    c = [sum(A[i, j] for j in range(s)) for i in range(s)]
    R = []
    R.append(('order1:sum_b', sum(b) - 1))
    if order >= 2:
        R.append(('order2:b.c', sum(b[i] * c[i] for i in range(s)) - sp.Rational(1, 2)))
    if order >= 3:
        R.append(('order3:b.c2', sum(b[i] * c[i]**2 for i in range(s)) - sp.Rational(1, 3)))
        R.append(('order3:b.A.c', sum(b[i] * A[i, j] * c[j] for i in range(s) for j in range(s)) - sp.Rational(1, 6)))
    if order >= 4:
        R.append(('order4:b.c3', sum(b[i] * c[i]**3 for i in range(s)) - sp.Rational(1, 4)))
        R.append(('order4:b.c.A.c', sum(b[i] * c[i] * A[i, j] * c[j] for i in range(s) for j in range(s)) - sp.Rational(1, 8)))
        R.append(('order4:b.A.c2', sum(b[i] * A[i, j] * c[j]**2 for i in range(s) for j in range(s)) - sp.Rational(1, 12)))
        R.append(('order4:b.A.A.c', sum(b[i] * A[i, j] * A[j, k] * c[k] for i in range(s) for j in range(s) for k in range(s)) - sp.Rational(1, 24)))
    return R


def ros_conditions(A, G, b, order):
    s = A.shape[0]
    B = A + G
    al = [sum(A[i, j] for j in range(s)) for i in range(s)]
    be = [sum(B[i, j] for j in range(s)) for i in range(s)]
    R = [('order1:sum_b', sum(b) - 1)]
    if order >= 2:
        R.append(('order2:b.beta', sum(b[i] * be[i] for i in range(s)) - sp.Rational(1, 2)))
    if order >= 3:
        R.append(('order3:b.alpha2', sum(b[i] * al[i]**2 for i in range(s)) - sp.Rational(1, 3)))
        R.append(('order3:b.B.beta', sum(b[i] * B[i, j] * be[j] for i in range(s) for j in range(s)) - sp.Rational(1, 6)))
    if order >= 4:
        R.append(('order4:b.alpha3', sum(b[i] * al[i]**3 for i in range(s)) - sp.Rational(1, 4)))
        R.append(('order4:b.alpha.A.beta', sum(b[i] * al[i] * A[i, j] * be[j] for i in range(s) for j in range(s)) - sp.Rational(1, 8)))
        R.append(('order4:b.B.alpha2', sum(b[i] * B[i, j] * al[j]**2 for i in range(s) for j in range(s)) - sp.Rational(1, 12)))
        R.append(('order4:b.B.B.beta', sum(b[i] * B[i, j] * B[j, k] * be[k] for i in range(s) for j in range(s) for k in range(s)) - sp.Rational(1, 24)))
    return R


def _wiring(src):
    """method name -> (factory, first-argument ast node, all args)"""
    out = {}
    for st in src.module.body:
        if isinstance(st, ast.Assign) and len(st.targets) == 1 and isinstance(st.targets[0], ast.Name) \
                and isinstance(st.value, ast.Call) and isinstance(st.value.func, ast.Name) \
                and st.value.func.id in ('dirk_method', 'adaptive_dirk_method', 'adaptive_rosenbrock_method', 'rosenbrock_method'):
            out[st.targets[0].id] = (st.value.func.id, st.value.args, st.lineno)
    return out


def _table(src, argnode):
    """evaluate the table expression: either `coeffs_x()` / `*coeffs_x()` or an inline np.array"""
    node = argnode.value if isinstance(argnode, ast.Starred) else argnode
    if isinstance(node, ast.Call) and isinstance(node.func, ast.Name) and node.func.id.startswith('coeffs_'):
        return exacteval.eval_function(src, src.find(node.func.id)), node.func.id
    return exacteval.eval_expr(src, node), 'inline'


def _ob(name, label, ok, desc, resid, line, srctxt):
    o = Obligation('solvers:%s:%s' % (name, label), 'table', line, [], None, desc, src=srctxt)
    o.status = 'proved' if ok else 'refuted'
    o.backend = 'exact-rational'
    o.time = 0.0
    if not ok:
        o.goal = '|residual| <= 5e-9 fails: residual = %s' % sp.N(resid, 20)
    return o


def table_obligations():
    src = frontend.load(F)
    wiring = _wiring(src)
    results = []
    names = list(DIRK_ORDERS) + list(ROS_METHODS)
    for name in names:
        t0 = time.time()
        res = {'contract': 'solvers:table:%s' % name, 'file': F, 'func': name, 'instance': {}, 'obligations': [],
               'status': 'ok', 'error': None, 'paths': 1, 'vacuous': False, 'notes': [], 'src_sha': src.sha, 'time': 0.0}
        try:
            if name not in wiring:
                raise KeyError('method %s is not defined at module level in solvers.py' % name)
            factory, args, line = wiring[name]
            srctxt = src.line(line).strip()
            obs = []
            if name in DIRK_ORDERS:
                if factory not in ('dirk_method', 'adaptive_dirk_method'):
                    raise KeyError('%s is no longer built by (adaptive_)dirk_method' % name)
                tab, fname = _table(src, args[0])
                main_order, emb_order = DIRK_ORDERS[name]
                err_order = None
                if isinstance(tab, tuple):
                    tab, err_order = tab[0], tab[1]
                elif factory == 'adaptive_dirk_method':
                    err_order = exacteval.eval_expr(src, args[1])
                s = tab.shape[1]
                A = tab[:s, :]
                b = list(tab[s, :])
                for (lab, r) in rk_conditions(A, b, main_order):
                    obs.append(_ob(name, lab + ':main', exacteval.small(r, TOL), 'order condition (main weights, documented order %d)' % main_order, r, line, srctxt))
                # the code reads b from row s and the stiffly-accurate shortcut from row s-1
                if name in DIRK_STIFFLY_ACCURATE:
                    ok = all(exacteval.small(tab[s, j] - tab[s - 1, j], sp.Rational(1, 10**8)) for j in range(s))
                    obs.append(_ob(name, 'stiffly-accurate', ok, 'b equals the last stage row (documented stiffly accurate)', 0, line, srctxt))
                lower = all(tab[i, j] == 0 for i in range(s) for j in range(i + 1, s))
                obs.append(_ob(name, 'lower-triangular', lower, 'DIRK: a_ij = 0 for j > i', 0, line, srctxt))
                if emb_order is not None:
                    ok = tab.shape[0] == s + 2
                    obs.append(_ob(name, 'has-embedded-row', ok, 'tableau carries an embedded weight row', 0, line, srctxt))
                    if ok:
                        bh = list(tab[s + 1, :])
                        for (lab, r) in rk_conditions(A, bh, emb_order):
                            obs.append(_ob(name, lab + ':emb', exacteval.small(r, TOL), 'order condition (embedded weights, documented order %d)' % emb_order, r, line, srctxt))
                    obs.append(_ob(name, 'err_order', err_order == emb_order, 'err_order passed to the step controller equals the documented embedded order %s' % emb_order, 0, line, srctxt))
            else:
                if factory != 'adaptive_rosenbrock_method':
                    raise KeyError('%s is no longer built by adaptive_rosenbrock_method' % name)
                tab, fname = _table(src, args[0])
                A, G, b, bh, err_order = tab
                b, bh = list(b), list(bh)
                s = A.shape[0]
                err_order = int(err_order)
                obs.append(_ob(name, 'gamma-diagonal', all(G[i, i] == G[0, 0] for i in range(s)), 'constant diagonal of Gamma (rosenbrock_step uses Gamma[0,0])', 0, line, srctxt))
                obs.append(_ob(name, 'strictly-lower', all(A[i, j] == 0 for i in range(s) for j in range(i, s)) and all(G[i, j] == 0 for i in range(s) for j in range(i + 1, s)),
                               'A strictly lower, Gamma lower triangular', 0, line, srctxt))
                obs.append(_ob(name, 'err_order', err_order in (2, 3), 'err_order in the documented range', 0, line, srctxt))
                for (lab, r) in ros_conditions(A, G, b, err_order + 1):
                    obs.append(_ob(name, lab + ':main', exacteval.small(r, TOL), 'order condition (main weights, order err_order+1 = %d)' % (err_order + 1), r, line, srctxt))
                for (lab, r) in ros_conditions(A, G, bh, err_order):
                    obs.append(_ob(name, lab + ':emb', exacteval.small(r, TOL), 'order condition (embedded weights, order err_order = %d)' % err_order, r, line, srctxt))
            from pyvc.solve import ob_dict
            res['obligations'] = [ob_dict(o) for o in obs]
        except KeyError as e:
            res['status'], res['error'] = 'missing', str(e)
        except Exception:
            import traceback
            res['status'], res['error'] = 'crash', traceback.format_exc()
        res['time'] = round(time.time() - t0, 3)
        results.append(res)
    return results
