#!/usr/bin/env python3
"""Regenerates MANIFEST.json from props/*.py (MANIFEST dict of each module) and tools/not_applicable.json."""
import importlib, json, os, sys
here = os.path.dirname(os.path.dirname(os.path.abspath(__file__)))
sys.path.insert(0, here)
checks = []
claimed = []
for f in sorted(os.listdir(os.path.join(here, 'props'))):
    if not (f.startswith('C') and f.endswith('.py')):
        continue
    pid = f[:-3]
    src = open(os.path.join(here, 'props', f)).read()
    ns = {}
    # the MANIFEST dict is a literal at the end of each props module
    start = src.index('MANIFEST = ')
    exec(src[start:], ns)
    m = ns['MANIFEST']
    claimed.append(pid)
    checks.append({
        'property_id': pid,
        'quick_cmd': './check %s quick' % pid,
        'thorough_cmd': './check %s thorough' % pid,
        'evidence_file': 'evidence/%s.json' % pid,
        'replay_cmd_template': './check replay {path}',
        'engine': 'pyvc',
        'level_claimed': {'category': m['category'], 'text': m['text'], 'design_ref': m.get('design_ref', 'DESIGN.md section 2, ' + pid)},
        'level_note': m['note'],
        'technique': m['technique'],
    })
na = json.load(open(os.path.join(here, 'tools', 'not_applicable.json')))
na = [x for x in na if x['property_id'] not in claimed]
man = {
    'version': 1,
    'setup_cmd': './setup.sh',
    'hooks': {'guard': 'PYIGA_VERIF', 'enable': 'no source hooks: contracts are sidecar files under /verif/contracts; checks read /repo sources directly',
              'baseline_off_cmd': 'cd /repo && /venv/bin/python -m pytest -ra -q -p no:cacheprovider --timeout=900 --continue-on-collection-errors',
              'source_commits': [], 'add_only': True},
    'engines': [{'name': 'pyvc', 'path': 'pyvc', 'serves_properties': claimed,
                 'kind_free_text': 'contract-based deductive verifier: Cython/Python front ends -> symbolic execution against sidecar contracts -> VCs discharged by z3/cvc5 (+ exact rational/polynomial normal forms); bounded run-time contracts on the real compiled code as labelled stand-in'}],
    'checks': checks,
    'not_applicable': na,
    'notes': 'See DESIGN.md. Exit codes: 0 held / 1 VIOLATION / 2 undecided / 3 checker error. known_findings.json lists recorded findings and fixed defects.',
}
json.dump(man, open(os.path.join(here, 'MANIFEST.json'), 'w'), indent=1)
print('MANIFEST: claimed', claimed, 'n/a', [x['property_id'] for x in na])
