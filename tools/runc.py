#!/usr/bin/env python3
"""tools/runc.py module[:contractname-substring] -- run contracts of a contract module and print a summary"""
import sys, os, importlib, time
sys.path.insert(0, os.path.dirname(os.path.dirname(os.path.abspath(__file__))))
from pyvc import solve
spec = sys.argv[1]
modname, _, sub = spec.partition(':')
mod = importlib.import_module('contracts.' + modname)
cs = [c for c in mod.CONTRACTS if sub in c.name]
t = time.time()
res = solve.run_contracts(cs, procs=int(os.environ.get('PROCS', '16')))
for r in res:
    bad = [o for o in r['obligations'] if o['status'] != 'proved']
    print('%-55s %-13s obl=%3d bad=%2d paths=%3d %6.1fs %s' % (r['contract'] + str(r['instance'] or ''), r['status'], len(r['obligations']), len(bad), r['paths'], r['time'], 'VACUOUS' if r['vacuous'] else ''))
    if r['error']:
        print('    ', r['error'][-1200:])
    for o in bad:
        print('    %s %s %s %.1fs  %s' % (o['id'], o['status'], o['backend'], o['time'], o.get('src', '')))
        if '-v' in sys.argv:
            print('       goal:', o.get('goal', '')[:400].replace('\n', ' '))
            print('       inputs:', str(o.get('inputs'))[:600])
            print('       locals:', str(o.get('locals'))[:600])
print('total %.1fs' % (time.time() - t))
