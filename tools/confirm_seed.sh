#!/bin/sh
# tools/confirm_seed.sh <Cxx> [name]  -- confirm a sub-agent's change in its scratch worktree and archive it under /verif/seeded/
P=$1; NAME=${2:-$P-a}; W=/tmp/wt_$P
cd $W || exit 2
needs_build=$(git diff --name-only | grep -E '\.(pyx|pxi|cc|pxd)$' | head -1)
run() { PYTHONPATH=$W /venv/bin/python "$@"; }
[ -n "$needs_build" ] && /venv/bin/python setup.py -q build_ext --inplace -j8 >/dev/null 2>&1
T=$(PYTHONPATH=$W timeout 1500 /venv/bin/python -m pytest -q -p no:cacheprovider --timeout=900 test 2>&1 | tail -1)
run mutation/demo.py > /tmp/demo_with_$P.txt 2>&1; RW=$?
git diff -- . ':!mutation' > /tmp/confirm_$P.diff; git checkout -- pyiga scripts setup.py 2>/dev/null
[ -n "$needs_build" ] && /venv/bin/python setup.py -q build_ext --inplace -j8 >/dev/null 2>&1
run mutation/demo.py > /tmp/demo_without_$P.txt 2>&1; RO=$?
git apply /tmp/confirm_$P.diff
[ -n "$needs_build" ] && /venv/bin/python setup.py -q build_ext --inplace -j8 >/dev/null 2>&1
echo "$P: tests: $T | demo with change exit=$RW | without exit=$RO"
if [ $RW -ne 0 ] && [ $RO -eq 0 ]; then
  D=/verif/seeded/$NAME; mkdir -p $D
  git diff -- . ':!mutation' > $D/patch.diff
  cp mutation/demo.py $D/demo.py
  /venv/bin/python - "$P" "$D" "$T" <<'PY'
import json,sys
p,d,t=sys.argv[1:4]
try: m=json.load(open('/tmp/wt_%s/mutation/meta.json'%p))
except Exception: m={}
m.update({'property':p,'confirmed_by_me':{'test_suite_with_change':t,'demo_with_change':open('/tmp/demo_with_%s.txt'%p).read()[-600:],'demo_without_change':open('/tmp/demo_without_%s.txt'%p).read()[-300:]}})
json.dump(m,open(d+'/meta.json','w'),indent=1)
PY
  echo "archived $D"
fi
