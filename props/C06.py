"""C06 -- the symbolic rewriting of a variational form preserves its value."""
from pyvc import solve
from contracts import vform_rewrite as R

LEVEL = 'proof'
BOUNDED_MODULE = 'bounded.C06'
EXPLANATION = ('expression trees of the real vform.py are given a denotation in sympy (pyvc/exprsem.py): basis functions, parametric fields and the '
               'geometry are undefined functions of the parametric coordinates, physical derivatives are DEFINED by the chain rule through the inverse '
               'Jacobian, dx/ds by |det J| resp. the normal length times the Gauss weights. Each rewriting/construction rule is applied to nodes with '
               'abstract leaves and its result must denote the mathematical operator applied to the children (exact identity for all environments); '
               'finalize() as a whole must preserve the denotation of every enumerated form (identity in all jets), leave the scalar normal form and '
               'order variables def-before-use.')
ASSUMPTIONS = ['the rule obligations quantify over all leaf values; that the rule code cannot distinguish other children than the kinds enumerated '
               '(opaque leaf, constants 0/1/-1/c, negation) is read off the rule source, not proved',
               'whole-finalize preservation is proved per enumerated form (all environments), not for all expression trees: unbounded in inputs, '
               'bounded in programs (42 forms + parametric/physical neighbours; all neighbours in the thorough and bounded tiers)',
               'space-time forms are interpreted over a space-time cylinder (time is the last coordinate and maps to itself), as vform documents',
               'sympy cancel/simplify is the trusted back end for rational-function identities; floating-point evaluation of the generated code is C01']


def contracts(tier):
    return []


def extra_obligations(tier):
    return [solve.custom_result('vform:rewrite-rules', R.FV, 'fold_constants / _dx_impl / grad / det / inv / ...', R.rule_obligations),
            solve.custom_result('vform:cse-criterion', R.FV, 'VForm.extract_common_expressions / Expr.hash', R.cse_obligations),
            solve.custom_result('vform:finalize-let-variables', R.FV, 'VForm.finalize / extract_common_expressions', R.let_form_obligations),
            solve.custom_result('vform:finalize', R.FV, 'VForm.finalize / VForm.add', lambda: R.finalize_obligations(tier))]


MANIFEST = {
    'category': 'proof',
    'technique': 'contract-based verification over a sympy denotational semantics of the real expression classes: one exact-identity obligation per rewrite/construction rule with abstract leaves, and finalize() postconditions (value preserved, normal form, def-before-use) discharged per enumerated form for all environments; numeric instantiation as bounded stand-in',
    'text': 'For ScalarOperExpr.fold_constants over every operator and every observable child kind, integer powers, the derivative rules of sums/products/quotients/let-variables/basis-function jets, grad/hess/div/curl, inner/dot/tr/det/inv/minor/cross/outer/norm, slicing/transposition/broadcasting, the lazy tensor nodes and their literal expansion, and the normal vectors: the result denotes the mathematical operation on the children for all values of the leaves (514 sympy identities). For every enumerated form VForm.finalize() yields expressions whose denotation equals the denotation before (physical first and second derivatives against the chain rule with the geometry Hessian, dx/ds against the Jacobian, space-time forms on a cylinder, input-field derivative arrays, CSE temporaries), leaves only scalar literal nodes, and linear_deps/precomp/kernel_deps are closed and def-before-use; VForm.add() stores for vector-valued forms exactly the component-substituted expressions; finalized forms reject further add/finalize.',
    'note': 'preservation by finalize is per enumerated form (unbounded in environments, bounded in programs); sympy trusted; space-time cylinder assumed as documented.',
}
