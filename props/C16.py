"""C16 -- linear-operator building blocks equal their dense definitions."""
from pyvc import solve
from contracts import operators_c16

LEVEL = 'other'
BOUNDED_MODULE = 'bounded.C16'
EXPLANATION = ('the structural half of the property is decided by executing the REAL operator classes of pyiga/operators.py over formal vectors '
               'and opaque linear maps (numpy/scipy replaced by the contracts of the few calls the classes make): block, block-diagonal and '
               'subspace-correction operators and their transposes/adjoints equal the block-matrix / sum_j P_j B_j P_j^T definitions for ALL '
               'vectors and ALL block operators, for every layout up to 3x3; KroneckerOperator hands the (transposed/adjoint) factors to the right '
               'application routine in order. The numeric half (Kronecker application by tensordot / Fortran-order sweeps, apply_tprod with '
               'placeholders and trailing axes, solver factories, fast diagonalisation, CSR row slices) is numpy/scipy array semantics and is '
               'decided by run-time comparison with dense definitions (bounded).')
ASSUMPTIONS = ['scipy.sparse.linalg.LinearOperator is reduced to its documented dispatch (dot -> _matvec/_matmat, .T -> _transpose(), .H -> _adjoint()); '
               'np.zeros(n) is the zero vector, ranges used as indices are pairwise identical or disjoint (checked during the formal run)',
               'block and factor operators are opaque linear maps: only their names, shapes, transposes and adjoints enter',
               'numpy reshapes/tensordot, LU/Cholesky and eigen-solvers are trusted; their use is checked numerically on the stated domain only',
               'layouts up to 3x3 blocks with fixed pairwise different block sizes; None is allowed only off the first row/column (the constructor '
               'reads the sizes from row 0 and column 0)']


def contracts(tier):
    return []


def extra_obligations(tier):
    _pu = solve.custom_result('paramuse:C16', 'pyiga/operators.py', 'all functions', __import__('pyvc.paramuse', fromlist=['x']).obligations(['pyiga/operators.py', 'pyiga/kronecker.py', 'pyiga/tensor.py'], 'paramuse'))
    _r = operators_c16.results()
    return list(_r) + [_pu]

MANIFEST = {
    'category': 'other',
    'technique': 'formal execution of the real operator classes over abstract vectors/linear maps (block, subspace, Kronecker dispatch: identities for all operands); run-time comparison with dense definitions for the array-level routines (bounded)',
    'text': 'For all vectors and all (opaque) block operators: BlockOperator with any layout of real/None/NullOperator blocks up to 3x3 acts as the block matrix, its transpose and adjoint as the transposed/adjoint block matrix, BlockDiagonalOperator as the block-diagonal matrix, SubspaceOperator as sum_j P_j B_j P_j^T (transpose with B_j^T, involutive); KroneckerOperator and its .T/.H pass the factors in order to the dense routine (all-dense or non-square factors) or the linear-operator routine, dense factors need no .H. Bounded on the compiled code: Kronecker products of 1-4 square/rectangular dense/sparse/LinearOperator factors applied to vectors, (n,1) and (n,k) arrays incl. transposes and adjoints, apply_tprod with None placeholders and trailing axes, apply_kronecker, diagonal/identity/null operators, make_solver (dense/sparse, general/symmetric/SPD), make_kronecker_solver, fastdiag_solver for 1D-3D Kronecker-sum Laplacians, CSRRowSlice/CSRRowSubset all equal their dense definitions.',
    'note': 'array-level routines and solver factories are bounded only; DiagonalOperator rejects length-1 diagonals by an explicit assertion (outside the domain). Bounded tier also: modek_tprod on every mode, apply_tprod on canonical/Tucker/sum/outer-product tensors, well-conditioned symmetric indefinite (saddle-point) matrices, column-major inputs; operators and factories leave their arguments unchanged.',
}
