"""C08 -- assembly is independent of symmetry flag, format, layout, subset, thread count."""
from pyvc import solve
from contracts import assemble_tools_c08 as A, mlmatrix

LEVEL = 'proof'
BOUNDED_MODULE = 'bounded.C08'
EXPLANATION = ('schedule independence is proved from contracts on the real driver code: chunk_tasks partitions the index range into consecutive non-empty '
               'slices that depend only on (length, chunk count); multi_entries_chunk/multi_blocks_chunk (dims 1-3) write out[k] exactly once with the '
               'value entry_impl computes from idx_arr[k] alone and touch nothing else; one prange iteration of _asm_core_vec_{1,2,3}d_kernel writes only '
               'rows mu0 and transp0[mu0], strictly-upper blocks write nothing, hence distinct iterations write disjoint rows (race lemma); entry_impl/'
               'combine of all shipped assemblers store only into locals and result[...]. from_seq1/2/3 are the mixed-radix digit maps (functional by '
               'the Horner lemma). Equality across formats/layouts/symmetric/subsets/bounding boxes/updates and bitwise equality across thread '
               'settings are run on the real compiled code (bounded).')
ASSUMPTIONS = ['C memory model: race-free programs are sequentially consistent per location; numpy/scipy format conversions (tocsr, asformat, bsr_matrix) and the '
               'ThreadPoolExecutor / OpenMP runtimes are trusted',
               'entry_impl is replaced by its frame contract in the driver contracts; the frame is checked syntactically on the 14 shipped assemblers '
               '(generated assemblers come from the same generator; their kernels are exercised by the bounded tier)',
               'the transp arrays satisfy the get_transpose_idx_for_bidx contract (index of the reversed pair): precondition of the kernel contracts, '
               'exercised by the bounded tier',
               'machine integers: index arithmetic is mathematical (sizes bounded by 2^40 in the preconditions)']


def contracts(tier):
    return A.CONTRACTS


def _update_params_coherence():
    from contracts import codegen_c01
    return codegen_c01.update_params_obligations()


def _update_coherence():
    from contracts import codegen_c01
    return codegen_c01.update_coherence_obligations()


def extra_obligations(tier):
    _pu = solve.custom_result('paramuse:C08', 'pyiga/assemble.py', 'all functions', __import__('pyvc.paramuse', fromlist=['x']).obligations(['pyiga/assemble.py'], 'paramuse'))
    _r = [solve.custom_result('assemble_tools_cy:prange[race-lemma]', A.F, '_asm_core_vec_*_kernel', A.race_lemma),
            solve.custom_result('assemble_tools_cy:assemble_vector[ravel-lemma]', A.F, 'assemble_vector / next_lexicographic', A.ravel_successor_lemma),
            solve.custom_result('assemblers:kernel-frames', 'pyiga/assemblers.pyx', 'entry_impl / combine', A.kernel_frame_obligations),
            solve.custom_result('assemble_tools_cy:zero-initialised-results', 'pyiga/genericasm.pxi', 'multi_entries / multi_blocks', A.zero_init_obligations),
            solve.custom_result('assemble_tools_cy:transpose-tables', A.F, 'generic_assemble_core_vec_*d', A.transpose_table_obligations),
            solve.custom_result('codegen:update-coherence', 'pyiga/codegen/cython.py', 'AsmGenerator.generate_update', _update_coherence),
            solve.custom_result('codegen:update_params-coherence', 'pyiga/codegen/cython.py', 'AsmGenerator.generate_update_params', _update_params_coherence)] + \
           [solve.custom_result('mlmatrix:to_seq[lemma L=%d]' % L, mlmatrix.F, 'to_seq', (lambda L=L: mlmatrix.horner_injective(L))) for L in (2, 3)]
    return list(_r) + [_pu]

MANIFEST = {
    'category': 'proof',
    'technique': 'contract-based verification: pyvc symbolic execution of the real Cython drivers (generator chunk_tasks with ghost yield sequence; chunk kernels and prange kernels against frame/functional contracts with entry_impl replaced by its contract), z3 race lemma, AST frame analysis of the shipped kernels; run-time comparison of all configurations on the compiled code as bounded stand-in',
    'text': 'Proved from the current source: chunk_tasks yields consecutive, non-empty slices covering range(len(tasks)) whose cut points depend only on len(tasks) and num_chunks (so the index and output generators agree); for dims 1-3, multi_entries_chunk and multi_blocks_chunk (block shapes 1x1, 2x2, 1x2, 2x1, 3x3) store into out[k] the entry computed from the digits of idx_arr[k] w.r.t. the test/trial dof counts and modify nothing else; _asm_core_vec_{1,2,3}d_kernel (1x1, 2x2, 3x3 components) writes only rows mu0 and transp0[mu0] of entries, nothing for strictly-upper blocks, stays in bounds, and two distinct prange iterations never write the same row; from_seq1/2/3 compute in-range digits that recompose the index; entry_impl/combine of the 14 shipped assemblers assign only locals and result[...]. Bounded on compiled code: csr/csc/coo/bsr/mlb x blocked/packed x symmetric agree up to the documented permutation (incl. 2x1 and 1x2 component blocks on two spaces), thread settings 1,2,3,5,16 give bitwise identical matrices, multi_entries/multi_blocks/entry on arbitrary index lists, partial rows and on-demand bounding boxes reproduce the full matrix, update()/update_params() equal fresh construction, assembler objects are reusable.',
    'note': 'value-level equality across configurations is bounded; scipy/numpy conversions, thread runtimes and the C memory model are trusted; 1D symmetric assembly is explicitly unsupported by the library (assertion).',
}
