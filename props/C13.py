"""C13 -- form-compilation caching never substitutes a different assembler."""
from contracts import vform_hash

LEVEL = 'proof'
BOUNDED_MODULE = 'bounded.C13'
EXPLANATION = ('with python tuple hashing modelled as injective, cache-key soundness is a data-flow fact generated mechanically from the current '
               'source: every identifying __init__ attribute of every Expr subclass flows into hash_key (Expr.hash adds type, shape, child hashes), '
               'every attribute of BasisFun/InputField/Parameter/AsmVar/VForm the generator reads is hashed, the in-process key carries on_demand, '
               'lookup and insertion use the same key, and the on-disk module name is a function of the source text only. hash-equal => '
               'code-equal is additionally run on enumerated forms and all their one-token neighbours, and the shipped generated files are '
               'compared with regeneration (bounded).')
ASSUMPTIONS = ['hash() of a tuple is injective (residual 2^-64 collision probability of the 64-bit hash is inherent)',
               'the lists of attributes the code generator reads from BasisFun/InputField/Parameter/AsmVar/VForm are fixed in the contract file',
               'generated code is compared up to the numbering of temporaries and the order of independent statements (the generator iterates over '
               'sets of objects, so both vary between runs for one form)']


def contracts(tier):
    return []


def extra_obligations(tier):
    from pyvc import solve
    _pu = solve.custom_result('paramuse:C13', 'pyiga/vform.py', 'all functions', __import__('pyvc.paramuse', fromlist=['x']).obligations(['pyiga/vform.py', 'pyiga/compile.py'], 'paramuse'))
    _r = [vform_hash.hash_obligations(), vform_hash.compile_obligations(),
            solve.custom_result('vform:memo-coherence', vform_hash.FV, 'VForm.hash / VForm.add', vform_hash.memo_coherence_obligations),
            solve.custom_result('vform:numeric-keys', vform_hash.FV, 'ConstExpr.hash_key / VForm.hash', vform_hash.numeric_key_obligations)]
    return list(_r) + [_pu]

MANIFEST = {
    'category': 'proof',
    'technique': 'contract-based verification by mechanically generated data-flow obligations on the hash/hash_key methods (hash modelled as injective); hash-equal => code-equal on mutation-neighbour form pairs as bounded stand-in',
    'text': 'For every Expr subclass in vform.py the obligations "attribute X assigned in __init__ flows into hash_key()" are generated from the AST on every run (a new subclass or attribute without hash coverage fails by itself); Expr.hash covers type, shape, hash_key and child hashes; BasisFun, InputField, Parameter, AsmVar and VForm hash every attribute the generator reads (incl. geo_dim and the boundary flag); the in-process cache key contains vf.hash() and on_demand, get/put use the same key, pre-seeded entries use on_demand=False, and the module name depends on the source text only through a process-independent digest. On 42 enumerated forms, all pairs and all one-token mutation neighbours: equal key implies equal generated code; compile_vform returns the shipped class for each predefined form; shipped assemblers.pyx/genericasm.pxi equal regeneration under several PYTHONHASHSEED values (bounded).',
    'note': 'hash injectivity assumed; attribute read-sets fixed in the contract; comparison modulo temporaries numbering/statement order.',
}
