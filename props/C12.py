"""C12 -- time integrators realise consistent RK/Rosenbrock schemes of their stated order."""
from contracts import solvers, solvers_tables, solvers_steps

LEVEL = 'proof'
BOUNDED_MODULE = 'bounded.C12'
EXPLANATION = ('order conditions of the 12 shipped tableaux by exact rational/algebraic evaluation of the literals in the '
               'current source; stage equations of dirk_step/rosenbrock_step as formal-vector identities for all coefficient '
               'values (finite: tableau shapes); newton exit condition and the constant/adaptive step controllers by VCs with '
               'loop invariants over abstract vectors.  The real drivers are run on y\' = const (every shipped integrator, five decades of step sizes, '
               'identity / SPD / no mass matrix) as a bounded stand-in for what the assumed Newton contract hides (finite tolerances).')
ASSUMPTIONS = [
    'order-condition tolerance 5e-9 on exactly evaluated residuals (tables print 10-20 digits)',
    'documented orders are read from the comments next to each DIRK table; for Rosenbrock tables main order = err_order+1, embedded = err_order',
    'dirk_step/rosenbrock_step: newton(G,..) returns y with G(y)=0 and evaluates G last at y; make_solver is an exact inverse; '
    'np.allclose(b, last row) is read as equality of the rows (tolerance 1e-8)',
    'tableau shapes are finite: stage count <= 3 (quick) / 5 (thorough); coefficients, state, step size, F, J, M symbolic',
    'controllers: the stepper is an arbitrary function that either returns fresh vectors (of the length of x) or raises NoConvergenceError; '
    'r**(-1/err_order) is an uninterpreted positive real; termination of the adaptive loop is not proved',
]
TRUSTED = ['sympy (exact rational / algebraic arithmetic, expansion of polynomial coefficients)']


def contracts(tier):
    return solvers.CONTRACTS_C12


def extra_obligations(tier):
    from pyvc import solve
    _pu = solve.custom_result('paramuse:C12', 'pyiga/solvers.py', 'all functions', __import__('pyvc.paramuse', fromlist=['x']).obligations(['pyiga/solvers.py'], 'paramuse'))
    _r = solvers_tables.table_obligations() + solvers_steps.step_obligations(tier) + solvers_steps.wiring_obligations(tier)
    return list(_r) + [_pu]

MANIFEST = {
    'category': 'proof',
    'technique': 'contract-based deductive verification (plus a bounded run of the real drivers on y\'=const): exact evaluation of the coefficient code + algebraic order conditions; formal-vector stage identities on the real step functions; z3 VCs with loop invariants for newton and the step controllers',
    'text': 'Every shipped tableau (7 DIRK, 5 Rosenbrock) is re-read from the current source, evaluated in exact arithmetic and checked against the order conditions of its documented main and embedded order, lower-triangularity, stiff accuracy and constant Gamma diagonal. The real dirk_step and rosenbrock_step are executed over formal vectors with their dependencies replaced by contracts and must produce exactly the stage equations, update and embedded estimate of an arbitrary tableau. newton, the constant-step and the adaptive-step controllers are verified with loop invariants: times t0+k*tau with one state per time; strictly increasing times reaching t_end, steps appended only after r<=1, step factors within [0.2,5]; newton returns only points whose residual was tested below the tolerance and otherwise raises.',
    'note': 'double treated as real; tolerance 5e-9 on exact residuals; finite stage-count bound for the step identities (s<=3 quick, s<=5 thorough); newton/make_solver/np.allclose contracts assumed; adaptive-loop termination not proved; the real Newton solver with its finite tolerances is only exercised by the bounded y\'=const runs. Known finding: dirk34 table violates its documented order conditions (known_findings.json). Bounded tier also: one step of each Rosenbrock driver on M y\' = L y + g against the stage equations written out from its tables; column-major and 1x1 mass matrices, which the integrators must leave unchanged.',
}
