"""C05 -- every transfer between nested spline spaces preserves the function."""
from pyvc import solve
from contracts import bspline_c05, bspline

LEVEL = 'other'
BOUNDED_MODULE = 'bounded.C05'
EXPLANATION = ('proved on the real code: bspline.knot_insertion computes exactly the matrix of Boehm\'s knot-insertion algorithm (rows outside the '
               'affected span are unit rows, rows k-p < i <= k carry (1-a_i, a_i) with a_i = (u-t_i)/(t_{i+p}-t_i) in [0,1], all denominators positive, '
               'all stores in range), using KnotVector.findspan through its C19 contract. That Boehm\'s matrix represents the same function is the '
               'classical theorem, cross-checked numerically. Every other transfer (prolongation by collocation solve, refine(), HB/THB representation '
               'matrices, HSplineFunc evaluation, prolongate_to along refinement histories, virtual-hierarchy prolongators, boundary restriction, and '
               'an incrementally refined space with warmed caches against a freshly built one) is decided by run-time "same function" contracts on '
               'the compiled code (bounded).')
ASSUMPTIONS = ['Boehm\'s theorem (the matrix proved to be computed represents the same spline over the refined knot vector) is cited, not mechanised',
               'scipy.sparse.lil_matrix is modelled as a zero matrix with element assignment; real instead of floating-point arithmetic',
               'function equality in the bounded tier is equality on p+2 points per finest cell and direction (which determines the piecewise polynomial) '
               'to 1e-10 relative; hierarchical splines are evaluated through the definition (sum of active B-splines per level), THB coefficients '
               'through thb_to_hb (itself checked in C04)']


def contracts(tier):
    from contracts import hierarchical
    return bspline_c05.CONTRACTS + [bspline.findspan_m, hierarchical.position_index]


def extra_obligations(tier):
    from contracts import hierarchical
    _pu = solve.custom_result('paramuse:C05', 'pyiga/hierarchical.py', 'all functions', __import__('pyvc.paramuse', fromlist=['x']).obligations(['pyiga/hierarchical.py', 'pyiga/bspline.py', 'pyiga/utils.py'], 'paramuse'))
    _r = [solve.custom_result('hierarchical:HSpace[cache-invalidation]', hierarchical.F, 'HSpace.refine / _clear_cache', hierarchical.cache_invalidation_obligations),
            solve.custom_result('hierarchical:basis-flag', hierarchical.F, 'represent_fine / coeffs_to_levelwise_funcs / grid_eval / HSplineFunc', hierarchical.basis_flag_obligations)]
    return list(_r) + [_pu]

MANIFEST = {
    'category': 'other',
    'technique': 'contract-based verification of knot_insertion against Boehm\'s formula by pyvc symbolic execution (loop invariants over the matrix rows, findspan by contract); all other transfers: run-time same-function contracts on the real code over enumerated nested pairs and refinement histories (bounded)',
    'text': 'Proved: knot_insertion(kv,u) for every open knot vector and kv[p] <= u < kv[n]: result is the (n+1) x n matrix with unit rows outside the affected span and rows (1-a_i, a_i), a_i = (u-t_i)/(t_{i+p}-t_i) in [0,1] inside, i.e. Boehm\'s algorithm; no division by zero, no index error. Bounded on the compiled code: knot_insertion and prolongation reproduce the function for degrees 0-6 incl. inserting existing knots and near-degenerate spans; refine() yields nested knot vectors; represent_fine and HSplineFunc (values, Jacobian, Hessian, single point) equal the definition of the hierarchical spline; prolongate_to preserves the function for all pairs of prefixes of exhaustive short and random deep refinement histories (disparity 1, 2, inf); HB virtual-hierarchy prolongators composed from every level span exactly that level\'s space and from level 0 reproduce the tensor-product function; boundary restriction equals the trace; an incrementally refined HSpace with warmed caches stays identical to a freshly built one. THB virtual-hierarchy prolongators on 3+ levels violate the property on the listed histories (known findings).',
    'note': 'only knot_insertion is proved (plus the cache-invalidation and basis-flag-default obligations on hierarchical.py: truncate=None resolves to the flag of the space, an explicit flag is kept); everything else bounded. Known findings: THB virtual_hierarchy_prolongators (12 listed histories). Fixed in /repo: prolongate_to under finite disparity; prolongation from a one-function space.',
}
