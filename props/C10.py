"""C10 -- eliminating Dirichlet dofs is algebraically exact for any index set."""
from pyvc import solve
from contracts import assemble_bc

LEVEL = 'proof'
BOUNDED_MODULE = 'bounded.C10'
EXPLANATION = ('RestrictedLinearSystem (the real class, executed over formal vectors/operators with the selection algebra of mask indexing) satisfies '
               'for all A, b, values, u: prescribed values on the eliminated dofs, the restricted system is exactly the original system on the '
               'non-eliminated equations, restrict/extend/complete/restrict_matrix are mutually consistent (also with elim_rows); the "all" shorthand '
               'expands to exactly the 2*dim faces. Which dof each value lands on for unsorted index arrays, slice_indices, boundary values and '
               'combine_bcs are checked on the real code (bounded, exact integer arithmetic).')
ASSUMPTIONS = ['I[mask] / I[~mask] are complementary row selections (R_f R_f^T = I, R_e R_e^T = I, R_f R_e^T = 0); np.asarray(values)[np.argsort(indices)] '
               'is the value vector in the row order of R_elim -- the index-level content of these two facts is bounded only',
               'matrices are linear maps on formal vectors; no numerical error']
TRUSTED = ['sympy (coefficient arithmetic of formal vectors)']


def contracts(tier):
    return []


def extra_obligations(tier):
    _pu = solve.custom_result('paramuse:C10', 'pyiga/assemble.py', 'all functions', __import__('pyvc.paramuse', fromlist=['x']).obligations(['pyiga/assemble.py', 'pyiga/approx.py'], 'paramuse'))
    _r = [assemble_bc.rls_obligations(),
            solve.custom_result('assemble:compute_dirichlet_bcs', assemble_bc.F, 'compute_dirichlet_bcs', assemble_bc.all_shorthand_obligations),
            solve.custom_result('assemble:Multipatch.compute_dirichlet_bcs', assemble_bc.F, 'Multipatch.compute_dirichlet_bcs', assemble_bc.multipatch_bc_obligations)]
    return list(_r) + [_pu]

MANIFEST = {
    'category': 'proof',
    'technique': 'contract-based verification by symbolic execution of the real class over formal vectors/operators (dependencies replaced by their contracts) and pyvc symbolic execution with recorded callee calls; exact-integer run-time contracts as bounded stand-in for index-level clauses',
    'text': 'For every matrix, right-hand side, value vector and free vector the real RestrictedLinearSystem code yields: complete(u) restricted to the eliminated dofs equals the prescribed values, restricted to the free dofs equals u; A_r u - b_r equals the residual of the completed vector on every non-eliminated equation (so a solution of the restricted system solves those equations), restrict(extend(u)) = u, restrict_matrix(B) = R_v B R^T -- with and without elim_rows. compute_dirichlet_bcs expands ("all", f) to exactly the 2*dim faces and does not mistake a two-element condition list for it. The index-level clauses (each value on its own dof for every ordered index subset, slice_indices with flips, each boundary dof once, blocked vector numbering, values interpolating the data, combine_bcs keeping one given value per dof, space-time initial conditions) are exhaustively or densely checked on the real code with exact integer data (bounded).',
    'note': 'selection-matrix algebra assumed for mask indexing; index-level clauses bounded; known finding: 1D spaces are not supported by compute_dirichlet_bc.',
}
