"""C02 -- B-spline basis evaluation is exact, local, non-negative and sums to one."""
from contracts import bspline_cy, bspline, bspline_exact

LEVEL = 'proof'
BOUNDED_MODULE = 'bounded.C02'
EXPLANATION = ('(a) for every degree p<64, every derivative count and every open knot vector: memory safety of the unchecked kernel '
               'bspline_active_deriv_single (64-entry stack buffers, NDU, result), positivity of every denominator, non-negative values, span '
               'lookup with right-continuity; (b) for p<=4 (thorough 5) and derivative orders 0..p+2: every output entry is *identically* the '
               'corresponding derivative of the Cox-de Boor recursion as a rational function of the knots and u, hence partition of unity, '
               'zero derivative sums, vanishing orders > p; (c) all evaluation routes vs an exact rational oracle on enumerated knot vectors (bounded).')
ASSUMPTIONS = ['double as real: rounding accuracy is only sampled by the bounded tier (tolerance 5e-10 * scale * 4^order against exact rationals)',
               'C int overflow of fac = p!/(p-k)! for p >= 13 is outside the contract (property range p <= 12)',
               'the exact Cox-de Boor identities are finite in p (p <= 4 quick, 5 thorough); knots, u symbolic',
               'np.empty contents are unconstrained; every entry read is written first on the executed paths (symbolic execution would expose a read of a fresh symbol in the identities)']
TRUSTED = ['sympy cancel/together (normal form of rational functions over Q)']


def contracts(tier):
    return bspline_cy.CONTRACTS + [bspline.first_active, bspline.findspan_m, bspline.first_active_at]


def extra_obligations(tier):
    return bspline_exact.exact_obligations(tier)


MANIFEST = {
    'category': 'proof',
    'technique': 'contract-based deductive verification: pyvc VCs with quantified loop invariants (z3/cvc5) for all degrees; symbolic execution of the real kernel + exact rational-function identities against the Cox-de Boor recursion (sympy) per degree; exact-rational oracle as bounded stand-in for the numpy routes',
    'text': 'The compiled basis kernel is verified from its Cython source. For all p<64 and all derivative counts every array access is in bounds, every divisor is a positive knot difference, the values are non-negative and the span is the unique right-continuous one. For p<=4 (5 in thorough) the kernel output is proved identical, entry by entry and for all knots and parameter values, to the derivatives (orders 0..p+2) of the Cox-de Boor recursion, which gives sum-to-one, zero-sum derivatives and vanishing orders above p. active_ev/single_ev/collocation/collocation_derivs/splev routes, compute_values_derivs and tensor grid evaluation are compared with an exact rational oracle at knots, end points, adjacent doubles and interior points (bounded).',
    'note': 'double as real in the proofs; exact identities finite in p; fac overflow for p>=13 excluded; sympy/z3/cvc5 trusted; bounded domain in evidence. Bounded tier also: float32/integer and strided point arrays on the routes that accept them.',
}
