"""C01 -- compiled assemblers compute exactly the integrand the variational form denotes."""
from pyvc import solve

LEVEL = 'other'
BOUNDED_MODULE = 'bounded.C01'
EXPLANATION = ('decided per enumerated program: (proof tier, see contracts/codegen_c01.py) the kernel text the real code generator emits for a form is '
               'parsed back and its accumulated integrand must equal the denotation of the un-finalized form for all jets; (bounded tier) the '
               'compiled assembler is run and every entry compared with the Gauss-Legendre sum of the form\'s denotation evaluated independently.')
ASSUMPTIONS = ['all programs of the grammar cannot be enumerated: 44 forms (+ one-token neighbours in the thorough tier); per form the bounded '
               'comparison uses 1-3 spaces/geometries',
               'the reference trusts collocation_derivs (C02), numpy Gauss-Legendre nodes, sympy and the denotational semantics of pyvc/exprsem.py '
               '(shared with C06)',
               'boundary-integral forms and forms needing derivatives of python-callable fields are not in the bounded domain']


def contracts(tier):
    # generic drivers: which index pair / multi-index every output element is computed from (shared with C08)
    from contracts import assemble_tools_c08 as A
    return A.FROM_SEQ + A.NEXT_LEX + A.ASM_VECTOR + [c for c in A.CHUNK_KERNELS if '[' not in c.name or '[1x1]' in c.name or '[2x1]' in c.name]


def extra_obligations(tier):
    from contracts import codegen_c01, assemble_tools_c08 as A
    from contracts import vform_rewrite as R
    # the kernels are compared with the denotation of the expression TREE; that the tree built by the surface syntax (grad, div, curl,
    # inner, dot, slices, ...) denotes the mathematical operator is the rule set shared with C06
    return codegen_c01.results(tier) + [solve.custom_result('assemble_tools_cy:assemble_vector[ravel-lemma]', A.F, 'assemble_vector / next_lexicographic', A.ravel_successor_lemma),
                                        solve.custom_result('vform:operator-meaning', R.FV, 'grad / div / curl / inner / dot / tensor algebra / slices', R.rule_obligations)]


MANIFEST = {
    'category': 'other',
    'technique': 'per enumerated form: parse-back of the generated Cython kernel (symbolic execution of precompute/kernel text over sympy) against the denotation of the form; compiled assemblers compared with an independent quadrature of the denotation (bounded)',
    'text': 'For each of the enumerated forms (scalar and vector-valued, mass/stiffness/convection/div/curl/Hessian/space-time/surface, parametric and physical fields, parameters, builtin functions, two-space Petrov-Galerkin): the integrand accumulated by the generated kernel, with the precomputed fields it reads, equals the mathematical value of the un-finalized form for all values of basis-function, field and geometry jets (exact sympy identity); the compiled assembler builds, loads and its matrix/vector equals the Gauss-Legendre sum (max degree+1 nodes per span) of that value for every pair of basis functions on random mixed-degree spaces with repeated knots and non-affine B-spline geometries (bounded, 1e-9 relative).',
    'note': 'per enumerated program only; the meaning of the surface operators (grad, div, curl, inner, dot, slices on all shapes) is the rule set shared with C06; boundary forms and derivatives of callable fields outside the domain; source-field slot layout and __init__ glue covered by the bounded tier only. Bounded tier also: a form, its one-token neighbours and the form again compiled and assembled in one process (in-process assembler cache); boundary integrals on all four sides in sequence with one shared args dict.',
}
