"""C04 -- hierarchical spaces stay well-formed under every refinement history."""
from contracts import hierarchical

LEVEL = 'proof'
BOUNDED_MODULE = 'bounded.C04'
BOUNDED_TIMEOUT = {'quick': 1500, 'thorough': 7200}
EXPLANATION = ('HMesh.refine is verified for every number of levels, every state satisfying the region invariants and every admissible marking: '
               'deactivated = old u marked, active = (old - marked) u children(marked one level below), the returned new cells are those '
               'children, and the invariants I1 (active and deactivated disjoint) and I2 (region of level l = children of the deactivated cells of '
               'level l-1) are preserved -- from which "active cells tile the domain exactly once" follows by induction over levels; the '
               'children/parent algebra on integer tuples is verified for dim 1..3. Function activation (F1-F3), linear independence, THB '
               'partition of unity/non-negativity, HB<->THB transforms, disparity, incidence matrix and container kinds are checked on the real '
               'code over exhaustive short histories and random longer ones (bounded).')
ASSUMPTIONS = ['cells are an uninterpreted sort with parent : Cell -> Cell; cell_children(lv, C) = {c : parent(c) in C} is the contract used inside '
               'HMesh.refine and is verified separately on integer tuples for dim 1..3 (one cell)',
               'marked is a total map level -> set; the marks are active cells (HSpace.refine only adds active cells; bounded for _mark_recursive); '
               'levels already exist (ensure_levels no-op)',
               'tiling from I1+I2+Omega_0: induction over levels, argued in DESIGN.md (not mechanised)',
               'HSpace.refine/_functions_to_deactivate/_mark_recursive and all matrix-valued clauses are bounded only']


def contracts(tier):
    return hierarchical.CONTRACTS


def extra_obligations(tier):
    from pyvc import solve
    return [solve.custom_result('hierarchical:HSpace[cache-invalidation]', hierarchical.F, 'HSpace.refine / _clear_cache', hierarchical.cache_invalidation_obligations)]


MANIFEST = {
    'category': 'proof',
    'technique': 'contract-based deductive verification (pyvc: list-of-sets state over an uninterpreted cell sort, quantified loop invariant, z3); exhaustive/random refinement histories on the real code as bounded stand-in for the function-level and matrix-level clauses',
    'text': 'The mesh transition HMesh.refine is proved from source for all level counts, states and markings to realise the intended set equations and to preserve the region invariants that imply the exact tiling; cell_children/cell_parent are proved to be mutually consistent enumerations (2^d distinct children, each with the right parent, complete) for d = 1..3. On all sequences of <=2 (thorough 3) refine calls over all non-empty subsets of active cells for small 1D meshes and the 2D 2x2 mesh, plus random multi-level histories in 1D-3D with p<=3, disparity in {1,2,inf}, both bases, marks as set/list/tuple: region invariants and tiling, activation iff support in region l but not in region l+1, deactivation iff in both, canonical order, linear independence, THB non-negativity and partition of unity, thb_to_hb/hb_to_thb mutually inverse and consistent, disparity bound, incidence matrix and support queries agree with the geometry (bounded).',
    'note': 'uninterpreted cell sort; function-level and matrix-level clauses bounded; tiling bridge argument in DESIGN.md.',
}
