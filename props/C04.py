"""C04 -- hierarchical spaces stay well-formed under every refinement history."""
from contracts import hierarchical

LEVEL = 'proof'
BOUNDED_MODULE = 'bounded.C04'
BOUNDED_TIMEOUT = {'quick': 1500, 'thorough': 7200}
EXPLANATION = ('HMesh.refine is verified for every number of levels, every state satisfying the region invariants and every admissible marking: '
               'deactivated = old u marked, active = (old - marked) u children(marked one level below), the returned new cells are those '
               'children, and the invariants I1 (active and deactivated disjoint) and I2 (region of level l = children of the deactivated cells of '
               'level l-1) are preserved -- from which "active cells tile the domain exactly once" follows by induction over levels; the '
               'children/parent algebra on integer tuples is verified for dim 1..3. The activation clause is verified as an inductive invariant '
               'F-inv of HSpace.refine (f active on level l <=> supp f inside region l and not inside region l+1; deactivated <=> inside region l+1) '
               'over an uninterpreted function sort with a support relation: _functions_to_deactivate computes exactly the marked active functions '
               'without an active cell, and the activation loop re-establishes F-inv on every level, using HMesh.refine and '
               '_functions_to_deactivate through their contracts; appending levels (_ensure_levels/_add_level/add_level) preserves all invariants. The admissibility marking pass is closed under the neighbourhood operator on '
               'every level and keeps the marks inside the active cells (contract of _cell_neighborhood), which is HMesh.refine\'s precondition. '
               'Linear independence, THB partition of unity/non-negativity, HB<->THB transforms, the disparity bound itself, incidence matrix and '
               'container kinds are checked on the real code over exhaustive short histories and random longer ones (bounded), which also '
               're-check the proved clauses natively.')
ASSUMPTIONS = ['cells are an uninterpreted sort with parent : Cell -> Cell; cell_children(lv, C) = {c : parent(c) in C} is the contract used inside '
               'HMesh.refine and is verified separately on integer tuples for dim 1..3 (one cell)',
               'basis functions are an uninterpreted sort with a support relation insupp(level, f, cell), supports non-empty; TPMesh.supported_in / '
               'TPMesh.support are used through their contracts over insupp.  Those contracts are verified separately on integer tuples for '
               'dim 1..3 (support = union of boxes of the per-axis cell ranges; supported_in = the functions whose box meets the cells, stated '
               'over the SAME relation) given the per-axis lemma proved for _compute_supported_functions (cell k carries exactly the functions '
               'j with lo_j <= k < hi_j, for monotone range tables); that TPMesh.__init__ builds suppfunc from meshsupp with that function and '
               'that mesh_support_idx_all yields monotone in-range tables are not under contract (bounded tier)',
               'marked is a total map level -> set (absent key = empty set); the marks passed by the user are active cells; in the refine contracts '
               'the levels already exist (precondition) -- that _ensure_levels establishes this while preserving every invariant (I1, I2, I3 = no '
               'deactivated cells on the finest level, F-inv, list lengths) is proved separately (HMesh.add_level, HSpace._add_level, '
               'HSpace._ensure_levels; the refined TPMesh and the prolongators appended there are outside the modelled state)',
               'HSpace.refine is verified in two parts that meet at the statement after the marking block: the marking-pass contract (stops there) and '
               'the activation contract (marking block replaced by "marked is the dictionary after the pass")',
               'tiling from I1+I2+Omega_0: induction over levels, argued in DESIGN.md (not mechanised)',
               'matrix-valued clauses (independence, truncation, transforms), the disparity bound as a statement about supports, and container kinds '
               'are bounded only']


def contracts(tier):
    from contracts import hier_support
    return hierarchical.CONTRACTS + hier_support.CONTRACTS


def extra_obligations(tier):
    from pyvc import solve
    return [solve.custom_result('hierarchical:HSpace[cache-invalidation]', hierarchical.F, 'HSpace.refine / _clear_cache', hierarchical.cache_invalidation_obligations),
            solve.custom_result('hierarchical:refine[max-marked-level]', hierarchical.F, 'HMesh.refine / HSpace.refine', hierarchical.max_level_obligations)]


MANIFEST = {
    'category': 'proof',
    'technique': 'contract-based deductive verification (pyvc: list-of-sets state over an uninterpreted cell and function sorts, quantified loop invariants, callee contracts, z3); exhaustive/random refinement histories on the real code as bounded stand-in for the matrix-level clauses',
    'text': 'The mesh transition HMesh.refine is proved from source for all level counts, states and markings to realise the intended set equations and to preserve the region invariants that imply the exact tiling; cell_children/cell_parent are proved to be mutually consistent enumerations (2^d distinct children, each with the right parent, complete) for d = 1..3. The activation clause (active iff support in region l but not in region l+1, deactivated iff in both) is proved as an inductive invariant of HSpace.refine for all level counts, states and markings over an abstract support relation (_functions_to_deactivate and the activation loop under contract, HMesh.refine used through its contract); the marking pass is proved closed under the neighbourhood operator and to keep marks inside the active cells. On all sequences of <=2 (thorough 3) refine calls over all non-empty subsets of active cells for small 1D meshes and the 2D 2x2 mesh, plus random multi-level histories in 1D-3D with p<=3, disparity in {1,2,inf}, both bases, marks as set/list/tuple: region invariants and tiling, the activation clause again on real tensor-product supports, canonical order, linear independence, THB non-negativity and partition of unity, thb_to_hb/hb_to_thb mutually inverse and consistent, disparity bound, incidence matrix and support queries agree with the geometry (bounded).',
    'note': 'uninterpreted cell and function sorts (support relation assumed for TPMesh.support/supported_in); matrix-level clauses and the disparity bound bounded; tiling bridge argument in DESIGN.md. Fixed in /repo: refinement calls that mark nothing (empty containers, region predicates matching no cell) are no-ops instead of raising; max_lv is modelled with its -1 branch and its statement pinned by an obligation.',
}
