"""C09 -- tensor-product fast paths and closed-form Galerkin matrix identities hold."""
from pyvc import solve
from contracts import assemble_tools_cy, assemble_fast

LEVEL = 'proof'
BOUNDED_MODULE = 'bounded.C09'
EXPLANATION = ('the closed-form determinant/inverse kernels (2x2, 3x3; compiled, unchecked) are verified for all real inputs with non-zero '
               'determinant: Leibniz determinant, Y X = X Y = I at the moment the last entry is stored, every access in bounds, determinants_3x3 '
               'with a full quantified postcondition; the default quadrature orders satisfy 2 nqp - 1 >= degree of the integrand; the '
               'geometry-free mass/stiffness routines are exactly the Kronecker sums K(x)M + M(x)K (factors in knot-vector order). The numeric '
               'identities are checked against exact rational integrals of the piecewise polynomials (bounded).')
ASSUMPTIONS = ['double as real; determinant non-zero is the precondition of the inverse kernels',
               'inverse identities are write-time contracts at the last store of each loop body (all nine/four entries of the current matrix)',
               'scipy.sparse.kron is a bilinear associative formal product in the Kronecker-structure obligations; bsp_mass_1d/bsp_stiffness_1d are '
               'replaced by symbols there',
               'fast low-rank assembly, SPD-ness, sums = measure and exactness of load vectors are bounded only']
TRUSTED = ['z3 nonlinear real arithmetic (nlsat)']


def contracts(tier):
    return assemble_tools_cy.CONTRACTS + assemble_fast.CONTRACTS


def extra_obligations(tier):
    _pu = solve.custom_result('paramuse:C09', 'pyiga/assemble.py', 'all functions', __import__('pyvc.paramuse', fromlist=['x']).obligations(['pyiga/assemble.py'], 'paramuse'))
    _r = [solve.custom_result('assemble:kronecker-structure', assemble_fast.F, 'bsp_stiffness_3d', assemble_fast.kronecker_structure),
            solve.custom_result('fast_assemble_cy:wrappers', 'pyiga/fast_assemble_cy.pyx', 'fast_assemble_2d_wrapper / fast_assemble_3d_wrapper', assemble_fast.fast_wrapper_obligations),
            solve.custom_result('assemble:measure-factor', 'pyiga/assemble.py', 'inner_products / integrate', assemble_fast.measure_factor_obligations),
            solve.custom_result('assemble:1d-wrappers', 'pyiga/assemble.py', 'bsp_mass_1d / bsp_stiffness_1d / bsp_mass_1d_asym / bsp_stiffness_1d_asym', assemble_fast.wrapper_forwarding_obligations)]
    return list(_r) + [_pu]

MANIFEST = {
    'category': 'proof',
    'technique': 'contract-based deductive verification (pyvc VCs with loop invariants and write-time contracts, z3 nonlinear real arithmetic); formal Kronecker-term execution of the real functions; exact rational Galerkin integrals as bounded stand-in',
    'text': 'det_and_inv_2x2/3x3, inverses_2x2/3x3 and determinants_3x3 are verified from the Cython source for every array size: all accesses in bounds, det is the Leibniz determinant, and the stored matrix is the two-sided inverse whenever det != 0 (polynomial identities discharged by z3); bsp_mixed_deriv_biform_1d(_asym) and inner_products choose quadrature orders that are exact for their polynomial integrands; bsp_mass/stiffness_2d/3d without geometry are the stated Kronecker sums. 1D matrices for all derivative orders, two different spaces on a common mesh and polynomial weights are compared with exact rational integrals; Kronecker path vs generic path with identity geometry, entry sums vs measure, kernel of the stiffness matrix, SPD-ness, exact integrals/load vectors and the low-rank fast assembler are checked on enumerated spaces (bounded).',
    'note': 'double as real; non-zero determinant required; numeric clauses bounded (domain in evidence). The four 1D convenience wrappers forward every optional argument (call-argument obligations). Known finding: the low-rank assembler with its DEFAULT stopping counts depends on the rand() state (3 listed fresh-process histories, e.g. stiffness_fast on the unit square, p=1, 2x2 spans: 8 of 60 identical calls off by 0.375); with skipcount=tolcount=25 it meets its tolerance on the enumerated spaces.',
}
