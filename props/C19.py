"""C19 -- knot vectors are constructed and queried exactly."""
from pyvc import solve, relational
from contracts import bspline_cy, bspline

LEVEL = 'proof'
BOUNDED_MODULE = 'bounded.C19'
EXPLANATION = ('span lookup (unique non-empty span, right-continuous, last span at the right end), first-active / support / '
               'numdofs index arithmetic and symmetry+reflexivity of == are discharged for all inputs on the real source; '
               'make_knots, mesh/greville/refine/derivative (numpy glue, IEEE doubles) are bounded on the real code.')
ASSUMPTIONS = ['np.allclose(a,b,rtol,atol) == all(|a-b| <= atol + rtol*|b|) over the reals (numpy documentation)',
               'make_knots is checked with real doubles only in the bounded tier (over the reals np.linspace is trivially exact)']


def contracts(tier):
    return bspline_cy.CONTRACTS + bspline.CONTRACTS


def extra_obligations(tier):
    return [
        solve.custom_result('bspline_cy:pyx_findspan[lemma]', bspline_cy.F, 'pyx_findspan', bspline_cy.uniqueness_lemma),
        solve.custom_result('bspline:KnotVector.__eq__', bspline.F, 'KnotVector.__eq__',
                            lambda: relational.symmetric_and_reflexive(bspline.eq, bspline.eq_two)),
    ]

MANIFEST = {
    'category': 'proof',
    'technique': 'contract-based deductive verification (pyvc: VCs from the real Cython/Python source, z3/cvc5); bounded run-time contracts on the real code for the IEEE-double and numpy-glue clauses',
    'text': 'Span lookup (pyx_findspan binary search incl. the right-end case, uniqueness of the span, pyx_findspans, KnotVector.findspan/first_active/first_active_at/support_idx/numdofs) and reflexivity+symmetry of KnotVector.__eq__ are proved for all knot vectors and all parameter values from the current source. make_knots (exact span count, end point, multiplicities with real doubles), mesh/support/span-index/greville/refine consistency and Spline.derivative are checked by run-time contracts on the real code over the stated finite domain (bounded, not counted as proved).',
    'note': 'double treated as real in the proved part; np.allclose read as its documented formula; C int overflow excluded by the requires len(kv) < 2^31; bounded domain: p<=6, n<=400 (thorough 2000), mult<=max(1,p), 8 break sets; z3/cvc5, Cython parser and the pyvc executor are trusted.',
}
