"""C15 -- multi-level structured matrices behave as the sparse matrices they denote."""
from pyvc import solve
from contracts import mlmatrix_cy, mlmatrix

LEVEL = 'proof'
BOUNDED_MODULE = 'bounded.C15'
EXPLANATION = ('memory safety and write-time pattern contracts of the unchecked Cython kernels (ml_nonzero_2d/3d/nd, ml_matvec_2d/3d), '
               'the index maps (reindex_*, to_seq/from_seq incl. injectivity lemma), sequential_bidx and the MLMatrix._matvec call-site '
               'precondition are discharged for all inputs (level counts finite: nd L<=4, maps L<=3); numpy-glue (asmatrix, reorder, '
               'nonzeros_for_rows/columns, kron_partial, compute_sparsity_ij, banded patterns) is bounded against the dense Kronecker definition.')
ASSUMPTIONS = ['level count is a finite parameter: ml_nonzero_nd L in 1..4, index maps L in 1..3 (each instance proved for all values)',
               'per-level size bounds in the requires clauses exclude 64-bit overflow (block sizes <= 2^12..2^30 as stated per contract)',
               'ml_nonzero_*: the pattern clause is a write-time contract (value and slot of every store) plus monotone idx; for the 2- and 3-level '
               'kernels also completeness (idx = number of qualifying index tuples lexicographically before the current one, a count defined by '
               'its recurrences: no qualifying entry is skipped, also with lower_tri); the final-array quantified form is not discharged',
               'ml_nonzero_nd requires every level to list at least one nonzero (the code reads bidx[k][0] unconditionally)']


def contracts(tier):
    return mlmatrix_cy.CONTRACTS + mlmatrix.CONTRACTS


def extra_obligations(tier):
    _pu = solve.custom_result('paramuse:C15', 'pyiga/mlmatrix.py', 'all functions', __import__('pyvc.paramuse', fromlist=['x']).obligations(['pyiga/mlmatrix.py', 'pyiga/utils.py'], 'paramuse'))
    _r = [solve.custom_result('mlmatrix:to_seq[lemma L=%d]' % L, mlmatrix.F, 'to_seq', (lambda L=L: mlmatrix.horner_injective(L)))
            for L in (1, 2, 3)]
    return list(_r) + [_pu]

MANIFEST = {
    'category': 'proof',
    'technique': 'contract-based deductive verification (pyvc VCs from the Cython/Python source, z3 incl. nonlinear integer arithmetic); bounded run-time contracts vs dense np.kron for numpy glue',
    'text': 'The unchecked compiled kernels are verified from source: every array access of ml_nonzero_2d/3d/nd and ml_matvec_2d/3d is in bounds under the structure well-formedness predicate, every stored (row,col) pair equals the Kronecker position of the current per-level nonzeros and is stored at its C-order rank (lower_tri: only if col<=row), the odometer of ml_nonzero_nd keeps block_i/block_j consistent with its cursor; reindex_from_reordered / reindex_from_multilevel decode exactly the block coordinates, to_seq/from_seq are mutually inverse (injectivity lemma), sequential_bidx ravels with the column count, and MLMatrix._matvec meets the kernel precondition (result length = rows). asmatrix/dot/reorder/transpose/row-column queries/kron_partial/compute_sparsity_ij are compared with the dense Kronecker definition on enumerated patterns (bounded).',
    'note': 'C integers as mathematical integers with range obligations at stores; finite level counts (nd L<=4, maps L<=3); write-time form of the pattern clause; bounded domain as stated in evidence; z3 nonlinear arithmetic trusted. Products of operands declared with C types of at most 32 bits carry a range obligation (safe:int-product) in ml_nonzero_2d/3d and ml_matvec_2d/3d; fixed in /repo: those products wrapped at 2^32 (row/column numbers of structures with more than 2^32 rows), decided natively by the `large` cases.',
}
