"""C07 -- geometry maps evaluate consistently on every route and constructions are exact."""
from pyvc import solve
from contracts import geometry_c07 as g

LEVEL = 'proof'
BOUNDED_MODULE = 'bounded.C07'
EXPLANATION = ('index/axis conventions are discharged on the real code: scattered-point evaluators pair knot-vector axis d with coordinate '
               'sdim-1-d for sdim 1..3 (recorded callee arguments; control flow is data independent), _parse_bdspec is total with the documented '
               'table and raises otherwise (63 instance contracts via pyvc), _BoundaryFunction inserts the fixed coordinate at the right axis, and '
               'a frame analysis shows that no geometry operation stores into its operands. Value-level agreement of the evaluation routes, '
               'Jacobians/Hessians, NURBS quotient, constructors and exact circles are bounded (numeric).')
ASSUMPTIONS = ['the frame analysis is syntactic (stores, in-place operators, mutating method calls on self/parameters and their one-level aliases); '
               'aliasing through returned numpy views is covered only by the bounded immutability checks',
               'evaluation routes/derivatives/NURBS quotient rule/constructors are numeric: bounded only (tolerances in the bounded module)']


def contracts(tier):
    return g.BDSPEC_CONTRACTS


def extra_obligations(tier):
    _pu = solve.custom_result('paramuse:C07', 'pyiga/geometry.py', 'all functions', __import__('pyvc.paramuse', fromlist=['x']).obligations(['pyiga/geometry.py', 'pyiga/bspline.py'], 'paramuse'))
    _r = [solve.custom_result('bspline:tp_bsp_*_pointwise', g.FB, 'tp_bsp_eval_pointwise', g.pointwise_axis_obligations),
            solve.custom_result('geometry:_BoundaryFunction', g.FG, '_BoundaryFunction.eval', g.boundary_function_obligations),
            solve.custom_result('geometry:frame', g.FG, 'NurbsFunc.translate', g.frame_obligations)]
    return list(_r) + [_pu]

MANIFEST = {
    'category': 'proof',
    'technique': 'contract-based verification: pyvc symbolic execution of _parse_bdspec per instance, recorded-callee execution of the real scattered-point evaluators and _BoundaryFunction, AST frame analysis of the operations; numeric run-time contracts as bounded stand-in',
    'text': 'Proved from the current source: the three scattered-point evaluators use coordinate array sdim-1-d for knot-vector axis d (1D-3D, no IndexError); _parse_bdspec maps the six names and all (axis, side) pairs exactly as documented and raises ValueError for everything else; _BoundaryFunction.eval/support insert/drop the fixed axis consistently between xyz arguments and zyx knot vectors; none of translate/scale/apply_matrix/rotate_2d/as_nurbs/as_vector/component selection/boundary/copy/outer_sum/outer_product/tensor_product/evaluation methods stores into self or an argument. On seeded random B-spline/NURBS functions (sdim 1-3, scalar/vector/matrix values, repeated knots, random weights) single-point, grid and scattered evaluation agree, Jacobians and Hessians equal central differences of the evaluated map in the documented slot order, NURBS = numerator/weight, boundary() is the face restriction, operations equal their formulas and leave operands bit-identical, arcs/circles/disks/annuli lie on exact circles (bounded).',
    'note': 'value-level clauses bounded; frame analysis syntactic; 0-dimensional boundaries of 1D vector-valued functions are not supported by the library. Bounded comparisons do not broadcast (a result of the wrong shape is a difference); supports restricted in some directions only; grids with one-point axes.',
}
